"""Explicit-state exploration of wrapper stacks over tabular MDPs with the real env.step /
env.reset as transition functions (shared by C01 and C13).

A *stack spec* is a list of wrapper specs applied inner -> outer, e.g.
  [["ClipAction"], ["TimeLimit", 2], ["TransformReward", "negate"]]
The reference semantics of a stack is the *declared-change table* of the statement: an action
map (outer -> inner), an observation map, a reward map, and the list of time limits; everything
else must pass through unchanged.

BFS: layer 0 = env.reset(k) for k in K; an event is (outer action, key); all (MDP, state, event)
triples of a layer are executed by ONE vmapped call of the real env.step; returned states are
deduplicated by the raw values of all their array leaves (no abstraction) and the representatives
- real returned pytrees, never re-constructed ones - form the next frontier.
"""

from __future__ import annotations

import itertools
from collections import OrderedDict

import equinox as eqx
import jax
import numpy as np
from jax import numpy as jnp
from jax import random as jr

from lerax import wrapper as W
from lerax.space import Box, Discrete

from mc.mdp import TabEnv, reward_table

INF = float("inf")


# ---------------------------------------------------------------------------------------
# building real stacks
# ---------------------------------------------------------------------------------------
def _neg(x):
    return -x


def _flip(a):
    return 1 - a


def _double(x):
    return 2.0 * x


def _affine_r(r):
    return 0.5 * r + 1.0


def apply_wrapper(env, w):
    kind = w[0]
    if kind == "Identity":
        return W.Identity(env)
    if kind == "TimeLimit":
        return W.TimeLimit(env, w[1])
    if kind == "ClipAction":
        return W.ClipAction(env)
    if kind == "RescaleAction":
        return W.RescaleAction(env, jnp.asarray(float(w[1])), jnp.asarray(float(w[2])))
    if kind == "TransformAction":
        if isinstance(env.action_space, Box):
            return W.TransformAction(env, _neg, Box(-env.action_space.high, -env.action_space.low))
        return W.TransformAction(env, _flip, Discrete(2))
    if kind == "ClipObservation":
        return W.ClipObservation(env)
    if kind == "RescaleObservation":
        return W.RescaleObservation(env, jnp.asarray(float(w[1])), jnp.asarray(float(w[2])))
    if kind == "FlattenObservation":
        return W.FlattenObservation(env)
    if kind == "TransformObservation":
        sp = env.observation_space
        return W.TransformObservation(env, _double, Box(2.0 * sp.low, 2.0 * sp.high))
    if kind == "ClipReward":
        return W.ClipReward(env, float(w[1]), float(w[2]))
    if kind == "TransformReward":
        return W.TransformReward(env, _neg if w[1] == "negate" else _affine_r)
    raise ValueError(kind)


def applicable(spec, base_act: str, base_obs: str) -> bool:
    """Static applicability of a stack given the base kinds (mirrors the documented requirements)."""
    act_box = base_act in ("box", "boxvec")
    obs_box = base_obs == "onehot"
    for w in spec:
        k = w[0]
        if k in ("ClipAction", "RescaleAction") and not act_box:
            return False
        if k == "TransformAction" and base_act not in ("box", "discrete"):
            return False
        if k in ("ClipObservation", "RescaleObservation", "TransformObservation") and not obs_box:
            return False
        if k == "FlattenObservation":
            obs_box = True
    return True


def build_stack(base: TabEnv, spec):
    env = base
    for w in spec:
        env = apply_wrapper(env, w)
    return env


def base_env(case: dict) -> TabEnv:
    return TabEnv(np.asarray(case["T"]), case["term"], case["init"], M=case.get("M"), limit=case.get("limit", 0),
                  act_kind=case["act_kind"], obs_kind=case["obs_kind"])


def inner_chain(env):
    """[outer, ..., base] following .env"""
    out = [env]
    while hasattr(out[-1], "env") and not isinstance(out[-1], TabEnv):
        out.append(out[-1].env)
    return out


def batch_stack(template, tables: list[dict]):
    """Replace the table leaves of the TabEnv at the bottom of `template` by batched arrays and
    broadcast every other array leaf."""
    depth = len(inner_chain(template)) - 1
    n = len(tables)

    def base_of(e):
        for _ in range(depth):
            e = e.env
        return e

    arr = lambda k, dt: jnp.asarray(np.asarray([t[k] for t in tables]), dtype=dt)
    lim = jnp.asarray(np.asarray([t.get("limit", 0) for t in tables]), dtype=int)
    new = eqx.tree_at(lambda e: (base_of(e).T, base_of(e).term, base_of(e).init, base_of(e).limit),
                      template, (arr("T", int), arr("term", bool), arr("init", bool), lim))
    if tables[0].get("M") is not None:
        new = eqx.tree_at(lambda e: base_of(e).M, new, arr("M", bool))
    new_arr, static = eqx.partition(new, eqx.is_array)
    old_arr, _ = eqx.partition(template, eqx.is_array)
    leaves, treedef = jax.tree.flatten(new_arr)
    t_leaves = jax.tree.leaves(old_arr)
    out = []
    for nl, ol in zip(leaves, t_leaves):
        if nl.ndim == ol.ndim:
            nl = jnp.broadcast_to(nl, (n,) + nl.shape)
        out.append(nl)
    return jax.tree.unflatten(treedef, out), static


# ---------------------------------------------------------------------------------------
# reference semantics of a stack (numpy, float64)
# ---------------------------------------------------------------------------------------
class StackRef:
    def __init__(self, spec, act_kind, obs_kind, S, A):
        self.spec, self.act_kind, self.obs_kind, self.S, self.A = spec, act_kind, obs_kind, S, A
        self.limits = [w[1] for w in spec if w[0] == "TimeLimit"]  # inner -> outer
        # spaces as advertised (low, high, shape) or ('discrete', n)
        act = ("box", -1.0, 1.0, () if act_kind == "box" else (2,)) if act_kind in ("box", "boxvec") else ("discrete", A)
        if act_kind in ("multidiscrete", "multibinary"):
            act = (act_kind,)
        obs = ("box", 0.0, 1.0, (S,)) if obs_kind == "onehot" else ("discrete", S)
        self.act_maps, self.obs_maps, self.rew_maps = [], [], []
        for w in spec:
            k = w[0]
            if k == "ClipAction":
                lo, hi = act[1], act[2]
                self.act_maps.append(lambda a, lo=lo, hi=hi: np.clip(a, lo, hi))
                act = ("box", -INF, INF, act[3])
            elif k == "RescaleAction":
                lo, hi, nlo, nhi = act[1], act[2], float(w[1]), float(w[2])
                self.act_maps.append(lambda a, lo=lo, hi=hi, nlo=nlo, nhi=nhi: lo + (np.asarray(a, dtype=np.float64) - nlo) * (hi - lo) / (nhi - nlo))
                act = ("box", nlo, nhi, act[3])
            elif k == "TransformAction":
                if act[0] == "box":
                    self.act_maps.append(lambda a: -np.asarray(a, dtype=np.float64))
                    act = ("box", -act[2], -act[1], act[3])
                else:
                    self.act_maps.append(lambda a: 1 - np.asarray(a))
            elif k == "ClipObservation":
                lo, hi = obs[1], obs[2]
                self.obs_maps.append(lambda o, lo=lo, hi=hi: np.clip(o, lo, hi))
            elif k == "RescaleObservation":
                lo, hi, nlo, nhi = obs[1], obs[2], float(w[1]), float(w[2])
                self.obs_maps.append(lambda o, lo=lo, hi=hi, nlo=nlo, nhi=nhi: nlo + (np.asarray(o, dtype=np.float64) - lo) * (nhi - nlo) / (hi - lo))
                obs = ("box", nlo, nhi, obs[3])
            elif k == "FlattenObservation":
                if obs[0] == "discrete":
                    self.obs_maps.append(lambda o: np.asarray(o, dtype=np.float64).reshape(o.shape + (1,)) if np.ndim(o) else np.asarray([o], dtype=np.float64))
                    obs = ("box", -INF, INF, (1,))
                else:
                    self.obs_maps.append(lambda o: np.asarray(o, dtype=np.float64))
                    obs = ("box", -INF, INF, obs[3])
            elif k == "TransformObservation":
                self.obs_maps.append(lambda o: 2.0 * np.asarray(o, dtype=np.float64))
                obs = ("box", 2.0 * obs[1], 2.0 * obs[2], obs[3])
            elif k == "ClipReward":
                lo, hi = float(w[1]), float(w[2])
                self.rew_maps.append(lambda r, lo=lo, hi=hi: np.clip(r, lo, hi))
            elif k == "TransformReward":
                self.rew_maps.append((lambda r: -r) if w[1] == "negate" else (lambda r: 0.5 * r + 1.0))
        self.act_space, self.obs_space = act, obs

    def inner_action(self, a):
        for f in reversed(self.act_maps):  # outermost wrapper maps first
            a = f(a)
        return a

    def outer_obs(self, o):
        for f in self.obs_maps:
            o = f(o)
        return o

    def outer_reward(self, r):
        for f in self.rew_maps:
            r = f(r)
        return r

    def outer_actions(self):
        """Finite outer action alphabet: every boundary of the advertised space, an interior
        point, and values outside the advertised bounds (the inner env then sees whatever the map
        makes of them)."""
        if self.act_space[0] == "discrete":
            return [int(a) for a in range(self.A)]
        if self.act_space[0] == "multidiscrete":
            return [[0, 0], [1, 1], [0, 1]]
        if self.act_space[0] == "multibinary":
            return [[0, 0], [1, 1], [1, 0]]
        lo, hi, shape = self.act_space[1], self.act_space[2], self.act_space[3]
        vals = {-3.0, -0.5, 0.5, 3.0}
        for b in (lo, hi):
            if np.isfinite(b):
                vals |= {b, b - 1.0, b + 1.0}
        if np.isfinite(lo) and np.isfinite(hi):
            vals.add((lo + hi) / 2.0)
        vals = sorted(vals)
        if shape == ():
            return vals
        return [[v, w] for v, w in zip(vals, reversed(vals))]


def tab_successor(T, s, a_inner, act_kind, S):
    """TabEnv dynamics incl. the 'derail' rule for out-of-bounds Box actions."""
    from mc.refs import action_index_np

    idx = action_index_np(a_inner, act_kind)
    nxt = T[np.arange(len(s)), s, idx]
    if act_kind in ("box", "boxvec"):
        a = np.asarray(a_inner, dtype=np.float64).reshape(len(s), -1)
        oob = np.any(np.abs(a) > 1.0, axis=1)
        nxt = np.where(oob, (nxt + 1) % S, nxt)
    return idx, nxt


# ---------------------------------------------------------------------------------------
# state decoding
# ---------------------------------------------------------------------------------------
def decode_state(state):
    """-> dict(s, t, counts=[inner..outer]) of numpy arrays; walks .env_state"""
    counts = []
    st = state
    while hasattr(st, "env_state"):
        if hasattr(st, "step_count"):
            counts.append(np.asarray(st.step_count))
        st = st.env_state
    counts.reverse()  # inner -> outer
    return dict(s=np.asarray(st.s), t=np.asarray(st.t), counts=counts)


def state_rows(state):
    """canonical form: every array leaf, flattened per row"""
    leaves = [np.asarray(x) for x in jax.tree.leaves(state)]
    n = leaves[0].shape[0]
    return np.concatenate([l.reshape(n, -1).astype(np.int64) for l in leaves], axis=1)


_STEP = {}


def runners(static):
    """jitted drivers over the batched array part of the stack; `static` holds the non-array leaves"""

    def env_at(env_arrays, mi):
        return eqx.combine(jax.tree.map(lambda x: x[mi], env_arrays), static)

    @eqx.filter_jit
    def reset_all(env_arrays, keys):  # [M], [K] -> [M, K]
        def per_env(ea):
            e = eqx.combine(ea, static)
            return jax.vmap(lambda k: e.reset(key=k))(keys)

        return jax.vmap(per_env)(env_arrays)

    @eqx.filter_jit
    def step_all(env_arrays, midx, states, actions, keys):
        def one(mi, st, a, k):
            e = env_at(env_arrays, mi)
            out = e.step(st, a, key=k)
            nxt = e.transition(st, a, key=k)
            parts = dict(
                next=nxt, reward=e.reward(st, a, nxt, key=k), terminal=e.terminal(nxt, key=k), truncate=e.truncate(nxt),
                obs=e.observation(st, key=k), mask=e.action_mask(st, key=k), info=e.transition_info(st, a, nxt),
                sinfo=e.state_info(st),
            )
            return out, parts

        return jax.vmap(one)(midx, states, actions, keys)

    return reset_all, step_all


# ---------------------------------------------------------------------------------------
# the BFS
# ---------------------------------------------------------------------------------------
def explore_stack(spec, tables: list[dict], key_list: list[int], depth_cap: int, pid: str, stats: dict, in_space_only: bool = False):
    """Returns list of (table_index, signature, message, event_path)."""
    t0 = tables[0]
    act_kind, obs_kind, S, A = t0["act_kind"], t0["obs_kind"], t0["S"], t0["A"]
    template = build_stack(base_env(t0), spec)
    ref = StackRef(spec, act_kind, obs_kind, S, A)
    fails = []
    M = len(tables)
    Tt = np.asarray([t["T"] for t in tables]).astype(int)
    term_t = np.asarray([t["term"] for t in tables]).astype(bool)
    init_t = np.asarray([t["init"] for t in tables]).astype(bool)
    lim_t = np.asarray([t.get("limit", 0) for t in tables]).astype(int)
    has_mask = t0.get("M") is not None
    M_t = np.asarray([t["M"] for t in tables]).astype(bool) if has_mask else None
    R = reward_table(S, A).astype(np.float64)
    from mc.refs import action_term_np, close

    # advertised spaces
    fails += [(0, sig, msg, []) for sig, msg in space_failures(template, ref, pid)]
    envs, static = batch_stack(template, tables)
    reset_all, step_all = runners(static)
    keys = jax.vmap(jr.key)(jnp.asarray(key_list))
    K = len(key_list)
    acts = ref.outer_actions()
    if in_space_only:
        acts = [a for a in acts if in_space(ref.act_space, a)]
    acts_np = np.asarray(acts, dtype=np.float64 if ref.act_space[0] == "box" else np.int64)
    nA = len(acts)

    def add(mask, midx, sig, fmt, paths=None):
        for i in np.nonzero(mask)[0][:3]:
            fails.append((int(midx[i]), f"{pid}/{sig}", fmt(int(i)), None if paths is None else paths(int(i))))

    layers = []  # per BFS layer: (parent index into previous frontier or -1, event) for each frontier state

    def path_to(layer, fi):
        out = []
        while layer >= 0:
            par, ev = layers[layer][fi]
            out.append(ev)
            fi, layer = par, layer - 1
        return out[::-1]

    def obs_expect(s):
        base = s if obs_kind == "discrete" else (np.arange(S)[None, :] == s[:, None]).astype(np.float64)
        return ref.outer_obs(base)

    # ---- layer 0: reset ----------------------------------------------------------------
    st, ob, info = reset_all(envs, keys)
    flat = lambda x: jax.tree.map(lambda l: l.reshape((M * K,) + l.shape[2:]), x)
    st, ob = flat(st), flat(ob)
    midx = np.repeat(np.arange(M), K)
    d = decode_state(st)
    add(~init_t[midx, d["s"]], midx, "reset/state-not-initial", lambda i: f"stack {spec}: reset state {d['s'][i]} not in init set {init_t[midx[i]].tolist()}")
    add(d["t"] != 0, midx, "reset/env-clock", lambda i: f"stack {spec}: env clock after reset {d['t'][i]}")
    for ci, cnt in enumerate(d["counts"]):
        add(cnt != 0, midx, "reset/wrapper-count", lambda i: f"stack {spec}: TimeLimit #{ci} step_count after reset = {cnt[i]}")
    eo = obs_expect(d["s"])
    add(~np.all(close(np.asarray(ob, dtype=np.float64).reshape(len(midx), -1), np.asarray(eo, dtype=np.float64).reshape(len(midx), -1), 1e-6), axis=1), midx,
        "reset/observation", lambda i: f"stack {spec}: reset observation {np.asarray(ob)[i].tolist()} is not the observation {np.asarray(eo)[i].tolist()} of the returned state {d['s'][i]}")
    # freshness guard: over K the reset state is not constant when |init| >= 2
    s_mk = d["s"].reshape(M, K)
    multi = init_t.sum(1) >= 2
    stats["reset-multi-init"] = stats.get("reset-multi-init", 0) + int(multi.sum())
    stats["reset-multi-init-varied"] = stats.get("reset-multi-init-varied", 0) + int(((s_mk.max(1) != s_mk.min(1)) & multi).sum())

    seen = set()

    def fresh(midx_arr, state):
        """indices of rows whose (mdp, raw state leaves) has not been seen before (first occurrence)"""
        rows = np.concatenate([np.asarray(midx_arr).reshape(-1, 1).astype(np.int64), state_rows(state)], axis=1)
        _, first = np.unique(rows, axis=0, return_index=True)
        keep = []
        for i in np.sort(first):
            k = tuple(rows[i].tolist())
            if k not in seen:
                seen.add(k)
                keep.append(int(i))
        return np.asarray(keep, dtype=int)

    keep = fresh(midx, st)
    frontier = jax.tree.map(lambda x: x[keep], st)
    f_midx = midx[keep]
    layers.append([(-1, ("reset", int(key_list[i % K]))) for i in keep])
    n_states, n_trans = len(keep), 0
    for depth in range(depth_cap):
        F = len(f_midx)
        if F == 0:
            break
        # all (state, action, key) triples of this layer
        si = np.repeat(np.arange(F), nA * K)
        ai = np.tile(np.repeat(np.arange(nA), K), F)
        ki = np.tile(np.arange(K), F * nA)
        states = jax.tree.map(lambda x: x[si], frontier)
        a_out = acts_np[ai]
        a_j = jnp.asarray(a_out, dtype=float if ref.act_space[0] == "box" else int)
        mi = f_midx[si]
        (nst, nob, rew, term, trunc, info), parts = step_all(envs, jnp.asarray(mi), states, a_j, keys[ki])
        n_trans += len(si)
        cur_layer = len(layers) - 1
        paths = lambda j: path_to(cur_layer, int(si[j])) + [("step", np.asarray(a_out[j]).tolist(), int(key_list[ki[j]]))]
        d0 = decode_state(states)
        d1 = decode_state(nst)
        s, t = d0["s"], d0["t"]
        a_in = ref.inner_action(a_out)
        idx, s2 = tab_successor(Tt[mi], s, a_in, act_kind, S)
        r_in = R[s, idx, s2] + action_term_np(a_in, act_kind)
        r_exp = ref.outer_reward(r_in)
        e_term = term_t[mi, s2]
        e_trunc = (lim_t[mi] > 0) & (t + 1 >= lim_t[mi])
        for ci, N in enumerate(ref.limits):
            e_trunc = e_trunc | (d0["counts"][ci] + 1 >= N)
        done = e_term | e_trunc
        stats["done"] = stats.get("done", 0) + int(done.sum())
        stats["trunc"] = stats.get("trunc", 0) + int(e_trunc.sum())
        stats["term"] = stats.get("term", 0) + int(e_term.sum())
        rew = np.asarray(rew, dtype=np.float64)
        add(~close(rew, r_exp, 1e-6), mi, "step/reward", lambda i: f"stack {spec}: state {s[i]} outer action {np.asarray(a_out[i]).tolist()} (inner {np.asarray(a_in[i]).tolist()}) -> {s2[i]}: reward {rew[i]}, declared {r_exp[i]}", paths)
        add(np.asarray(term) != e_term, mi, "step/terminal", lambda i: f"stack {spec}: terminal={bool(np.asarray(term)[i])}, successor {s2[i]} terminal={e_term[i]}", paths)
        add(np.asarray(trunc) != e_trunc, mi, "step/truncated", lambda i: f"stack {spec}: truncated={bool(np.asarray(trunc)[i])} at episode step {t[i] + 1} (counters {[int(c[i]) for c in d0['counts']]}, limits {ref.limits}, own limit {lim_t[mi[i]]}), reference {e_trunc[i]}", paths)
        # returned state
        add(done & ~init_t[mi, d1["s"]], mi, "step/done-state-not-initial", lambda i: f"stack {spec}: episode ended but the returned state {d1['s'][i]} is not an initial state {init_t[mi[i]].tolist()}", paths)
        add(done & (d1["t"] != 0), mi, "step/done-clock-not-restarted", lambda i: f"stack {spec}: episode ended but env clock = {d1['t'][i]}", paths)
        for ci in range(len(ref.limits)):
            c0, c1 = d0["counts"][ci], d1["counts"][ci]
            add(done & (c1 != 0), mi, "step/done-counter-not-restarted", lambda i: f"stack {spec}: episode ended but TimeLimit #{ci} step_count = {c1[i]}", paths)
            add(~done & (c1 != c0 + 1), mi, "step/counter", lambda i: f"stack {spec}: TimeLimit #{ci} step_count {c0[i]} -> {c1[i]}", paths)
        add(~done & (d1["s"] != s2), mi, "step/successor", lambda i: f"stack {spec}: state {s[i]}, inner action {np.asarray(a_in[i]).tolist()}: returned state {d1['s'][i]}, successor {s2[i]}", paths)
        add(~done & (d1["t"] != t + 1), mi, "step/clock", lambda i: f"stack {spec}: env clock {t[i]} -> {d1['t'][i]}", paths)
        eo = obs_expect(d1["s"])
        bad_obs = ~np.all(close(np.asarray(nob, dtype=np.float64).reshape(len(mi), -1), np.asarray(eo, dtype=np.float64).reshape(len(mi), -1), 1e-6), axis=1)
        add(bad_obs & done, mi, "step/observation-not-of-reset-state", lambda i: f"stack {spec}: episode ended; returned observation {np.asarray(nob)[i].tolist()} is not that of the returned (fresh) state {d1['s'][i]} (successor was {s2[i]})", paths)
        add(bad_obs & ~done, mi, "step/observation", lambda i: f"stack {spec}: returned observation {np.asarray(nob)[i].tolist()}, successor state {d1['s'][i]} has {np.asarray(eo)[i].tolist()}", paths)
        # info passes through with the mapped action
        if "given" in info:
            add(~close(np.asarray(info["given"]), action_term_np(a_in, act_kind), 1e-6) | (np.asarray(info["n"]) != s2), mi, "step/info",
                lambda i: f"stack {spec}: transition info {{given: {np.asarray(info['given'])[i]}, n: {np.asarray(info['n'])[i]}}} does not describe inner action {np.asarray(a_in[i]).tolist()} -> {s2[i]}", paths)
        else:
            add(np.ones(len(mi), bool), mi, "step/info-dropped", lambda i: f"stack {spec}: inner transition info not passed through", paths)
        # functional components (transparency)
        pd = decode_state(parts["next"])
        add(pd["s"] != s2, mi, "parts/transition", lambda i: f"stack {spec}: transition({s[i]}, {np.asarray(a_out[i]).tolist()}) -> {pd['s'][i]}, inner env with mapped action {np.asarray(a_in[i]).tolist()} -> {s2[i]}", paths)
        add(~close(np.asarray(parts["reward"]), r_exp, 1e-6), mi, "parts/reward", lambda i: f"stack {spec}: reward() = {np.asarray(parts['reward'])[i]}, declared {r_exp[i]} (inner action {np.asarray(a_in[i]).tolist()})", paths)
        add(np.asarray(parts["terminal"]) != e_term, mi, "parts/terminal", lambda i: f"stack {spec}: terminal() differs from inner", paths)
        add(np.asarray(parts["truncate"]) != e_trunc, mi, "parts/truncate", lambda i: f"stack {spec}: truncate() = {bool(np.asarray(parts['truncate'])[i])} after episode step {t[i] + 1}, counters {[int(c[i]) for c in d0['counts']]}, limits {ref.limits}; reference {e_trunc[i]}", paths)
        eo0 = obs_expect(s)
        add(~np.all(close(np.asarray(parts["obs"], dtype=np.float64).reshape(len(mi), -1), np.asarray(eo0, dtype=np.float64).reshape(len(mi), -1), 1e-6), axis=1), mi,
            "parts/observation", lambda i: f"stack {spec}: observation(state {s[i]}) = {np.asarray(parts['obs'])[i].tolist()}, declared {np.asarray(eo0)[i].tolist()}", paths)
        if has_mask:
            if parts["mask"] is None:
                add(np.ones(len(mi), bool), mi, "parts/mask-dropped", lambda i: f"stack {spec}: inner action mask not passed through", paths)
            else:
                add(np.any(np.asarray(parts["mask"]) != M_t[mi, s], axis=1), mi, "parts/mask", lambda i: f"stack {spec}: action_mask {np.asarray(parts['mask'])[i].tolist()}, inner {M_t[mi[i], s[i]].tolist()}", paths)
        elif parts["mask"] is not None:
            add(np.ones(len(mi), bool), mi, "parts/mask-invented", lambda i: f"stack {spec}: a mask appeared", paths)
        if "s" not in parts["sinfo"] or np.any(np.asarray(parts["sinfo"]["s"]) != s):
            add(np.ones(len(mi), bool), mi, "parts/state-info", lambda i: f"stack {spec}: state_info not passed through", paths)
        # next frontier
        keep = fresh(mi, nst)
        if len(keep) == 0:
            f_midx = np.zeros(0, int)
            break
        frontier = jax.tree.map(lambda x: x[keep], nst)
        f_midx = mi[keep]
        layers.append([(int(si[j]), ("step", np.asarray(a_out[j]).tolist(), int(key_list[ki[j]]))) for j in keep])
        n_states += len(keep)
    jax.clear_caches()  # every stack compiles its own drivers; keep worker memory bounded over hundreds of stacks
    stats["states"] = stats.get("states", 0) + n_states
    stats["transitions"] = stats.get("transitions", 0) + n_trans
    stats["frontier_left"] = stats.get("frontier_left", 0) + len(f_midx)
    return fails


def in_space(space, a) -> bool:
    if space[0] != "box":
        return True
    a = np.asarray(a, dtype=np.float64)
    return bool(np.all(a >= space[1]) and np.all(a <= space[2]))


def space_failures(env, ref: StackRef, pid: str):
    """Advertised spaces / pass-through attributes of the real stack vs the declared table."""
    out = []
    chain = inner_chain(env)
    base = chain[-1]

    def cmp(real, want, what):
        if want[0] == "discrete":
            if not (isinstance(real, Discrete) and real.n == want[1]):
                out.append((f"{pid}/spaces/{what}", f"stack {ref.spec}: advertised {what} space {real!r}, declared Discrete({want[1]})"))
        elif want[0] == "box":
            ok = isinstance(real, Box) and tuple(real.shape) == tuple(want[3]) and np.allclose(np.asarray(real.low), want[1], atol=1e-6) and np.allclose(np.asarray(real.high), want[2], atol=1e-6)
            if not ok:
                out.append((f"{pid}/spaces/{what}", f"stack {ref.spec}: advertised {what} space {real!r}, declared Box({want[1]}, {want[2]}, shape={want[3]})"))
        else:
            if type(real) is not type(getattr(base, f"{what}_space")):
                out.append((f"{pid}/spaces/{what}", f"stack {ref.spec}: advertised {what} space {real!r}"))

    cmp(env.action_space, ref.act_space, "action")
    cmp(env.observation_space, ref.obs_space, "observation")
    if env.unwrapped is not base:
        out.append((f"{pid}/passthrough/unwrapped", f"stack {ref.spec}: env.unwrapped is {type(env.unwrapped).__name__}, not the base environment"))
    if env.name != base.name:
        out.append((f"{pid}/passthrough/name", f"stack {ref.spec}: name {env.name!r} != {base.name!r}"))
    st = env.initial(key=jr.key(0))
    if type(st.unwrapped).__name__ != "TabState":
        out.append((f"{pid}/passthrough/state-unwrapped", f"stack {ref.spec}: state.unwrapped is {type(st.unwrapped).__name__}"))
    return out


# ---------------------------------------------------------------------------------------
# stack enumeration
# ---------------------------------------------------------------------------------------
ATOMS = [
    ["Identity"], ["TimeLimit", 2], ["TimeLimit", 3], ["ClipAction"], ["RescaleAction", 0.0, 4.0], ["TransformAction"],
    ["ClipObservation"], ["RescaleObservation", -1.0, 1.0], ["FlattenObservation"], ["TransformObservation"],
    ["ClipReward", -2.0, 3.0], ["TransformReward", "negate"], ["TransformReward", "affine"],
]


def all_stacks(max_depth: int, base_act: str, base_obs: str, require=None):
    out = [[]]
    for d in range(1, max_depth + 1):
        for combo in itertools.product(ATOMS, repeat=d):
            spec = [list(w) for w in combo]
            if not applicable(spec, base_act, base_obs):
                continue
            if not constructible_in_principle(spec, base_act):
                continue
            if require and not any(w[0] == require for w in spec):
                continue
            out.append(spec)
    return out


def constructible_in_principle(spec, base_act):
    """RescaleAction needs a bounded box underneath (ClipAction advertises an unbounded one);
    RescaleObservation needs bounded observations (FlattenObservation advertises unbounded)."""
    act_bounded = base_act in ("box", "boxvec")
    obs_bounded = True
    for w in spec:
        if w[0] == "ClipAction":
            act_bounded = False
        if w[0] == "RescaleAction":
            if not act_bounded:
                return False
        if w[0] == "FlattenObservation":
            obs_bounded = False
        if w[0] == "RescaleObservation" and not obs_bounded:
            return False
        if w[0] == "RescaleObservation" or w[0] == "TransformObservation":
            pass
    return True
