"""Pure numpy (float64) reference models, written from the property statements.

Conventions: a *stream* is one environment's sequence of steps.  All functions are vectorised
over streams (leading axis B) with a plain Python loop over time, nothing else.
"""

from __future__ import annotations

import numpy as np

from mc.mdp import reward_table
from mc.policies import default_LP0, default_V

BOX_KINDS = ("box", "boxvec", "boxhalf")  # boxhalf: Box(-1, inf): bounded on one side only


# ---------------------------------------------------------------------------------------
# tabular MDP semantics
# ---------------------------------------------------------------------------------------
def action_index_np(action, act_kind):
    a = np.asarray(action)
    if act_kind == "discrete":
        return a.astype(int)
    if act_kind in ("box", "boxhalf"):
        return (a >= 0).astype(int)
    if act_kind == "boxvec":
        return (a[..., 0] >= 0).astype(int)
    return a[..., 0].astype(int)


def action_term_np(action, act_kind):
    a = np.asarray(action, dtype=np.float64)
    if act_kind == "discrete":
        return np.zeros(a.shape)
    if act_kind in ("box", "boxhalf"):
        return a / 16.0
    if act_kind == "boxvec":
        return a[..., 0] / 16.0 + a[..., 1] / 64.0
    return a[..., 1] / 16.0


def clip_np(action, act_kind):
    if act_kind == "boxhalf":
        return np.maximum(np.asarray(action, dtype=np.float64), -1.0)
    if act_kind in BOX_KINDS:
        return np.clip(np.asarray(action, dtype=np.float64), -1.0, 1.0)
    return np.asarray(action)


def penalty_np(action, act_kind):
    a = np.asarray(action, dtype=np.float64)
    if act_kind == "discrete":
        return a * 0.5
    if act_kind in ("box", "boxhalf"):
        return 0.25 * (a - 0.5) ** 2
    if act_kind == "boxvec":
        return 0.25 * (a[..., 0] - 0.5) ** 2 + 0.0625 * (a[..., 1] + 0.5) ** 2
    return a[..., 0] * 0.5 + a[..., 1] * 0.125


def mask_code_np(mask):
    """mask: [..., A] bool -> sum mask[i] 2^i"""
    m = np.asarray(mask).astype(np.float64)
    return (m * (2.0 ** np.arange(m.shape[-1]))).sum(-1)


class Tables:
    """Per-stream MDP tables (B streams)."""

    def __init__(self, cases: list[dict], repeat: int = 1):
        c0 = cases[0]
        self.S, self.A = c0["S"], c0["A"]
        self.act_kind, self.obs_kind = c0["act_kind"], c0["obs_kind"]
        rep = lambda x: np.repeat(np.asarray(x), repeat, axis=0)
        self.T = rep([c["T"] for c in cases]).astype(int)  # [B,S,A]
        self.term = rep([c["term"] for c in cases]).astype(bool)
        self.init = rep([c["init"] for c in cases]).astype(bool)
        self.has_mask = c0.get("M") is not None
        self.M = rep([c["M"] for c in cases]).astype(bool) if self.has_mask else None
        self.limit = rep([c.get("limit", 0) for c in cases]).astype(int)
        self.tl = rep([c.get("tl", 0) or 0 for c in cases]).astype(int)  # TimeLimit wrapper, 0 = absent
        self.R = reward_table(self.S, self.A).astype(np.float64)
        self.B = self.T.shape[0]
        self.V = rep([c.get("V") or default_V(self.S).tolist() for c in cases]).astype(np.float64)
        self.LP0 = rep([c.get("LP0") or default_LP0(self.S).tolist() for c in cases]).astype(np.float64)
        self.VS = rep([c.get("VS", 0.0) for c in cases]).astype(np.float64)  # V(obs, c) = V[obs] + VS * (policy counter c)

    def successor(self, s, a_idx):
        b = np.arange(self.B)
        return self.T[b, s, a_idx]

    def reward(self, s, a_given, s2):
        idx = action_index_np(a_given, self.act_kind)
        return self.R[s, idx, s2] + action_term_np(a_given, self.act_kind)

    def obs_of(self, s):
        if self.obs_kind == "discrete":
            return s
        return (np.arange(self.S)[None, :] == s[:, None]).astype(np.float64)


def gae_np(rewards, values, dones, last_value, gamma, lam):
    """GAE exactly as the property states it.  rewards/values/dones: [B,T]; last_value: [B]."""
    rewards = np.asarray(rewards, dtype=np.float64)
    values = np.asarray(values, dtype=np.float64)
    dones = np.asarray(dones, dtype=bool)
    B, T = rewards.shape
    adv = np.zeros((B, T))
    nxt_adv = np.zeros(B)
    nxt_val = np.asarray(last_value, dtype=np.float64)
    for t in range(T - 1, -1, -1):
        nd = 1.0 - dones[:, t].astype(np.float64)
        delta = rewards[:, t] + gamma * nd * nxt_val - values[:, t]
        nxt_adv = delta + gamma * lam * nd * nxt_adv
        adv[:, t] = nxt_adv
        nxt_val = values[:, t]
    return adv, adv + values


def close(x, y, tol=1e-5):
    x = np.asarray(x, dtype=np.float64)
    y = np.asarray(y, dtype=np.float64)
    with np.errstate(invalid="ignore"):  # inf - inf: not close
        return np.abs(x - y) <= tol * np.maximum(1.0, np.abs(y))


# ---------------------------------------------------------------------------------------
# on-policy collection reference (trace validation)
# ---------------------------------------------------------------------------------------
def check_onpolicy(tb: Tables, script, obs, acts, rews, dones, logps, vals, pstates, masks,
                   adv, ret, s0, final_s, final_t, final_tl, final_c, gamma, lam,
                   init_t=None, init_tl=None, init_c=None, trace_actions=False, lp_eval=None, lp_eval_nomask=None):
    """Validate B recorded on-policy streams against the reference collector.

    trace_actions=True (real, key-driven policies): the action the policy chose is read back from the trace (the row
    stores it) instead of a script, policy-state checks are skipped (stateless policies) and the policy's own
    log-probability of the stored sample is supplied as lp_eval[B,T] (computed by the real evaluate_action with the
    recorded mask; lp_eval_nomask = without a mask); tb.V then holds the real policy's value of every observation.

    script [B,L,...]; obs [B,T(,S)]; acts [B,T,...]; rews/dones/logps/vals/adv/ret [B,T];
    pstates [B,T] stored policy counters; masks [B,T,A] or None; s0 [B] initial env state index
    (the environment's answer to the first reset, read back and checked for legality);
    final_* the carried step state.  Returns list of (stream, step, signature, message).
    """
    B, Tn = rews.shape
    b = np.arange(B)
    fails = []
    stats = dict(trunc_only=0, term_only=0, both=0, clipped=0, after_reset=0, masked_rows=0)

    def add(mask, step, sig, fmt):
        idx = np.nonzero(mask)[0]
        for i in idx[:3]:
            fails.append((int(i), step, sig, fmt(int(i))))

    s = np.asarray(s0).astype(int).copy()
    add(~tb.init[b, s], -1, "C04/reset/initial-state-not-in-init-set", lambda i: f"initial state {s[i]} not in init set {tb.init[i].tolist()}")
    t = np.zeros(B, dtype=int)  # steps taken in the current episode
    c = np.zeros(B, dtype=int)  # policy counter
    if init_t is not None:
        add(np.asarray(init_t) != 0, -1, "C04/reset/env-clock", lambda i: f"env clock after reset {init_t[i]}")
    if init_tl is not None:
        add(np.asarray(init_tl) != 0, -1, "C04/reset/timelimit-count", lambda i: f"TimeLimit count after reset {init_tl[i]}")
    if init_c is not None:
        add(np.asarray(init_c) != 0, -1, "C04/reset/policy-state", lambda i: f"policy counter after reset {init_c[i]}")
    L = script.shape[1] if script is not None else 1
    exp_rew = np.zeros((B, Tn))
    exp_val = np.zeros((B, Tn))
    exp_done = np.zeros((B, Tn), dtype=bool)
    was_reset = np.zeros(B, dtype=bool)
    for j in range(Tn):
        # after a done step the environment's fresh initial state is read back from the trace
        if j > 0:
            oj = obs_index_np(obs[:, j], tb.obs_kind)
            s = np.where(was_reset, oj, s)
            add(was_reset & ~tb.init[b, s], j, "C04/after-done/env-not-restarted", lambda i: f"step {j}: observation after a done step shows state {s[i]}, not an initial state {tb.init[i].tolist()}")
            stats["after_reset"] += int(was_reset.sum())
        exp_obs = tb.obs_of(s)
        ob = np.asarray(obs[:, j], dtype=np.float64)
        bad = ~(np.all((ob == exp_obs).reshape(B, -1), axis=1))
        add(bad, j, "C04/row/observation", lambda i: f"step {j}: stored observation {np.asarray(obs[i, j]).tolist()} but the environment was in state {s[i]}")
        if not trace_actions:
            add(np.asarray(pstates[:, j]) != c, j, "C04/row/policy-state", lambda i: f"step {j}: stored policy state {pstates[i, j]}, policy was in state {c[i]}")
        a_raw = acts[:, j] if trace_actions else script[b, c % L]
        a_clip = clip_np(a_raw, tb.act_kind)
        clipped = np.any((np.asarray(a_raw, dtype=np.float64) != np.asarray(a_clip, dtype=np.float64)).reshape(B, -1), axis=1)
        stats["clipped"] += int(clipped.sum())
        a_st = acts[:, j]
        eq_raw = np.all((np.asarray(a_st, dtype=np.float64) == np.asarray(a_raw, dtype=np.float64)).reshape(B, -1), axis=1)
        eq_clip = np.all((np.asarray(a_st, dtype=np.float64) == np.asarray(a_clip, dtype=np.float64)).reshape(B, -1), axis=1)
        add(~clipped & ~eq_raw, j, "C04/row/action-not-chosen", lambda i: f"step {j}: stored action {np.asarray(a_st[i]).tolist()}, policy chose {np.asarray(a_raw[i]).tolist()}")
        add(clipped & ~eq_raw & ~eq_clip, j, "C04/row/action-not-chosen", lambda i: f"step {j}: stored action {np.asarray(a_st[i]).tolist()}, policy chose {np.asarray(a_raw[i]).tolist()}")
        # mask offered by the environment = mask recorded = mask applied
        if tb.has_mask:
            m_env = tb.M[b, s]
            stats["masked_rows"] += int((~m_env).any(axis=1).sum())
            if masks is None:
                add(np.ones(B, bool), j, "C04/row/mask-dropped", lambda i: f"step {j}: environment offered mask {m_env[i].tolist()}, none recorded")
                code = np.zeros(B)
            else:
                add(np.any(np.asarray(masks[:, j]) != m_env, axis=1), j, "C04/row/mask-recorded", lambda i: f"step {j}: recorded mask {np.asarray(masks[i, j]).tolist()}, environment offered {m_env[i].tolist()}")
                code = mask_code_np(m_env)
        else:
            code = np.zeros(B)
            if masks is not None:
                add(np.ones(B, bool), j, "C04/row/mask-invented", lambda i: f"step {j}: a mask was recorded but the environment offers none")
        # the policy's own value / log-prob for the stored observation and *stored* action
        if trace_actions:
            lp_stored_action = np.asarray(lp_eval[:, j], dtype=np.float64)
            lp_nomask = np.asarray(lp_eval_nomask[:, j], dtype=np.float64) if lp_eval_nomask is not None else lp_stored_action
            if tb.has_mask and tb.act_kind == "discrete":
                allowed = tb.M[b, s, np.asarray(a_st).astype(int) % tb.A]
                add(~allowed, j, "C04/row/masked-action-chosen", lambda i: f"step {j}: the policy chose action {np.asarray(a_st[i]).tolist()} although the environment's mask is {tb.M[i, s[i]].tolist()}")
        else:
            lp_stored_action = tb.LP0[b, s] - penalty_np(a_st, tb.act_kind) - 8.0 * code
            lp_nomask = tb.LP0[b, s] - penalty_np(a_st, tb.act_kind)
        bad_lp = ~close(logps[:, j], lp_stored_action)
        if tb.has_mask and (not trace_actions or lp_eval_nomask is not None):
            add(bad_lp & close(logps[:, j], lp_nomask) & ~close(lp_nomask, lp_stored_action), j, "C04/row/mask-not-applied", lambda i: f"step {j}: stored log-prob {logps[i, j]} is the unmasked one; environment mask {tb.M[i, s[i]].tolist()}")
            bad_lp = bad_lp & ~close(logps[:, j], lp_nomask)
        add(bad_lp & clipped, j, "C04/reeval/logprob/out-of-bounds-action", lambda i: f"step {j}: stored action {np.asarray(a_st[i]).tolist()} (policy chose {np.asarray(a_raw[i]).tolist()}) has log-prob {lp_stored_action[i]} under the policy, stored {logps[i, j]}: first PPO ratio = {np.exp(lp_stored_action[i] - logps[i, j]):.4f} != 1")
        add(bad_lp & ~clipped, j, "C04/reeval/logprob", lambda i: f"step {j}: stored log-prob {logps[i, j]} != policy's log-prob {lp_stored_action[i]} of stored action {np.asarray(a_st[i]).tolist()} in state {s[i]}")
        v = tb.V[b, s] + tb.VS * c  # the policy state it acted with
        exp_val[:, j] = v
        add(~close(vals[:, j], v), j, "C04/reeval/value", lambda i: f"step {j}: stored value {vals[i, j]} != V(obs)={v[i]}")
        # environment driven with the clipped action
        ai = action_index_np(a_clip, tb.act_kind)
        s2 = tb.successor(s, ai)
        r = tb.reward(s, a_clip, s2)
        r_raw = tb.R[s, ai, s2] + action_term_np(a_raw, tb.act_kind)
        term = tb.term[b, s2]
        t2 = t + 1
        trunc = ((tb.limit > 0) & (t2 >= tb.limit)) | ((tb.tl > 0) & (t2 >= tb.tl))
        done = term | trunc
        exp_done[:, j] = done
        stats["trunc_only"] += int((trunc & ~term).sum())
        stats["term_only"] += int((term & ~trunc).sum())
        stats["both"] += int((term & trunc).sum())
        boot = gamma * (tb.V[b, s2] + tb.VS * (c + 1))  # V of the successor observation under the policy state AFTER this step
        boot_pre = gamma * (tb.V[b, s2] + tb.VS * c)
        want = r + np.where(trunc & ~term, boot, 0.0)
        exp_rew[:, j] = want
        got = np.asarray(rews[:, j], dtype=np.float64)
        bad = ~close(got, want)
        c_raw = bad & clipped & close(got, r_raw + np.where(trunc & ~term, boot, 0.0))
        add(c_raw, j, "C04/reward/computed-with-unclipped-action", lambda i: f"step {j}: reward {got[i]} is that of the raw action {np.asarray(a_raw[i]).tolist()}, expected {want[i]} for the clipped action")
        c_both = bad & term & trunc & close(got, r + boot)
        add(c_both, j, "C04/reward/bootstrap-on-terminated-and-truncated", lambda i: f"step {j}: step both terminated and truncated; reward {got[i]} = {r[i]} + gamma*V(successor), a true termination must not bootstrap (expected {want[i]})")
        c_term = bad & term & ~trunc & close(got, r + boot)
        add(c_term, j, "C04/reward/bootstrap-on-termination", lambda i: f"step {j}: terminated step bootstrapped: reward {got[i]}, expected {want[i]}")
        c_pre = bad & trunc & ~term & close(got, r + boot_pre) & ~close(boot, boot_pre)
        add(c_pre, j, "C04/reward/bootstrap-value-with-pre-step-policy-state", lambda i: f"step {j}: truncated-only step: reward {got[i]} = {r[i]} + gamma*V(successor | policy state BEFORE the step); the policy that continues from here holds the state after it (expected {want[i]})")
        bad = bad & ~c_pre
        c_nob = bad & trunc & ~term & close(got, r)
        add(c_nob, j, "C04/reward/no-bootstrap-on-truncation", lambda i: f"step {j}: truncated-only step not bootstrapped: reward {got[i]}, expected {r[i]} + {boot[i]}")
        add(bad & ~c_raw & ~c_both & ~c_term & ~c_nob, j, "C04/reward/mismatch", lambda i: f"step {j}: stored reward {got[i]}, expected {want[i]} (state {s[i]}, executed action {np.asarray(a_clip[i]).tolist()}, successor {s2[i]}, term={term[i]}, trunc={trunc[i]})")
        add(np.asarray(dones[:, j]).astype(bool) != done, j, "C04/row/done", lambda i: f"step {j}: stored done={bool(dones[i, j])}, terminal={term[i]} truncated={trunc[i]}")
        # next reference state
        was_reset = done
        s = np.where(done, s, s2)  # placeholder when done: replaced from the trace
        s_succ = s2
        t = np.where(done, 0, t2)
        c = np.where(done, 0, c + 1)
    # carried step state
    fs = np.asarray(final_s).astype(int)
    add(was_reset & ~tb.init[b, fs], Tn, "C04/after-done/env-not-restarted", lambda i: f"carried env state {fs[i]} after a final done step is not an initial state")
    add(~was_reset & (fs != s_succ), Tn, "C04/carry/env-state", lambda i: f"carried env state {fs[i]}, reference successor {s_succ[i]}")
    s_fin = np.where(was_reset, fs, s_succ)
    add(np.asarray(final_t) != t, Tn, "C04/carry/env-clock", lambda i: f"carried env clock {final_t[i]}, reference {t[i]}")
    if final_tl is not None:
        add(np.asarray(final_tl) != t, Tn, "C04/carry/timelimit-count", lambda i: f"carried TimeLimit count {final_tl[i]}, reference {t[i]}")
    if not trace_actions:
        add(np.asarray(final_c) != c, Tn, "C04/carry/policy-state", lambda i: f"carried policy counter {final_c[i]}, reference {c[i]} (policy must restart after a done step)")
    # GAE of the *recorded* rows (their own fidelity is judged above) with the reference's bootstrap
    last_v = tb.V[b, s_fin] + tb.VS * c  # carried policy state (restarted after a final done step)
    e_adv, e_ret = gae_np(rews, vals, dones, last_v, gamma, lam)
    for j in range(Tn):
        add(~close(adv[:, j], e_adv[:, j], 2e-5), j, "C04/gae/advantage", lambda i: f"step {j}: advantage {adv[i, j]}, reference GAE {e_adv[i, j]} (bootstrap V={last_v[i]})")
        add(~close(ret[:, j], e_ret[:, j], 2e-5), j, "C04/gae/return", lambda i: f"step {j}: return {ret[i, j]}, reference {e_ret[i, j]}")
    return fails, stats


def obs_index_np(obs, obs_kind):
    o = np.asarray(obs)
    if obs_kind == "discrete":
        return o.astype(int)
    return o.argmax(-1).astype(int)


# ---------------------------------------------------------------------------------------
# off-policy collection reference
# ---------------------------------------------------------------------------------------
def check_offpolicy(tb: Tables, script, snaps, final_s, final_t, final_tl, final_c, C, LS, num_steps, trace_actions=False):
    """snaps: list (phase 0 = after reset/warm-up, phase k = after k-th iteration) of dicts with
    per-stream arrays obs [B,C(,S)], nobs, actions [B,C,...], rewards, dones, timeouts, states,
    next_states [B,C], position [B].  Returns (fails, stats); fails = (stream, row, sig, msg)."""
    B = tb.B
    b = np.arange(B)
    n_iter = len(snaps) - 1
    total = LS + n_iter * num_steps
    fails = []
    stats = dict(trunc_only=0, term_only=0, both=0, clipped=0, after_reset=0, wrapped=0, done_rows=0)

    def add(mask, row, sig, fmt):
        for i in np.nonzero(mask)[0][:3]:
            fails.append((int(i), row, sig, fmt(int(i))))

    def phase_of(i):
        return 0 if i < LS else 1 + (i - LS) // num_steps

    def phase_end(p):  # number of rows inserted up to and including phase p
        return LS + p * num_steps

    # 1. observations visible in the snapshot taken right after the phase that inserted them
    obs_seen = -np.ones((B, total), dtype=int)
    for i in range(total):
        p = phase_of(i)
        if i + C >= phase_end(p):  # not yet overwritten when snapshot p was taken
            obs_seen[:, i] = obs_index_np(snaps[p]["obs"][:, i % C], tb.obs_kind)
    n_init = tb.init.sum(1)
    only_init = tb.init.argmax(1)
    acts_seen = [None] * total
    if trace_actions:  # real, key-driven behaviour policy: the chosen action is read back from the row that stores it
        for i in range(total):
            p = phase_of(i)
            if i + C < phase_end(p):
                raise RuntimeError("harness: trace validation needs every row visible in the snapshot of its phase")
            acts_seen[i] = np.asarray(snaps[p]["actions"][:, i % C])

    # 2. reference stream
    L = script.shape[1] if script is not None else 1
    s = np.zeros(B, dtype=int)
    t = np.zeros(B, dtype=int)
    c = np.zeros(B, dtype=int)
    was_reset = np.ones(B, dtype=bool)  # the very first state is an environment answer too
    exp = dict(
        s=np.zeros((B, total), int), s2=np.zeros((B, total), int), a_raw=[None] * total, a_clip=[None] * total,
        r=np.zeros((B, total)), r_raw=np.zeros((B, total)), done=np.zeros((B, total), bool), timeout=np.zeros((B, total), bool),
        term=np.zeros((B, total), bool), trunc=np.zeros((B, total), bool), c=np.zeros((B, total), int),
    )
    s_succ = s
    for i in range(total):
        seen = obs_seen[:, i]
        unread = was_reset & (seen < 0)
        if np.any(unread & (n_init != 1)):
            raise RuntimeError("harness: initial state after a reset is not recoverable (overwritten row with |init|>1)")
        s = np.where(was_reset, np.where(seen >= 0, seen, only_init), s)
        add(was_reset & ~tb.init[b, s], i, "C05/after-done/env-not-restarted" if i else "C05/reset/initial-state-not-in-init-set",
            lambda k: f"row {i}: observation acted on shows state {s[k]}, which is not an initial state {tb.init[k].tolist()} although the previous step ended the episode (or this is the first step)")
        stats["after_reset"] += int(was_reset.sum()) if i else 0
        a_raw = acts_seen[i] if trace_actions else script[b, c % L]
        a_clip = clip_np(a_raw, tb.act_kind)
        clipped = np.any((np.asarray(a_raw, dtype=np.float64) != np.asarray(a_clip, dtype=np.float64)).reshape(B, -1), axis=1)
        stats["clipped"] += int(clipped.sum())
        ai = action_index_np(a_clip, tb.act_kind)
        s2 = tb.successor(s, ai)
        exp["s"][:, i], exp["s2"][:, i], exp["c"][:, i] = s, s2, c
        exp["a_raw"][i], exp["a_clip"][i] = a_raw, a_clip
        exp["r"][:, i] = tb.reward(s, a_clip, s2)
        exp["r_raw"][:, i] = tb.R[s, ai, s2] + action_term_np(a_raw, tb.act_kind)
        term = tb.term[b, s2]
        t2 = t + 1
        trunc = ((tb.limit > 0) & (t2 >= tb.limit)) | ((tb.tl > 0) & (t2 >= tb.tl))
        done = term | trunc
        exp["term"][:, i], exp["trunc"][:, i], exp["done"][:, i], exp["timeout"][:, i] = term, trunc, done, trunc & ~term
        stats["trunc_only"] += int((trunc & ~term).sum())
        stats["term_only"] += int((term & ~trunc).sum())
        stats["both"] += int((term & trunc).sum())
        stats["done_rows"] += int(done.sum())
        was_reset = done
        s_succ = s2
        s = s2
        t = np.where(done, 0, t2)
        c = np.where(done, 0, c + 1)
    # carried state
    fs = np.asarray(final_s).astype(int)
    add(was_reset & ~tb.init[b, fs], total, "C05/after-done/env-not-restarted", lambda k: f"carried env state {fs[k]} after a final done step is not an initial state")
    add(~was_reset & (fs != s_succ), total, "C05/carry/env-state", lambda k: f"carried env state {fs[k]}, reference {s_succ[k]}")
    add(np.asarray(final_t) != t, total, "C05/carry/env-clock", lambda k: f"carried env clock {final_t[k]}, reference {t[k]}")
    if final_tl is not None:
        add(np.asarray(final_tl) != t, total, "C05/carry/timelimit-count", lambda k: f"carried TimeLimit count {final_tl[k]}, reference {t[k]}")
    if not trace_actions:
        add(np.asarray(final_c) != c, total, "C05/carry/policy-state", lambda k: f"carried policy counter {final_c[k]}, reference {c[k]}")

    # 3. every slot of every snapshot
    for p, snap in enumerate(snaps):
        n_ins = phase_end(p)
        pos = np.asarray(snap["position"])
        add(pos != n_ins, -1, "C05/budget/position",
            lambda k: f"after {'warm-up' if p == 0 else f'iteration {p}'}: this environment's buffer position is {pos[k]}, expected {n_ins} (= learning_starts {LS} + {p} x num_steps {num_steps})")
        if n_ins > C:
            stats["wrapped"] += B
        for slot in range(C):
            if slot >= n_ins:
                continue
            i = slot + ((n_ins - 1 - slot) // C) * C  # most recent row living in this slot
            where = f"snapshot {p} slot {slot} (row {i})"
            es = exp["s"][:, i]
            exp_obs = tb.obs_of(es)
            got = np.asarray(snap["obs"][:, slot], dtype=np.float64)
            add(~np.all((got == exp_obs).reshape(B, -1), axis=1), i, "C05/row/observation", lambda k: f"{where}: stored observation {np.asarray(snap['obs'][k, slot]).tolist()}, the policy acted in state {es[k]}")
            exp_nobs = tb.obs_of(exp["s2"][:, i])
            gotn = np.asarray(snap["nobs"][:, slot], dtype=np.float64)
            badn = ~np.all((gotn == exp_nobs).reshape(B, -1), axis=1)
            dn = exp["done"][:, i]
            add(badn & dn, i, "C05/row/next-observation-post-reset", lambda k: f"{where}: episode ended here; stored successor observation {np.asarray(snap['nobs'][k, slot]).tolist()} is not that of the pre-reset successor state {exp['s2'][k, i]}")
            add(badn & ~dn, i, "C05/row/next-observation", lambda k: f"{where}: stored successor observation {np.asarray(snap['nobs'][k, slot]).tolist()}, successor state {exp['s2'][k, i]}")
            a_st = np.asarray(snap["actions"][:, slot], dtype=np.float64)
            a_raw = np.asarray(exp["a_raw"][i], dtype=np.float64)
            a_clip = np.asarray(exp["a_clip"][i], dtype=np.float64)
            eq_raw = np.all((a_st == a_raw).reshape(B, -1), axis=1)
            eq_clip = np.all((a_st == a_clip).reshape(B, -1), axis=1)
            add(~eq_raw & eq_clip, i, "C05/row/action-clipped-copy-stored", lambda k: f"{where}: stored action {a_st[k].tolist()} is the clipped copy, the policy chose {a_raw[k].tolist()}")
            add(~eq_raw & ~eq_clip, i, "C05/row/action", lambda k: f"{where}: stored action {a_st[k].tolist()}, the policy chose {a_raw[k].tolist()}")
            r = np.asarray(snap["rewards"][:, slot], dtype=np.float64)
            bad = ~close(r, exp["r"][:, i])
            israw = bad & close(r, exp["r_raw"][:, i])
            add(israw, i, "C05/reward/computed-with-unclipped-action", lambda k: f"{where}: reward {r[k]} is that of the raw action {a_raw[k].tolist()}; the executed (clipped) action {a_clip[k].tolist()} earns {exp['r'][k, i]}")
            add(bad & ~israw, i, "C05/reward/mismatch", lambda k: f"{where}: reward {r[k]}, expected {exp['r'][k, i]} (state {es[k]}, successor {exp['s2'][k, i]})")
            d = np.asarray(snap["dones"][:, slot]).astype(bool)
            add(d != dn, i, "C05/row/done", lambda k: f"{where}: done={d[k]}, terminal={exp['term'][k, i]} truncated={exp['trunc'][k, i]}")
            to = np.asarray(snap["timeouts"][:, slot]).astype(bool)
            add(to != exp["timeout"][:, i], i, "C05/row/timeout", lambda k: f"{where}: timeout={to[k]}, terminal={exp['term'][k, i]} truncated={exp['trunc'][k, i]} (timeout must be truncated and not terminal)")
            if trace_actions:
                continue
            ps = np.asarray(snap["states"][:, slot])
            add(ps != exp["c"][:, i], i, "C05/row/policy-state", lambda k: f"{where}: stored policy state {ps[k]}, the policy was in state {exp['c'][k, i]}")
            nps = np.asarray(snap["next_states"][:, slot])
            add(nps != exp["c"][:, i] + 1, i, "C05/row/next-policy-state", lambda k: f"{where}: stored next policy state {nps[k]}, the policy moved to {exp['c'][k, i] + 1}")
    return fails, stats
