"""Gymnasium and Gymnax twins of the tabular MDPs (same tables, same reward table), used to check
the adapters.  The gymnasium twin logs every call it receives."""

from __future__ import annotations

import gymnasium as gym
import numpy as np

from mc.mdp import reward_table


class TabGymEnv(gym.Env):
    """Gymnasium twin.  reset(seed) picks the (seed mod n)-th initial state, so a second instance
    reset with the same seed reproduces the episode.  `log` records ('reset', seed) / ('step', a)."""

    def __init__(self, table: dict, rng_init: bool = False):
        self.rng_init = rng_init  # draw the initial state from gymnasium's own np_random (seeded by reset(seed=...))
        self.T = np.asarray(table["T"])
        self.S, self.A = self.T.shape
        self.term = list(table["term"])
        self.init_states = [i for i in range(self.S) if table["init"][i]]
        self.limit = table.get("limit", 0)
        self.R = reward_table(self.S, self.A)
        self.obs_kind = table.get("obs_kind", "discrete")
        self.action_space = gym.spaces.Discrete(self.A)
        if self.obs_kind == "discrete":
            self.observation_space = gym.spaces.Discrete(self.S)
        else:
            self.observation_space = gym.spaces.Box(0.0, 1.0, shape=(self.S,), dtype=np.float32)
        self.log: list = []
        self.s, self.t = None, 0

    def _obs(self):
        if self.obs_kind == "discrete":
            return np.int64(self.s)
        return (np.arange(self.S) == self.s).astype(np.float32)

    def reset(self, *, seed=None, options=None):
        self.log.append(("reset", None if seed is None else int(seed)))
        if self.rng_init:
            super().reset(seed=seed)  # gymnasium semantics: seed=None continues the stream of the previous seeding
            self.s = self.init_states[int(self.np_random.integers(len(self.init_states)))]
        else:
            k = 0 if seed is None else int(seed)
            self.s = self.init_states[k % len(self.init_states)]
        self.t = 0
        return self._obs(), {}

    def step(self, action):
        a = int(np.asarray(action))
        self.log.append(("step", a))
        s2 = int(self.T[self.s, a])
        r = float(self.R[self.s, a, s2])
        self.t += 1
        self.s = s2
        term = bool(self.term[s2])
        trunc = bool(self.limit and self.t >= self.limit)
        return self._obs(), r, term, trunc, {}


def make_gymnax_twin(table: dict):
    """Gymnax twin (functional): state = (s, time)."""
    import jax
    from flax import struct
    from gymnax.environments import environment as genv
    from gymnax.environments import spaces as gspaces
    from jax import numpy as jnp

    T = jnp.asarray(np.asarray(table["T"]))
    S, A = np.asarray(table["T"]).shape
    term = jnp.asarray(table["term"])
    init = jnp.asarray(table["init"], dtype=float)
    R = jnp.asarray(reward_table(S, A))
    limit = table.get("limit", 0)

    @struct.dataclass
    class State(genv.EnvState):
        s: jax.Array
        time: jax.Array

    @struct.dataclass
    class Params(genv.EnvParams):
        # the episode time limit and the reward offset live in the PARAMETERS (defaults differ from every explored case), so an
        # adapter that resets or steps with `default_params` instead of the parameters it was given is observable
        max_steps_in_episode: int = 1000
        limit: int = 7
        reward_offset: float = 100.0

    class TabGymnax(genv.Environment):
        @property
        def default_params(self):
            return Params()

        def step_env(self, key, state, action, params):
            a = jnp.asarray(action, dtype=int)
            s2 = T[state.s, a]
            r = R[state.s, a, s2] + params.reward_offset
            t2 = state.time + 1
            done = term[s2] | ((params.limit > 0) & (t2 >= params.limit))
            ns = State(s=s2, time=t2)
            return s2, ns, r, done, {}

        def reset_env(self, key, params):
            s = jax.random.choice(key, S, p=init / init.sum())
            return s, State(s=s, time=jnp.asarray(0))

        def get_obs(self, state, params=None, key=None):
            return state.s

        def is_terminal(self, state, params):
            return term[state.s]

        @property
        def name(self):
            return "TabGymnax"

        @property
        def num_actions(self):
            return A

        def action_space(self, params=None):
            return gspaces.Discrete(A)

        def observation_space(self, params):
            return gspaces.Discrete(S)

    return TabGymnax(), Params(limit=limit, reward_offset=0.0)
