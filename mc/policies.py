"""Instrumented policies implementing lerax's own abstract policy interfaces.

ScriptedAC / ScriptedQ / ScriptedSAC: the policy state is a counter c and the action is
script[c] - so "all policies x all keys" becomes "all scripts", independent of any PRNG key.
Values and log-probabilities are tables / closed forms of exactly representable numbers, so a
float64 reference predicts every number a collector or a loss should produce.
"""

from __future__ import annotations

from typing import ClassVar

import equinox as eqx
import jax
import numpy as np
from jax import numpy as jnp

from lerax.policy import (
    AbstractActorCriticPolicy,
    AbstractPolicyState,
    AbstractQPolicy,
    AbstractSACPolicy,
)
from lerax.space import AbstractSpace


class CounterState(AbstractPolicyState):
    c: jax.Array


def _obs_index(obs, obs_kind: str):
    if obs_kind == "discrete":
        return jnp.asarray(obs, dtype=int)
    if obs_kind == "onehot":
        return jnp.argmax(obs).astype(int)
    return jnp.asarray(obs["idx"], dtype=int)


def action_penalty(action, act_kind: str):
    """q(a): exactly representable, injective on the action alphabets used by the checks."""
    a = jnp.asarray(action, dtype=float)
    if act_kind == "discrete":
        return a * 0.5
    if act_kind in ("box", "boxhalf"):
        return 0.25 * (a - 0.5) ** 2
    if act_kind == "boxvec":
        return 0.25 * (a[0] - 0.5) ** 2 + 0.0625 * (a[1] + 0.5) ** 2
    # multidiscrete / multibinary: two integer components
    return a[0] * 0.5 + a[1] * 0.125


def action_penalty_np(action, act_kind: str) -> float:
    a = np.asarray(action, dtype=np.float64)
    if act_kind == "discrete":
        return float(a * 0.5)
    if act_kind in ("box", "boxhalf"):
        return float(0.25 * (a - 0.5) ** 2)
    if act_kind == "boxvec":
        return float(0.25 * (a[0] - 0.5) ** 2 + 0.0625 * (a[1] + 0.5) ** 2)
    return float(a[0] * 0.5 + a[1] * 0.125)


def mask_code(mask):
    """Code of the mask the policy was handed: sum mask[i]*2^i (0 for None)."""
    if mask is None:
        return jnp.asarray(0.0)
    m = jnp.asarray(mask).reshape(-1).astype(float)
    return jnp.sum(m * (2.0 ** jnp.arange(m.shape[0])))


def mask_code_np(mask) -> float:
    if mask is None:
        return 0.0
    m = np.asarray(mask).reshape(-1).astype(np.float64)
    return float(np.sum(m * (2.0 ** np.arange(m.shape[0]))))


class ScriptedAC(AbstractActorCriticPolicy):
    name: ClassVar[str] = "ScriptedAC"

    action_space: AbstractSpace
    observation_space: AbstractSpace
    script: jax.Array  # [L, *action_shape]
    V: jax.Array  # [S]
    LP0: jax.Array  # [S]
    VS: jax.Array  # scalar: the value also depends on the policy's own state, V(obs, c) = V[obs] + VS * c
    act_kind: str = eqx.field(static=True)
    obs_kind: str = eqx.field(static=True)

    def __init__(self, env, script, V=None, LP0=None, VS=0.0):
        self.action_space = env.action_space
        self.observation_space = env.observation_space
        base = env.unwrapped
        self.act_kind, self.obs_kind = base.act_kind, base.obs_kind
        S = base.S
        dtype = float if self.act_kind in ("box", "boxvec", "boxhalf") else int
        self.script = jnp.asarray(script, dtype=dtype)
        self.V = jnp.asarray(default_V(S) if V is None else V, dtype=float)
        self.LP0 = jnp.asarray(default_LP0(S) if LP0 is None else LP0, dtype=float)
        self.VS = jnp.asarray(VS, dtype=float)

    def _value(self, state, i):
        return self.V[i] + self.VS * state.c.astype(float)

    def log_prob(self, obs, action, mask):
        i = _obs_index(obs, self.obs_kind)
        return self.LP0[i] - action_penalty(action, self.act_kind) - 8.0 * mask_code(mask)

    def reset(self, *, key):
        return CounterState(jnp.asarray(0, dtype=int))

    def _act(self, state):
        L = self.script.shape[0]
        return self.script[state.c % L]

    def __call__(self, state, observation, *, key=None, action_mask=None):
        return CounterState(state.c + 1), self._act(state)

    def action_and_value(self, state, observation, *, key, action_mask=None):
        a = self._act(state)
        i = _obs_index(observation, self.obs_kind)
        return CounterState(state.c + 1), a, self._value(state, i), self.log_prob(observation, a, action_mask)

    def evaluate_action(self, state, observation, action, *, action_mask=None):
        i = _obs_index(observation, self.obs_kind)
        ent = 0.125 * (i + 1).astype(float)
        return CounterState(state.c + 1), self._value(state, i), self.log_prob(observation, action, action_mask), ent

    def value(self, state, observation):
        i = _obs_index(observation, self.obs_kind)
        return state, self._value(state, i)


def default_V(S: int) -> np.ndarray:
    return np.asarray([100.0 * (i + 1) * (1 if i % 2 == 0 else -1) for i in range(S)])


def default_LP0(S: int) -> np.ndarray:
    return np.asarray([-(i + 1) * 0.25 for i in range(S)])


class ScriptedQ(AbstractQPolicy):
    """Greedy (epsilon = 0) Q policy whose greedy action is script[c]."""

    name: ClassVar[str] = "ScriptedQ"

    action_space: AbstractSpace
    observation_space: AbstractSpace
    epsilon: float = eqx.field(static=True)
    script: jax.Array  # [L]
    Q: jax.Array  # [S, A]
    obs_kind: str = eqx.field(static=True)

    def __init__(self, env, script, Q=None, epsilon: float = 0.0):
        self.action_space = env.action_space
        self.observation_space = env.observation_space
        base = env.unwrapped
        self.obs_kind = base.obs_kind
        self.epsilon = epsilon
        self.script = jnp.asarray(script, dtype=int)
        self.Q = jnp.asarray(np.zeros((base.S, base.A)) if Q is None else Q, dtype=float)

    def reset(self, *, key):
        return CounterState(jnp.asarray(0, dtype=int))

    def q_values(self, state, observation):
        i = _obs_index(observation, self.obs_kind)
        A = self.Q.shape[1]
        a = self.script[state.c % self.script.shape[0]]
        bonus = 1000.0 * (jnp.arange(A) == a).astype(float)
        return CounterState(state.c + 1), self.Q[i] + bonus


class ScriptedSAC(AbstractSACPolicy):
    """script holds integer codes (action * 64) so that no float leaf of the policy is trainable:
    SAC's actor update cannot move the scripted actions."""

    name: ClassVar[str] = "ScriptedSAC"

    action_space: AbstractSpace
    observation_space: AbstractSpace
    script: jax.Array
    act_kind: str = eqx.field(static=True)
    obs_kind: str = eqx.field(static=True)

    def __init__(self, env, script):
        self.action_space = env.action_space
        self.observation_space = env.observation_space
        base = env.unwrapped
        self.act_kind, self.obs_kind = base.act_kind, base.obs_kind
        self.script = jnp.asarray(np.rint(np.asarray(script, dtype=np.float64) * 64.0), dtype=int)

    def reset(self, *, key):
        return CounterState(jnp.asarray(0, dtype=int))

    def _act(self, state):
        c = 0 if state is None else state.c
        return self.script[c % self.script.shape[0]].astype(float) / 64.0

    def _next(self, state):
        return None if state is None else CounterState(state.c + 1)

    def __call__(self, state, observation, *, key=None, action_mask=None):
        return self._next(state), self._act(state)

    def action_distribution(self, state, observation):
        raise NotImplementedError("ScriptedSAC has no distribution")

    def action_and_log_prob(self, state, observation, *, key):
        a = self._act(state)
        i = _obs_index(observation, self.obs_kind)
        return self._next(state), a, -0.25 * (i + 1) - action_penalty(a, self.act_kind)
