"""C06 - replay ring buffer: explicit-state exploration of the real add/sample.

State  = the ReplayBuffer pytree itself (canonical form: raw bytes of every array leaf).
Events = "insert the next tagged transition into per-environment buffer e".
Oracle = collections.deque(maxlen=C) per environment; every field of insertion i carries tag i.
Every state reached is also sampled with every batch size <= stored rows and every key of K.
"""

from __future__ import annotations

import collections

import equinox as eqx
import jax
import numpy as np
from jax import lax
from jax import numpy as jnp
from jax import random as jr

from lerax.buffer import ReplayBuffer
from lerax.policy import AbstractPolicyState
from lerax.space import Box, Discrete, Tuple

from mc.core import Ctx, key_ints

LEVEL = "model_checking"


class TagState(AbstractPolicyState):
    c: jax.Array


OBS_SPACE = Tuple((Box(-1e4, 1e4, shape=(2,)), Discrete(100000)))
ACT_SPACE = Discrete(100000)


def tag_of(env: int, i: int) -> int:
    """Tag of the i-th (0-based) insertion into environment env; 0 is reserved for 'unwritten'."""
    return env * 1000 + i + 1


def fields_for(tag):
    """Every field of a transition derived injectively from its tag (jax or numpy ints)."""
    t = tag
    f = jnp.asarray(t, dtype=float)
    obs = (jnp.stack([f, f + 0.5]), jnp.asarray(t, dtype=int))
    nobs = (jnp.stack([-f, -f - 0.5]), jnp.asarray(t + 50000, dtype=int))
    return dict(
        observation=obs,
        next_observation=nobs,
        action=jnp.asarray(t, dtype=int),
        reward=f * 0.25,
        done=(t % 2) == 1,
        timeout=((t // 2) % 2) == 1,
        state=TagState(jnp.asarray(t, dtype=int)),
        next_state=TagState(jnp.asarray(t + 70000, dtype=int)),
    )


def decode_rows(buf) -> dict[str, np.ndarray]:
    """Per-row tag as read from each field separately (flattened (env*slot) or (batch) rows).
    A field still holding the constructor's filler (raw zero) decodes to tag 0 = 'unwritten'."""

    def dec(raw, f):
        raw = np.asarray(raw)
        return np.where(raw == 0, 0, f(raw))

    o0 = np.asarray(buf.observations[0])
    n0 = np.asarray(buf.next_observations[0])
    rows = {
        "obs0a": dec(o0[..., 0], lambda r: r),
        "obs0b": dec(o0[..., 1], lambda r: r - 0.5),
        "obs1": dec(buf.observations[1], lambda r: r),
        "nobs0a": dec(n0[..., 0], lambda r: -r),
        "nobs0b": dec(n0[..., 1], lambda r: -r - 0.5),
        "nobs1": dec(buf.next_observations[1], lambda r: r - 50000),
        "action": dec(buf.actions, lambda r: r),
        "reward": dec(buf.rewards, lambda r: r * 4.0),
        "state": dec(buf.states.c, lambda r: r),
        "next_state": dec(buf.next_states.c, lambda r: r - 70000),
    }
    return rows


_JIT = {}


def make_buffer(C: int, E: int):
    st = TagState(jnp.asarray(0, dtype=int))
    if E == 0:
        return ReplayBuffer(C, OBS_SPACE, ACT_SPACE, st)
    # same construction the off-policy reset uses: vmap of the constructor over environments
    return jax.vmap(lambda _: ReplayBuffer(C, OBS_SPACE, ACT_SPACE, st))(jnp.arange(E))


def add_fn(C: int, E: int):
    k = ("add", C, E)
    if k not in _JIT:
        if E == 0:

            @eqx.filter_jit
            def f(buf, tag, active):
                fl = fields_for(tag)
                return buf.add(
                    fl["observation"], fl["next_observation"], fl["action"], fl["reward"],
                    fl["done"], fl["timeout"], fl["state"], fl["next_state"],
                )
        else:

            @eqx.filter_jit
            def f(buf, tags, active):
                def one(b, tag, act):
                    fl = fields_for(tag)
                    nb = b.add(
                        fl["observation"], fl["next_observation"], fl["action"], fl["reward"],
                        fl["done"], fl["timeout"], fl["state"], fl["next_state"],
                    )
                    arr_n, static = eqx.partition(nb, eqx.is_array)
                    arr_o, _ = eqx.partition(b, eqx.is_array)
                    sel = lax.cond(act, lambda: arr_n, lambda: arr_o)
                    return eqx.combine(sel, static)

                return jax.vmap(one)(buf, tags, active)

        _JIT[k] = f
    return _JIT[k]


def sample_fn(C: int, E: int, b: int):
    k = ("sample", C, E, b)
    if k not in _JIT:

        @eqx.filter_jit
        def f(buf, keys):
            return jax.vmap(lambda kk: buf.sample(b, key=kk))(keys)

        _JIT[k] = f
    return _JIT[k]


def canon(buf) -> bytes:
    return b"|".join(np.asarray(x).tobytes() for x in jax.tree.leaves(buf))


def build(C: int, E: int, path: list[int], check_prefixes: bool = True):
    """Replay an insertion path on a fresh real buffer; returns (buffer, fills, failures)."""
    buf = make_buffer(C, E)
    nE = max(E, 1)
    fills = [0] * nE
    fails = []
    add = add_fn(C, E)
    if check_prefixes:
        fails += contents_failures(buf, C, E, fills, "after construction")
    for step, e in enumerate(path):
        if E == 0:
            buf = add(buf, jnp.asarray(tag_of(0, fills[0])), True)
        else:
            tags = jnp.asarray([tag_of(j, fills[j]) for j in range(E)])
            active = jnp.asarray([j == e for j in range(E)])
            buf = add(buf, tags, active)
        fills[e] += 1
        if check_prefixes or step == len(path) - 1:
            fails += contents_failures(buf, C, E, fills, f"after insertion #{step + 1} (env {e})")
    return buf, fills, fails


def expected_slots(C: int, n: int, env: int) -> dict[int, int]:
    """slot -> tag under ring semantics; the *set* of tags is what the property fixes,
    the slot is only used to report. Reference: deque(maxlen=C)."""
    dq = collections.deque(maxlen=C)
    for i in range(n):
        dq.append(tag_of(env, i))
    return dq


def contents_failures(buf, C, E, fills, when) -> list[tuple[str, str]]:
    fails = []
    rows = decode_rows(buf)
    nE = max(E, 1)
    dones = np.asarray(buf.dones).reshape(nE, C)
    timeouts = np.asarray(buf.timeouts).reshape(nE, C)
    for e in range(nE):
        want = sorted(expected_slots(C, fills[e], e))
        per_field = {k: np.asarray(v).reshape(nE, C)[e] for k, v in rows.items()}
        ref = per_field["reward"]
        # alignment: every field of a slot carries the same tag
        for k, v in per_field.items():
            if not np.array_equal(v, ref):
                fails.append((f"C06/contents/misaligned/{k}", f"{when}: C={C} E={E} fills={fills} env {e}: field {k} tags {v.tolist()} != reward tags {ref.tolist()}"))
        for s in range(C):
            t = int(round(float(ref[s])))
            if t != 0:
                if bool(dones[e, s]) != (t % 2 == 1):
                    fails.append(("C06/contents/misaligned/done", f"{when}: env {e} slot {s} tag {t} done={dones[e, s]}"))
                if bool(timeouts[e, s]) != ((t // 2) % 2 == 1):
                    fails.append(("C06/contents/misaligned/timeout", f"{when}: env {e} slot {s} tag {t} timeout={timeouts[e, s]}"))
        got = sorted(int(round(float(x))) for x in ref if round(float(x)) != 0)
        if got != want:
            fails.append(("C06/contents/not-most-recent", f"{when}: C={C} E={E} fills={fills} env {e}: stored tags {got}, reference deque {want}"))
    return fails


def sample_failures(buf, C, E, fills, keys: list[int], batch_sizes=None) -> list[tuple[str, str]]:
    fails = []
    nE = max(E, 1)
    stored = {e: set(expected_slots(C, fills[e], e)) for e in range(nE)}
    all_tags = set().union(*stored.values())
    total = len(all_tags)
    kk = jax.vmap(jr.key)(jnp.asarray(keys))
    for b in batch_sizes or range(1, total + 1):
        if b > total or b < 1:
            continue
        batch = sample_fn(C, E, b)(buf, kk)
        rows = decode_rows(batch)
        ref = np.asarray(rows["reward"])  # (K, b)
        for k, v in rows.items():
            if not np.array_equal(np.asarray(v), ref):
                fails.append((f"C06/sample/misaligned/{k}", f"C={C} E={E} fills={fills} b={b}: sampled field {k} tags differ from reward tags"))
        d = np.asarray(batch.dones)
        to = np.asarray(batch.timeouts)
        tags = np.rint(ref).astype(int)
        if not np.array_equal(d, tags % 2 == 1) or not np.array_equal(to, (tags // 2) % 2 == 1):
            fails.append(("C06/sample/misaligned/flags", f"C={C} E={E} fills={fills} b={b}: done/timeout bits do not match row tags"))
        for ki in range(tags.shape[0]):
            row = tags[ki].tolist()
            bad = [t for t in row if t not in all_tags]
            if bad:
                kind = "unwritten-slot" if any(t == 0 for t in bad) else "not-stored"
                fails.append((f"C06/sample/{kind}", f"C={C} E={E} fills={fills} b={b} key={keys[ki]}: sampled tags {row}, stored {sorted(all_tags)}"))
            if len(set(row)) != len(row):
                fails.append(("C06/sample/duplicate", f"C={C} E={E} fills={fills} b={b} key={keys[ki]}: sampled tags {row} contain a transition twice"))
    return fails


def support_failures(buf, C, E, fills, ctx: Ctx) -> list[tuple[str, str]]:
    """The randomness seam of sample(): the real sample() is run eagerly with jax.random.choice replaced by a recorder, and the
    probability vector it hands to the sampler is judged.  An unwritten slot must have probability EXACTLY 0 and the draw must be
    without replacement: that decides "never an unwritten slot, never a transition twice" for ALL keys, including events far too
    rare for any key alphabet (an epsilon added to every probability).  If sample() does not go through jax.random.choice nothing
    is recorded and only the key enumeration speaks (guard `support-intercepted` then stays 0)."""
    import jax.random as _jrmod

    nE = max(E, 1)
    stored = sum(min(f, C) for f in fills)
    if stored < 1:
        return []
    calls = []
    real = _jrmod.choice

    def recorder(key, a, shape=(), replace=True, p=None, axis=0, **kw):
        calls.append(dict(a=a, replace=replace, p=None if p is None else np.asarray(p, dtype=np.float64)))
        return real(key, a, shape=shape, replace=replace, p=p, axis=axis, **kw)

    _jrmod.choice = recorder
    try:
        buf.sample(1, key=jr.key(0))
    finally:
        _jrmod.choice = real
    fails = []
    for c in calls:
        ctx.guard("support-intercepted")
        if c["p"] is None or np.shape(c["p"]) != (nE * C,):
            continue  # a different use of choice: not interpretable here
        written = np.asarray([(i % C) < min(fills[i // C], C) for i in range(nE * C)])
        pr = c["p"]
        if np.any(pr[~written] != 0):
            fails.append(("C06/support/unwritten-slot-has-positive-probability",
                          f"C={C} E={E} fills={fills}: sample() hands jax.random.choice the probabilities {pr.tolist()}: unwritten slots {np.flatnonzero(~written).tolist()} can be drawn (probability {float(pr[~written].max()):.3g} each)"))
        if np.any(pr[written] <= 0) or np.any(np.isnan(pr)):
            fails.append(("C06/support/stored-slot-has-zero-probability", f"C={C} E={E} fills={fills}: probabilities {pr.tolist()}: a stored slot can never be drawn"))
        if c["replace"] and stored > 1:
            fails.append(("C06/support/drawn-with-replacement", f"C={C} E={E} fills={fills}: sample() draws with replacement"))
    return fails


def clause_bigint(cases, ctx: Ctx):
    """case: {C, n}: integer observations beyond 2^24 (hashed / tabular state ids in Discrete(2^30)) must come back exactly: the stored
    fields keep the observation space's dtype, under jit as well."""
    out = []
    for ci, c in enumerate(cases):
        C, n = c["C"], c["n"]
        space = Discrete(2**30)
        buf = ReplayBuffer(C, space, Discrete(4), TagState(jnp.asarray(0, dtype=int)))
        base = 2**24 + 1
        add = eqx.filter_jit(lambda b, o, no, a: b.add(o, no, a, jnp.asarray(0.0), jnp.asarray(False), jnp.asarray(False), TagState(a), TagState(a + 1)))
        for i in range(n):
            buf = add(buf, jnp.asarray(base + 2 * i, dtype=int), jnp.asarray(base + 2 * i + 2, dtype=int), jnp.asarray(i % 4, dtype=int))
        obs, nobs = np.asarray(buf.observations), np.asarray(buf.next_observations)
        want = {i % C: base + 2 * i for i in range(max(0, n - C), n)}
        ctx.guard("bigint-observations")
        bad = [(sl, int(obs[sl]), w, int(nobs[sl]), w + 2) for sl, w in want.items() if int(obs[sl]) != w or int(nobs[sl]) != w + 2]
        if bad or obs.dtype.kind not in "iu":
            out.append((ci, "C06/contents/integer-observation-not-stored-exactly", f"C={C} after {n} insertions of observations {base}, {base + 2}, ...: dtype {obs.dtype}; (slot, stored obs, inserted obs, stored next, inserted next) = {bad[:3]}"))
    return out


def clause_path(cases, ctx: Ctx):
    """case: {C, E, path, keys, sample: bool}.  Replays the path on the real buffer."""
    out = []
    for i, c in enumerate(cases):
        buf, fills, fails = build(c["C"], c["E"], c["path"])
        if c.get("sample"):
            fails += sample_failures(buf, c["C"], c["E"], fills, c["keys"], c.get("batch_sizes"))
            fails += support_failures(buf, c["C"], c["E"], fills, ctx)
        for sig, msg in fails:
            out.append((i, sig, msg))
    return out


def clause_diamond(cases, ctx: Ctx):
    """Two different insertion orders reaching the same fill levels give identical buffers."""
    out = []
    for i, c in enumerate(cases):
        b1, f1, _ = build(c["C"], c["E"], c["path"], check_prefixes=False)
        b2, f2, _ = build(c["C"], c["E"], c["path2"], check_prefixes=False)
        if f1 != f2:
            raise AssertionError("harness: diamond paths have different fills")
        if canon(b1) != canon(b2):
            out.append((i, "C06/diamond/order-dependent", f"C={c['C']} E={c['E']} paths {c['path']} and {c['path2']} reach fills {f1} with different buffers"))
    return out


CLAUSES = {"path": clause_path, "diamond": clause_diamond, "bigint": clause_bigint}


def explore(ctx: Ctx):
    thorough = ctx.tier == "thorough"
    nkeys = 64 if thorough else 8
    keys = key_ints(ctx.seed, nkeys)
    ctx.rule = (
        "BFS over fill-level tuples of E per-environment ring buffers of capacity C using the real "
        "ReplayBuffer.add as transition function (E=0 means an un-vmapped buffer); every edge is "
        "re-executed as a full path from a fresh buffer with contents checked after every prefix; "
        "every state is sampled with every batch size <= stored rows and every key of K. "
        "non-trivial = a state in which at least one environment has wrapped (fill > C) or "
        "environments have unequal fill levels"
    )
    ctx.assumptions = [
        "tags < 2^24 so float32 fields carry them exactly",
        f"keys limited to the alphabet K of {nkeys} integers derived from VERIF_SEED",
        "per-environment fill levels are made unequal by masking the vmapped add with lax.cond in the harness",
    ]
    if thorough:
        configs = [(C, 0) for C in range(1, 6)] + [(C, 1) for C in (1, 3)] + [(C, 2) for C in range(1, 5)] + [(C, 3) for C in (1, 2, 3)]
    else:
        configs = [(C, 0) for C in range(1, 5)] + [(C, 2) for C in (1, 2, 3)] + [(2, 3)]
    for C, E in configs:
        nE = max(E, 1)
        top = 3 * C + 1 if E == 0 else C + 2
        init = tuple([0] * nE)
        paths = {init: []}
        frontier = collections.deque([init])
        ctx.states += 1
        cases, diamonds = [], []
        # the initial (empty) state is a state too
        cases.append({"C": C, "E": E, "path": [], "keys": keys, "sample": False})
        while frontier:
            st = frontier.popleft()
            for e in range(nE):
                if st[e] >= top:
                    continue
                nxt = tuple(st[j] + (1 if j == e else 0) for j in range(nE))
                ctx.transitions += 1
                path = paths[st] + [e]
                if nxt not in paths:
                    paths[nxt] = path
                    frontier.append(nxt)
                    ctx.states += 1
                    cases.append({"C": C, "E": E, "path": path, "keys": keys, "sample": True})
                    if any(f > C for f in nxt) or len(set(nxt)) > 1:
                        ctx.nontriv(("state", C, E, nxt))
                        ctx.guard("wrapped" if any(f > C for f in nxt) else "unequal-fill")
                    if any(f > 2 * C for f in nxt):
                        ctx.guard("wrapped-twice")
                else:
                    diamonds.append({"C": C, "E": E, "path": paths[nxt], "path2": path})
        ctx.run("path", cases)
        ctx.traces += len(cases)
        ctx.run("diamond", diamonds)
    ctx.run("bigint", [dict(C=C, n=n) for (C, n) in ((3, 2), (3, 5), (4, 9))])
    # secondary model-based pass: TLC-verified TLA+ ring model, all edges replayed against the real add()
    tlc_cfgs = [(1, 1, 4, 0), (2, 1, 7, 0), (3, 1, 10, 0), (2, 1, 5, 1), (2, 2, 4, 2), (3, 2, 5, 2)] + ([(2, 3, 3, 3), (4, 2, 6, 2), (5, 1, 16, 0)] if thorough else [])
    ctx.run("tlc", [dict(C=C, E=E, MaxN=M, real_E=rE) for (C, E, M, rE) in tlc_cfgs])
    ctx.notes["tlc_model"] = "models/Ring.tla: invariants MostRecent, ValidIsWritten, NoDuplicates verified by TLC for " + str(tlc_cfgs)
    ctx.require("wrapped", "unequal-fill", "wrapped-twice", "tlc-edges")
    ctx.notes["sampler_support_judged_in_states"] = ctx.guards.get("support-intercepted", 0)  # 0 = sample() no longer goes through jax.random.choice: only the key enumeration decides
    ctx.notes["configs_(C,E)"] = configs
    ctx.notes["keys"] = len(keys)


# ---------------------------------------------------------------------------------------
# secondary: TLA+ model (models/Ring.tla) checked by TLC, every edge of its state graph replayed on the real buffer
# ---------------------------------------------------------------------------------------
def tlc_graph(C: int, E: int, MaxN: int):
    """Run TLC on models/Ring.tla and return (nodes: id -> (pos tuple, slots tuple of tuples), edges: [(u, env, v)], init id)."""
    import os
    import re
    import shutil
    import subprocess
    import tempfile

    from mc.core import VERIF, HarnessError

    d = tempfile.mkdtemp(prefix="c06_tlc_", dir="/tmp")
    try:
        shutil.copy(os.path.join(VERIF, "models", "Ring.tla"), d)
        with open(os.path.join(d, "Ring.cfg"), "w") as f:
            f.write(f"CONSTANTS\n  C = {C}\n  E = {E}\n  MaxN = {MaxN}\nINIT Init\nNEXT Next\nINVARIANTS MostRecent ValidIsWritten NoDuplicates\n")
        r = subprocess.run(["tlc", "-workers", "1", "-noGenerateSpecTE", "-metadir", os.path.join(d, "meta"), "-deadlock", "-dump", "dot,actionlabels", os.path.join(d, "g"), "Ring"],
                           cwd=d, capture_output=True, text=True, timeout=600)
        if "No error has been found" not in r.stdout:
            raise HarnessError(f"TLC did not verify models/Ring.tla for C={C} E={E} MaxN={MaxN}: {r.stdout[-400:]} {r.stderr[-200:]}")
        dot = open(os.path.join(d, "g.dot")).read()
    finally:
        shutil.rmtree(d, ignore_errors=True)
    nodes, edges = {}, []
    seq = lambda s: tuple(int(x) for x in re.findall(r"-?\d+", s))
    for m in re.finditer(r'^(-?\d+) \[label="/\\\\ pos = <<([^>]*)>>\\n/\\\\ slots = <<(.*?)>>"', dot, re.M):
        pos = seq(m.group(2))
        rows = tuple(seq(x) for x in re.findall(r"<<([^<>]*)>>", m.group(3)))
        nodes[m.group(1)] = (pos, rows)
    for m in re.finditer(r'^(-?\d+) -> (-?\d+) \[label="Add\((\d+)\)"', dot, re.M):
        edges.append((m.group(1), int(m.group(3)) - 1, m.group(2)))
    init = next(k for k, (pos, rows) in nodes.items() if not any(pos))
    if len(nodes) != (MaxN + 1) ** E or not edges:
        raise HarnessError(f"unexpected TLC state graph for C={C} E={E} MaxN={MaxN}: {len(nodes)} nodes {len(edges)} edges")
    return nodes, edges, init


def real_state(buf, C, E):
    """slots (tuple of tuples) of the real buffer in the model's tag space; bookkeeping fields (position, current_size)
    are deliberately not read: the statement is about contents and sampling only"""
    nE = max(E, 1)
    tags = np.rint(np.asarray(buf.rewards).reshape(nE, C) * 4.0).astype(int)
    return tuple(tuple(int(t - e * 1000) if t != 0 else 0 for t in tags[e]) for e in range(nE))


def clause_tlc(cases, ctx: Ctx):
    """case: {C, E (model environments), MaxN, real_E}: conformance of the real add() with every edge of the TLC graph"""
    out = []
    for ci, c in enumerate(cases):
        C, E, MaxN, rE = c["C"], c["E"], c["MaxN"], c["real_E"]
        nodes, edges, init = tlc_graph(C, E, MaxN)
        # BFS tree paths in the MODEL graph
        succ = {}
        for u, e, v in edges:
            succ.setdefault(u, []).append((e, v))
        path = {init: []}
        order = [init]
        for u in order:
            for e, v in sorted(succ.get(u, [])):
                if v not in path:
                    path[v] = path[u] + [e]
                    order.append(v)
        if len(path) != len(nodes):
            raise AssertionError("harness: model graph not connected")
        for u, e, v in edges:
            buf, fills, _ = build(C, rE, path[u], check_prefixes=False)
            if real_state(buf, C, rE) != nodes[u][1]:
                out.append((ci, "C06/tlc/state-mismatch", f"C={C} E={rE}: replaying model path {path[u]} on the real buffer gives {real_state(buf, C, rE)}, model state {nodes[u]}"))
                break
            buf2, _, fl = build(C, rE, path[u] + [e], check_prefixes=False)
            got = real_state(buf2, C, rE)
            if got != nodes[v][1]:
                out.append((ci, "C06/tlc/edge-mismatch", f"C={C} E={rE}: from model state {nodes[u]} the event Add(env {e}) leads the model to {nodes[v]} but the real ReplayBuffer.add to {got}"))
                break
            ctx.transitions += 1
        ctx.states += len(nodes)
        ctx.traces += len(edges)
        ctx.guard("tlc-edges", len(edges))
    return out


CLAUSES["tlc"] = clause_tlc
