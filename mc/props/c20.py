"""C20 - Unitree G1 episodes are randomised within range; the gait phase stays coherent.

Clauses (all call the real lerax code; every judgement is numpy float64 written from the
statement):

  randomize  the four randomize_* functions and randomize_model called directly (eager) on the
             nominal MJX model and on a harness-perturbed model ("the previous episode's model"),
             for four range configurations x key alphabet K.  Oracle = model diff: the named
             quantity lies within range *around the nominal values*, every other leaf of the
             model is bitwise the input's.
  initial    env.initial(key) of the three tasks x constructor configurations x K, jitted once
             per (task, configuration).  Oracle = model diff against an independently loaded
             nominal model, command / gait-frequency ranges, initial phases, and MuJoCo-C
             mj_kinematics recomputed from the state's qpos (derived kinematics).
  varies     the randomised quantities are not constant over the key alphabet.
  command    sample_command over a large key block (cheap): components within range or the
             documented zero command; exactly zero for the standing tasks.
  gait_scan  advance_gait_phase iterated H steps (lax.scan) per (frequency, dt); every step judged.
  gait_orbit the float32 gait automaton iterated until its orbit closes (Brent): every state
             reachable from the initial phase at that (frequency, dt) is visited, which decides
             the invariants for arbitrarily long histories at that frequency.
  foot       desired_foot_height on a phase grid x swing heights.
  transition env.transition along short episodes (optionally with the episode's gait frequency
             overridden on the state pytree): the phase advances exactly once per control step.

Interpretation that matters (see FRICTION_TARGET): "the randomised contact friction" is read,
as lerax's own docstring and the MuJoCo Playground convention do, as the sliding friction of
the foot-floor contact pairs (identified by name in the compiled model), not "whatever rows the
code happens to write".
"""

from __future__ import annotations

import concurrent.futures as cf
import os
import threading
import warnings

import numpy as np

warnings.filterwarnings("ignore", message="Explicitly requested dtype")

import equinox as eqx  # noqa: E402
import jax  # noqa: E402
import mujoco  # noqa: E402
from jax import lax  # noqa: E402
from jax import numpy as jnp  # noqa: E402
from jax import random as jr  # noqa: E402
from mujoco import mjx  # noqa: E402

from lerax.env.unitree.g1 import gait, randomize  # noqa: E402
from lerax.env.unitree.g1.locomotion import G1Locomotion  # noqa: E402
from lerax.env.unitree.g1.standing import G1Standing  # noqa: E402
from lerax.env.unitree.g1.standup import G1Standup  # noqa: E402

from mc.core import LERAX_SRC, Ctx, chash, key_ints  # noqa: E402

LEVEL = "model_checking"
P = "C20"

TASKS = {"locomotion": G1Locomotion, "standing": G1Standing, "standup": G1Standup}
XML = os.path.join(LERAX_SRC, "lerax", "env", "unitree", "g1", "assets", "scene_mjx.xml")

# "foot-floor-by-name": the randomised contact friction is the sliding friction (columns 0:2)
# of the contact pairs named left_foot_floor / right_foot_floor.
FRICTION_TARGET = "foot-floor-by-name"
FOOT_PAIRS = ("left_foot_floor", "right_foot_floor")

REL = 2e-6  # float32 slack on range membership
PI = float(np.pi)

# documented constructor / function defaults (written from the docs, not read from the objects)
DEFAULT_RANGES = {
    "friction_range": (0.4, 1.0),
    "friction_loss_scale_range": (0.5, 2.0),
    "armature_scale_range": (1.0, 1.05),
    "mass_scale_range": (0.9, 1.1),
    "torso_offset_range": (-1.0, 1.0),
}
DEFAULT_COMMAND = {
    "lin_vel_x_range": (-1.0, 1.0),
    "lin_vel_y_range": (-0.5, 0.5),
    "ang_vel_yaw_range": (-1.0, 1.0),
    "gait_frequency_range": (1.25, 1.5),
    "zero_command_probability": 0.1,
}
DEFAULT_CONTROL_HZ = 50.0

# constructor configurations (kwargs); every alt range is disjoint from every default range and
# from every other alt range, so a swapped or ignored range is visible
CFG_ALT = {
    "friction_range": [1.2, 1.6],
    "friction_loss_scale_range": [2.5, 3.0],
    "armature_scale_range": [0.2, 0.6],
    "mass_scale_range": [1.3, 1.7],
    "torso_offset_range": [2.0, 5.0],
}
CFG_ALT_LOC = dict(
    CFG_ALT,
    lin_vel_x_range=[0.2, 0.3],
    lin_vel_y_range=[-0.45, -0.35],
    ang_vel_yaw_range=[1.0, 2.0],
    gait_frequency_range=[0.5, 0.9],
    zero_command_probability=0.5,
)
CFG_DEG = {
    "friction_range": [0.8, 0.8],
    "friction_loss_scale_range": [1.5, 1.5],
    "armature_scale_range": [1.02, 1.02],
    "mass_scale_range": [0.95, 0.95],
    "torso_offset_range": [0.5, 0.5],
}
CFG_DEG_LOC = dict(
    CFG_DEG,
    lin_vel_x_range=[0.7, 0.7],
    lin_vel_y_range=[-0.2, -0.2],
    ang_vel_yaw_range=[0.4, 0.4],
    gait_frequency_range=[1.3, 1.3],
    zero_command_probability=0.0,
)

# range configurations for the direct randomize_* calls
DIRECT_RANGES = {
    "default": None,  # call without range arguments: the documented defaults apply
    "degenerate": {"friction_range": [0.7, 0.7], "friction_loss_scale_range": [1.5, 1.5],
                   "armature_scale_range": [1.03, 1.03], "mass_scale_range": [1.05, 1.05],
                   "torso_offset_range": [0.25, 0.25]},
    "narrow": {"friction_range": [0.59, 0.61], "friction_loss_scale_range": [0.99, 1.01],
               "armature_scale_range": [1.0, 1.001], "mass_scale_range": [0.999, 1.001],
               "torso_offset_range": [-0.01, 0.01]},
    "wide": {"friction_range": [0.05, 0.3], "friction_loss_scale_range": [3.0, 10.0],
             "armature_scale_range": [12.0, 20.0], "mass_scale_range": [0.2, 0.45],
             "torso_offset_range": [30.0, 50.0]},
}

_LOCK = threading.RLock()
_STATS: dict = {}
_CACHE: dict = {}


# ------------------------------------------------------------------------------------------
# nominal model (loaded by the harness, independently of any lerax object)
# ------------------------------------------------------------------------------------------
class Nominal:
    def __init__(self):
        self.mj = mujoco.MjModel.from_xml_path(XML)
        self.mjx = mjx.put_model(self.mj)
        self.leaves, self.treedef = flat(self.mjx)
        self.np = {k: np.asarray(v) for k, v in self.leaves.items()}
        self.frictionloss = np.array(self.mj.dof_frictionloss, dtype=np.float64)
        self.armature = np.array(self.mj.dof_armature, dtype=np.float64)
        self.body_mass = np.array(self.mj.body_mass, dtype=np.float64)
        self.torso = int(self.mj.body("torso_link").id)
        self.pair_names = [self.mj.pair(i).name for i in range(self.mj.npair)]
        self.foot_pairs = [int(self.mj.pair(n).id) for n in FOOT_PAIRS]
        tgt = np.zeros(self.mj.pair_friction.shape, dtype=bool)
        tgt[self.foot_pairs, 0:2] = True
        self.friction_target = tgt
        self.nfree = 6


def nominal() -> Nominal:
    with _LOCK:
        if "nominal" not in _CACHE:
            _CACHE["nominal"] = Nominal()
        return _CACHE["nominal"]


def flat(model, prefix=""):
    """name -> array leaf, and name -> static (non-array) field, walking the MJX dataclasses by
    field (tree_flatten would hash every static numpy field with crc32 on each call)."""
    import dataclasses

    leaves, static = {}, {}
    for f in dataclasses.fields(model):
        v = getattr(model, f.name)
        name = prefix + f.name
        if dataclasses.is_dataclass(v) and not isinstance(v, type):
            sub_l, sub_s = flat(v, name + ".")
            leaves.update(sub_l)
            static.update(sub_s)
        elif isinstance(v, jax.Array):
            leaves[name] = v
        else:
            static[name] = v
    return leaves, static


def static_equal(a: dict, b: dict) -> list[str]:
    bad = [k for k in set(a) ^ set(b)]
    for k in set(a) & set(b):
        x, y = a[k], b[k]
        if x is y:
            continue
        try:
            if isinstance(x, np.ndarray) or isinstance(y, np.ndarray):
                ok = isinstance(x, np.ndarray) and isinstance(y, np.ndarray) and x.shape == y.shape and x.dtype == y.dtype and x.tobytes() == y.tobytes()
            else:
                ok = bool(x == y)
        except Exception:  # noqa: BLE001
            ok = False
        if not ok:
            bad.append(k)
    return sorted(bad)


def bits_equal(a, b) -> bool:
    if a is b:
        return True
    a, b = np.asarray(a), np.asarray(b)
    return a.shape == b.shape and a.dtype == b.dtype and a.tobytes() == b.tobytes()


def tup(v):
    return tuple(float(x) for x in v)


def rng_tol(lo, hi):
    return REL * max(abs(lo), abs(hi), 1e-3) + 1e-12


def outside(v, lo, hi):
    """Boolean mask: v not within [lo, hi] (elementwise bounds allowed), float32 slack."""
    v = np.asarray(v, dtype=np.float64)
    lo = np.asarray(lo, dtype=np.float64)
    hi = np.asarray(hi, dtype=np.float64)
    lo, hi = np.minimum(lo, hi), np.maximum(lo, hi)
    tol = REL * np.maximum(np.maximum(np.abs(lo), np.abs(hi)), 1e-3) + 1e-12
    return ~((v >= lo - tol) & (v <= hi + tol))  # NaN counts as outside


# ------------------------------------------------------------------------------------------
# model diff oracle
# ------------------------------------------------------------------------------------------
def model_diff(model_out, in_leaves, in_treedef, ranges: dict, clause: str, ctx: Ctx | None = None):
    """Failures [(signature, message)] of `model_out` against the statement.

    in_leaves: leaves of the model the randomiser started from (the nominal model for an episode
    reset).  ranges: subset of DEFAULT_RANGES keys -> (lo, hi); a quantity whose range is absent
    must be bitwise the input's.  Randomised quantities are judged around the NOMINAL values.
    """
    nom = nominal()
    out_leaves, out_treedef = flat(model_out)
    fails = []
    bad_static = static_equal(out_treedef, in_treedef)
    if bad_static or set(out_leaves) != set(in_leaves):
        fails.append((f"{P}/{clause}/model/structure-changed", f"static fields / set of array fields of the episode model differ from the nominal model: {bad_static[:5]} {sorted(set(out_leaves) ^ set(in_leaves))[:5]}"))
        return fails
    special = {"pair_friction": "friction_range", "dof_frictionloss": "friction_loss_scale_range",
               "dof_armature": "armature_scale_range", "body_mass": "mass_scale_range"}
    for name, leaf in out_leaves.items():
        if name in special and special[name] in ranges:
            continue
        if not bits_equal(leaf, in_leaves[name]):
            a, b = np.asarray(leaf), np.asarray(in_leaves[name])
            d = "shape/dtype" if a.shape != b.shape or a.dtype != b.dtype else f"{int(np.sum(a != b))} of {a.size} entries, max |diff| {float(np.max(np.abs(a.astype(np.float64) - b.astype(np.float64)))):.3g}"
            fails.append((f"{P}/{clause}/model/other-parameter-changed/{name}", f"model.{name} differs from the nominal model ({d}) although it is not a randomised quantity here"))

    # --- contact friction ---------------------------------------------------------------
    if "friction_range" in ranges:
        lo, hi = tup(ranges["friction_range"])
        pf32 = np.asarray(out_leaves["pair_friction"])
        pin32 = np.asarray(in_leaves["pair_friction"])
        if pf32.shape != pin32.shape:
            fails.append((f"{P}/{clause}/model/other-parameter-changed/pair_friction", f"pair_friction shape {pf32.shape} != {pin32.shape}"))
        else:
            pf = pf32.astype(np.float64)
            changed = pf32.view(np.uint32) != pin32.astype(np.float32).view(np.uint32)
            tgt = nom.friction_target
            bad = changed & outside(pf, lo, hi)
            if bad.any():
                r, c = np.argwhere(bad)[0]
                fails.append((f"{P}/{clause}/friction/changed-entry-out-of-range", f"pair_friction[{r},{c}] ({nom.pair_names[r]}) = {pf[r, c]:.6g} was changed to a value outside friction_range [{lo}, {hi}] (input value {float(pin32[r, c]):.6g}); {int(bad.sum())} such entries"))
            stray = changed & ~tgt
            if stray.any():
                rows = sorted({int(r) for r in np.argwhere(stray)[:, 0]})
                cols = sorted({int(c) for c in np.argwhere(stray)[:, 1]})
                names = "+".join(sorted(nom.pair_names[r] for r in rows)) if len(rows) <= 4 else f"{len(rows)}-pairs"
                colsig = "" if set(cols) <= {0, 1} else "/non-sliding-columns-too"
                fails.append((f"{P}/{clause}/friction/non-foot-pairs-modified:{names}{colsig}",
                              f"friction randomisation wrote pair_friction rows {rows} = {[nom.pair_names[r] for r in rows][:6]} columns {cols}; the foot-floor pairs {FOOT_PAIRS} are rows {nom.foot_pairs} "
                              f"(MuJoCo orders compiled contact pairs by geom signature, not by XML order); every parameter other than the foot-floor sliding friction must stay nominal"))
            tv = pf[tgt]
            tout = outside(tv, lo, hi)
            if tout.any():
                untouched = ~changed[tgt]
                if np.all(untouched[tout]):
                    fails.append((f"{P}/{clause}/friction/foot-floor-not-randomised-outside-range", f"foot-floor sliding friction {tv.tolist()} was left at the input value, outside the configured friction_range [{lo}, {hi}]"))
                else:
                    fails.append((f"{P}/{clause}/friction/foot-floor-out-of-range", f"foot-floor sliding friction {tv.tolist()} not within friction_range [{lo}, {hi}]"))
            if ctx is not None:
                ctx.guard("friction-target-changed", int(changed[tgt].any()))

    nf = nom.nfree

    def scaled(field, key, nomvals, what):
        if key not in ranges:
            return
        lo, hi = tup(ranges[key])
        v32 = np.asarray(out_leaves[field])
        vin = np.asarray(in_leaves[field])
        if v32.shape != vin.shape:
            fails.append((f"{P}/{clause}/model/other-parameter-changed/{field}", f"{field} shape {v32.shape} != {vin.shape}"))
            return
        if not bits_equal(v32[:nf], vin[:nf]):
            fails.append((f"{P}/{clause}/model/other-parameter-changed/{field}[free-joint]", f"{field}[:6] (free joint) = {v32[:nf].tolist()} differs from the input model's {vin[:nf].tolist()}"))
        v = v32[nf:].astype(np.float64)
        n = nomvals[nf:]
        o = outside(v, n * lo, n * hi)
        if o.any():
            j = int(np.argmax(o))
            fails.append((f"{P}/{clause}/{what}/out-of-range", f"{field}[{nf + j}] = {v[j]:.7g} = {v[j] / n[j] if n[j] else float('nan'):.6g} x nominal {n[j]:.7g}; configured {key} [{lo}, {hi}]; {int(o.sum())} of {o.size} actuated DOFs outside"))
        if ctx is not None and hi > lo:
            ctx.guard(f"{what}-differs-from-nominal", int(np.any(np.abs(v - n) > 1e-7 * np.abs(n))))

    scaled("dof_frictionloss", "friction_loss_scale_range", nom.frictionloss, "frictionloss")
    scaled("dof_armature", "armature_scale_range", nom.armature, "armature")

    if "mass_scale_range" in ranges:
        lo, hi = tup(ranges["mass_scale_range"])
        olo, ohi = tup(ranges.get("torso_offset_range", (0.0, 0.0)))
        v32 = np.asarray(out_leaves["body_mass"])
        if v32.shape != nom.body_mass.shape:
            fails.append((f"{P}/{clause}/model/other-parameter-changed/body_mass", f"body_mass shape {v32.shape}"))
        else:
            v = v32.astype(np.float64)
            n = nom.body_mass
            blo, bhi = np.minimum(n * lo, n * hi), np.maximum(n * lo, n * hi)
            blo[nom.torso] += olo
            bhi[nom.torso] += ohi
            o = outside(v, blo, bhi)
            t = nom.torso
            if o[t]:
                fails.append((f"{P}/{clause}/mass/torso-out-of-range", f"torso mass {v[t]:.6g}; nominal {n[t]:.6g} x [{lo}, {hi}] + offset [{olo}, {ohi}] = [{blo[t]:.6g}, {bhi[t]:.6g}]"))
            o[t] = False
            if o.any():
                j = int(np.argmax(o))
                fails.append((f"{P}/{clause}/mass/out-of-range", f"body_mass[{j}] = {v[j]:.7g} = {v[j] / n[j] if n[j] else float('nan'):.6g} x nominal {n[j]:.7g}; configured mass_scale_range [{lo}, {hi}]; {int(o.sum())} bodies outside"))
            if ctx is not None and hi > lo:
                ctx.guard("mass-differs-from-nominal", int(np.any(np.abs(v - n) > 1e-7 * np.abs(n))))
    return fails


# ------------------------------------------------------------------------------------------
# clause: randomize (direct calls, eager)
# ------------------------------------------------------------------------------------------
def perturbed_model():
    """A model that is NOT the nominal one: stands for the model of a previous episode."""
    with _LOCK:
        if "perturbed" not in _CACHE:
            nm = nominal().mjx
            _CACHE["perturbed"] = nm.tree_replace({
                "pair_friction": nm.pair_friction + 0.25,
                "dof_frictionloss": nm.dof_frictionloss * 3.0 + 0.01,
                "dof_armature": nm.dof_armature * 1.5 + 0.001,
                "body_mass": nm.body_mass * 2.0 + 0.1,
            })
        return _CACHE["perturbed"]


def direct_ranges(fn: str, name: str) -> tuple[dict, dict]:
    """(kwargs for the real call, reference ranges) for a direct call of randomize_<fn>."""
    cfg = DIRECT_RANGES[name]
    full = {k: tup(v) for k, v in (cfg or DEFAULT_RANGES).items()}
    if fn == "friction":
        ref = {"friction_range": full["friction_range"]}
        kw = {} if cfg is None else {"friction_range": full["friction_range"]}
    elif fn == "friction_loss":
        ref = {"friction_loss_scale_range": full["friction_loss_scale_range"]}
        kw = {} if cfg is None else {"scale_range": full["friction_loss_scale_range"]}
    elif fn == "armature":
        ref = {"armature_scale_range": full["armature_scale_range"]}
        kw = {} if cfg is None else {"scale_range": full["armature_scale_range"]}
    elif fn == "body_mass":
        ref = {"mass_scale_range": full["mass_scale_range"], "torso_offset_range": full["torso_offset_range"]}
        kw = {} if cfg is None else {"scale_range": full["mass_scale_range"], "torso_offset_range": full["torso_offset_range"]}
    elif fn == "model":
        ref = dict(full)
        kw = {} if cfg is None else dict(full)
    else:
        raise ValueError(fn)
    return kw, ref


def clause_randomize(cases, ctx: Ctx):
    """case: {fn, ranges: name in DIRECT_RANGES, input: nominal|perturbed, key}."""
    nom = nominal()
    out = []
    nfl = jnp.asarray(nom.mj.dof_frictionloss[6:])
    narm = jnp.asarray(nom.mj.dof_armature[6:])
    nmass = jnp.asarray(nom.mj.body_mass)
    for i, c in enumerate(cases):
        m_in = nom.mjx if c["input"] == "nominal" else perturbed_model()
        in_leaves, in_td = (nom.leaves, nom.treedef) if c["input"] == "nominal" else flat(m_in)
        kw, ref = direct_ranges(c["fn"], c["ranges"])
        key = jr.key(c["key"])
        if c["fn"] == "friction":
            m = randomize.randomize_friction(m_in, key=key, **kw)
        elif c["fn"] == "friction_loss":
            m = randomize.randomize_friction_loss(m_in, key=key, nominal_friction_loss=nfl, **kw)
        elif c["fn"] == "armature":
            m = randomize.randomize_armature(m_in, key=key, nominal_armature=narm, **kw)
        elif c["fn"] == "body_mass":
            m = randomize.randomize_body_mass(m_in, key=key, nominal_body_mass=nmass, torso_body_id=nom.torso, **kw)
        else:
            m = randomize.randomize_model(m_in, key=key, nominal_friction_loss=nfl, nominal_armature=narm,
                                          nominal_body_mass=nmass, torso_body_id=nom.torso, **kw)
        for sig, msg in model_diff(m, in_leaves, in_td, ref, "randomize", ctx):
            out.append((i, sig, f"randomize_{c['fn']}(ranges={c['ranges']}, input={c['input']} model, key={c['key']}): {msg}"))
    return out


# ------------------------------------------------------------------------------------------
# environments, jitted entry points
# ------------------------------------------------------------------------------------------
def get_env(task: str, kwargs: dict):
    k = ("env", task, chash(kwargs))
    with _LOCK:
        if k not in _CACHE:
            kw = {a: (tuple(v) if isinstance(v, list) else v) for a, v in kwargs.items()}
            _CACHE[k] = TASKS[task](**kw)
        return _CACHE[k]


_INITIAL = eqx.filter_jit(lambda env, key: env.initial(key=key))


def ref_ranges(kwargs: dict) -> dict:
    return {k: tup(kwargs.get(k, v)) for k, v in DEFAULT_RANGES.items()}


def ref_command(kwargs: dict) -> dict:
    out = {k: (tup(kwargs.get(k, v)) if k != "zero_command_probability" else float(kwargs.get(k, v))) for k, v in DEFAULT_COMMAND.items()}
    return out


def run_initial(task, kwargs, key: int):
    env = get_env(task, kwargs)
    return env, _INITIAL(env, jr.key(key))


def command_failures(task, kwargs, cmd, clause) -> list:
    cmd = np.asarray(cmd, dtype=np.float64)
    if task != "locomotion":
        if not np.all(cmd == 0.0):
            return [(f"{P}/{clause}/command/nonzero-for-{task}", f"{task} task got velocity command {cmd.tolist()}, must be exactly zero")]
        return []
    rc = ref_command(kwargs)
    los = np.array([rc["lin_vel_x_range"][0], rc["lin_vel_y_range"][0], rc["ang_vel_yaw_range"][0]])
    his = np.array([rc["lin_vel_x_range"][1], rc["lin_vel_y_range"][1], rc["ang_vel_yaw_range"][1]])
    o = outside(cmd, los, his)
    if not o.any():
        return []
    if np.all(cmd == 0.0) and rc["zero_command_probability"] > 0.0:
        return []  # the documented "stand still" command
    j = int(np.argmax(o))
    return [(f"{P}/{clause}/command/out-of-range", f"command {cmd.tolist()}: component {j} outside [{los[j]}, {his[j]}] (zero_command_probability={rc['zero_command_probability']})")]


def wrap(x):
    """Distance-preserving representative of x modulo 2*pi in [-pi, pi)."""
    return (np.asarray(x, dtype=np.float64) + PI) % (2 * PI) - PI


PHASE_TOL = 1e-6  # float32(pi) exceeds pi by 8.7e-8
ANTI_TOL = 1e-3
INC_TOL = 1e-5


def phase_state_failures(ph, clause, when) -> list:
    ph = np.asarray(ph, dtype=np.float64)
    f = []
    if ph.shape != (2,) or not np.all(np.abs(ph) <= PI + PHASE_TOL):
        f.append((f"{P}/{clause}/phase/out-of-[-pi,pi]", f"{when}: gait phase {ph.tolist()}"))
    elif abs(float(wrap(ph[1] - ph[0] - PI))) > ANTI_TOL:
        f.append((f"{P}/{clause}/phase/not-half-cycle-apart", f"{when}: gait phase {ph.tolist()}, right-left = {float(ph[1] - ph[0]):.6f} is not pi modulo 2pi"))
    return f


KIN_FIELDS = ("xpos", "xquat", "xmat", "xipos", "ximat", "geom_xpos", "geom_xmat", "site_xpos", "site_xmat", "xanchor", "xaxis")
KIN_TOL = 2e-4


def kinematics_failures(state, clause) -> list:
    """Derived kinematics of the state recomputed by MuJoCo-C mj_kinematics from its qpos."""
    nom = nominal()
    with _LOCK:
        if "mjdata" not in _CACHE:
            _CACHE["mjdata"] = mujoco.MjData(nom.mj)
        d = _CACHE["mjdata"]
        qpos = np.asarray(state.sim_state.qpos, dtype=np.float64)
        if qpos.shape != d.qpos.shape or not np.all(np.isfinite(qpos)):
            return [(f"{P}/{clause}/kinematics/qpos-invalid", f"qpos shape {qpos.shape} / non-finite")]
        d.qpos[:] = qpos
        mujoco.mj_kinematics(nom.mj, d)
        ref = {f: np.array(getattr(d, f), dtype=np.float64) for f in KIN_FIELDS}
    fails = []
    for f in KIN_FIELDS:
        got = np.asarray(getattr(state.sim_state, f), dtype=np.float64).reshape(ref[f].shape)
        r = ref[f]
        if f == "xquat":  # q and -q are the same rotation
            sgn = np.sign(np.sum(got * r, axis=-1, keepdims=True))
            sgn[sgn == 0] = 1.0
            got = got * sgn
        err = np.abs(got - r)
        if np.all(np.isfinite(err)):
            _STATS["kin_max"] = max(_STATS.get("kin_max", 0.0), float(err.max()))
        if not np.all(err <= KIN_TOL):
            idx = np.unravel_index(int(np.nanargmax(np.where(np.isnan(err), np.inf, err))), err.shape)
            fails.append((f"{P}/{clause}/kinematics/{f}-inconsistent-with-qpos", f"stored {f}{list(idx)} = {got[idx]:.6f}, mj_kinematics(qpos) gives {r[idx]:.6f} (max |diff| {float(np.nanmax(err)):.3g}; qpos[2]={qpos[2]:.5f})"))
    return fails


# ------------------------------------------------------------------------------------------
# clause: initial
# ------------------------------------------------------------------------------------------
def initial_failures(task, kwargs, key, state, clause, ctx) -> list:
    nom = nominal()
    fails = model_diff(state.model, nom.leaves, nom.treedef, ref_ranges(kwargs), clause, ctx)
    cmd = np.asarray(state.command)
    fails += command_failures(task, kwargs, cmd, clause)
    fq = float(np.asarray(state.gait_frequency))
    if task == "locomotion":
        lo, hi = ref_command(kwargs)["gait_frequency_range"]
        if outside(fq, lo, hi):
            fails.append((f"{P}/{clause}/frequency/out-of-range", f"gait frequency {fq:.6f} outside [{lo}, {hi}]"))
    elif not np.isfinite(fq):
        fails.append((f"{P}/{clause}/frequency/non-finite", f"gait frequency {fq}"))
    fails += phase_state_failures(state.gait_phase, clause, "initial state")
    fails += kinematics_failures(state, clause)
    if ctx is not None:
        ctx.guard("command-zero", int(np.all(cmd == 0)))
        ctx.guard("command-nonzero", int(np.any(cmd != 0)))
    return fails


def clause_initial(cases, ctx: Ctx):
    """case: {task, kwargs, key}."""
    out = []
    for i, c in enumerate(cases):
        _, s = run_initial(c["task"], c["kwargs"], c["key"])
        for sig, msg in initial_failures(c["task"], c["kwargs"], c["key"], s, "initial", ctx):
            out.append((i, sig, f"{c['task']}({_kw(c['kwargs'])}).initial(key={c['key']}): {msg}"))
    return out


def _kw(kwargs):
    return ", ".join(f"{k}={v}" for k, v in kwargs.items()) if kwargs else "defaults"


def clause_varies(cases, ctx: Ctx):
    """case: {task, kwargs, keys}: randomised quantities must not be constant over the keys."""
    nom = nominal()
    out = []
    for i, c in enumerate(cases):
        rr, rc = ref_ranges(c["kwargs"]), ref_command(c["kwargs"])
        obs: dict[str, list] = {}
        for k in c["keys"]:
            _, s = run_initial(c["task"], c["kwargs"], k)
            m = s.model
            groups = {
                ("friction/foot-floor", "friction_range"): np.asarray(m.pair_friction)[nom.friction_target],
                ("frictionloss", "friction_loss_scale_range"): np.asarray(m.dof_frictionloss)[6:],
                ("armature", "armature_scale_range"): np.asarray(m.dof_armature)[6:],
                ("mass", "mass_scale_range"): np.delete(np.asarray(m.body_mass), nom.torso),
                ("mass/torso", "torso_offset_range"): np.asarray(m.body_mass)[nom.torso : nom.torso + 1],
            }
            if c["task"] == "locomotion":
                groups[("command", "lin_vel_x_range")] = np.asarray(s.command)
                groups[("frequency", "gait_frequency_range")] = np.asarray(s.gait_frequency).reshape(1)
            for (g, rk), v in groups.items():
                r = rr.get(rk) or rc.get(rk)
                if r[1] > r[0]:
                    obs.setdefault(g, []).append(np.asarray(v).tobytes())
        for g, vals in obs.items():
            if len(vals) >= 2 and len(set(vals)) < 2:
                out.append((i, f"{P}/varies/{g}/constant-across-keys", f"{c['task']}({_kw(c['kwargs'])}): {g} is identical for all {len(vals)} keys {c['keys'][:4]}.. although its configured range is not degenerate - not randomised"))
            else:
                ctx.guard(f"varies:{g}")
    return out


# ------------------------------------------------------------------------------------------
# clause: command (direct sample_command over a large key block)
# ------------------------------------------------------------------------------------------
def clause_command(cases, ctx: Ctx):
    """case: {task, kwargs, key}."""
    out = []
    groups: dict = {}
    for i, c in enumerate(cases):
        groups.setdefault((c["task"], chash(c["kwargs"])), []).append(i)
    for (_task, _), idxs in groups.items():
        c0 = cases[idxs[0]]
        env = get_env(c0["task"], c0["kwargs"])
        k = ("cmdfn", c0["task"])
        with _LOCK:
            if k not in _CACHE:
                _CACHE[k] = eqx.filter_jit(lambda e, ks: jax.vmap(lambda kk: e.sample_command(key=kk))(ks))
        keys = jax.vmap(jr.key)(jnp.asarray([cases[i]["key"] for i in idxs]))
        cmds = np.asarray(_CACHE[k](env, keys))
        for j, i in enumerate(idxs):
            for sig, msg in command_failures(c0["task"], c0["kwargs"], cmds[j], "command"):
                out.append((i, sig, f"{c0['task']}({_kw(c0['kwargs'])}).sample_command(key={cases[i]['key']}): {msg}"))
        z = np.all(cmds == 0, axis=1)
        ctx.guard("sample_command-zero", int(z.sum()))
        ctx.guard("sample_command-nonzero", int((~z).sum()))
    return out


# ------------------------------------------------------------------------------------------
# clauses: gait automaton
# ------------------------------------------------------------------------------------------
def _scan_fn(H: int):
    k = ("scan", H)
    with _LOCK:
        if k not in _CACHE:

            def one(f, dt):
                def step(p, _):
                    n = gait.advance_gait_phase(p, f, dt)
                    return n, n

                p0 = gait.initial_gait_phase()
                _, tr = lax.scan(step, p0, None, length=H)
                return jnp.concatenate([p0[None], tr], axis=0)

            _CACHE[k] = jax.jit(jax.vmap(one))
        return _CACHE[k]


def clause_gait_scan(cases, ctx: Ctx):
    """case: {f, dt, H}: H control steps from the initial phase, every step judged in float64."""
    out = []
    groups: dict = {}
    for i, c in enumerate(cases):
        groups.setdefault(c["H"], []).append(i)
    for H, idxs in groups.items():
        F = np.array([cases[i]["f"] for i in idxs], dtype=np.float32)
        D = np.array([cases[i]["dt"] for i in idxs], dtype=np.float32)
        tr = np.asarray(_scan_fn(H)(jnp.asarray(F), jnp.asarray(D))).astype(np.float64)  # (n, H+1, 2)
        inc = 2 * PI * F.astype(np.float64) * D.astype(np.float64)
        rng = np.abs(tr).max(axis=2)  # (n, H+1)
        anti = np.abs(wrap(tr[:, :, 1] - tr[:, :, 0] - PI))
        ierr = np.abs(wrap(np.diff(tr, axis=1) - inc[:, None, None])).max(axis=2)  # (n, H)
        ctx.notes["gait_scan_max_antiphase_error"] = max(float(anti.max()), ctx.notes.get("gait_scan_max_antiphase_error", 0.0))
        ctx.notes["gait_scan_max_increment_error"] = max(float(np.nanmax(ierr)), ctx.notes.get("gait_scan_max_increment_error", 0.0))
        ctx.transitions += int(ierr.size)
        ctx.guard("gait-wrapped", int(np.sum(np.diff(tr[:, :, 0], axis=1) < 0)))
        for j, i in enumerate(idxs):
            tag = f"f={cases[i]['f']} Hz dt={cases[i]['dt']} s"
            bad = ~(rng[j] <= PI + PHASE_TOL)
            if bad.any():
                t = int(np.argmax(bad))
                out.append((i, f"{P}/gait_scan/phase/out-of-[-pi,pi]", f"{tag}: after {t} steps phase = {tr[j, t].tolist()}"))
            bad = ~(anti[j] <= ANTI_TOL)
            if bad.any():
                t = int(np.argmax(bad))
                out.append((i, f"{P}/gait_scan/phase/not-half-cycle-apart", f"{tag}: after {t} steps phase = {tr[j, t].tolist()} (right-left-pi = {anti[j, t]:.3g} mod 2pi; max over run {anti[j].max():.3g})"))
            bad = ~(ierr[j] <= INC_TOL)
            if bad.any():
                t = int(np.argmax(bad))
                out.append((i, f"{P}/gait_scan/phase/wrong-increment", f"{tag}: step {t}->{t + 1}: {tr[j, t].tolist()} -> {tr[j, t + 1].tolist()}, expected advance 2*pi*f*dt = {inc[j]:.7f} (mod 2pi), error {ierr[j, t]:.3g}"))
    return out


def _orbit_fn():
    with _LOCK:
        if "orbit" not in _CACHE:

            @jax.jit
            def orbit(f, dt, cap):
                two_pi = jnp.float32(2 * np.pi)
                pi = jnp.float32(np.pi)
                inc = two_pi * f * dt

                def adv(p):
                    return gait.advance_gait_phase(p, f, dt)

                def dist(x):  # |x| modulo 2pi, for x > -9pi
                    return jnp.abs(jnp.fmod(x + 9 * pi, two_pi) - pi)

                def stats(p, q, st):
                    return (
                        jnp.maximum(st[0], jnp.max(jnp.abs(q))),
                        jnp.maximum(st[1], dist(q[1] - q[0] - pi)),
                        jnp.maximum(st[2], jnp.max(dist(q - p - inc))),
                        st[3] | jnp.any(jnp.isnan(q)),
                    )

                def cond(c):
                    return (~c[6]) & (c[4] < cap)

                def body(c):
                    tort, hare, power, lam, n, st, _ = c
                    move = power == lam
                    tort = jnp.where(move, hare, tort)
                    power = jnp.where(move, power * 2, power)
                    lam = jnp.where(move, 0, lam)
                    nh = adv(hare)
                    st = stats(hare, nh, st)
                    return (tort, nh, power, lam + 1, n + 1, st, jnp.all(nh == tort))

                p0 = gait.initial_gait_phase()
                z = jnp.float32(0)
                h1 = adv(p0)
                st0 = stats(p0, h1, (jnp.max(jnp.abs(p0)), dist(p0[1] - p0[0] - pi), z, jnp.any(jnp.isnan(p0))))
                c = (p0, h1, jnp.int32(1), jnp.int32(1), jnp.int32(1), st0, jnp.all(h1 == p0))
                _, _, _, lam, n, st, done = lax.while_loop(cond, body, c)
                return lam, n, st, done

            _CACHE["orbit"] = orbit
        return _CACHE["orbit"]


def _orbit_one(c):
    lam, n, st, done = _orbit_fn()(jnp.float32(c["f"]), jnp.float32(c["dt"]), jnp.int32(c["cap"]))
    return int(lam), int(n), [float(st[0]), float(st[1]), float(st[2])], bool(st[3]), bool(done)


def clause_gait_orbit(cases, ctx: Ctx):
    """case: {f, dt, cap}: Brent cycle detection on the real float32 phase update; the hare
    visits every state of the tail and of the cycle, so when the orbit closes within `cap`
    steps the invariants are decided for all histories at this (f, dt)."""
    out = []
    _orbit_fn()
    with cf.ThreadPoolExecutor(3) as ex:
        res = list(ex.map(_orbit_one, cases))
    for i, (c, (lam, n, st, nan, done)) in enumerate(zip(cases, res)):
        tag = f"f={c['f']} Hz dt={c['dt']} s, {n} steps, cycle length {lam if done else '>cap'}"
        ctx.states += n
        ctx.transitions += n
        ctx.guard("orbit-closed" if done else "orbit-open-at-cap")
        ctx.notes["gait_orbit_max_cycle_length"] = max(lam if done else 0, ctx.notes.get("gait_orbit_max_cycle_length", 0))
        ctx.notes["gait_orbit_max_steps"] = max(n, ctx.notes.get("gait_orbit_max_steps", 0))
        ctx.notes["gait_orbit_max_antiphase_error"] = max(st[1], ctx.notes.get("gait_orbit_max_antiphase_error", 0.0))
        if not done:
            ctx.notes.setdefault("gait_orbit_not_closed", []).append([c["f"], c["dt"]])
        if nan or not (st[0] <= PI + PHASE_TOL):
            out.append((i, f"{P}/gait_orbit/phase/out-of-[-pi,pi]", f"{tag}: max |phase| over the orbit = {st[0]:.7f}{' (NaN seen)' if nan else ''}"))
        if not (st[1] <= ANTI_TOL):
            out.append((i, f"{P}/gait_orbit/phase/not-half-cycle-apart", f"{tag}: max |right-left-pi| mod 2pi over the orbit = {st[1]:.3g}"))
        if not (st[2] <= INC_TOL):
            out.append((i, f"{P}/gait_orbit/phase/wrong-increment", f"{tag}: max |advance - 2*pi*f*dt| mod 2pi over the orbit = {st[2]:.3g}"))
    return out


# ------------------------------------------------------------------------------------------
# clause: foot height
# ------------------------------------------------------------------------------------------
def clause_foot(cases, ctx: Ctx):
    """case: {h, n, as_array}: desired_foot_height on an n-point phase grid over [-pi, pi]
    (left = grid phase, right = the half-cycle-shifted phase) plus the exact endpoints."""
    out = []
    with _LOCK:
        if "foot" not in _CACHE:
            _CACHE["foot"] = jax.jit(jax.vmap(gait.desired_foot_height, in_axes=(0, None)))
    for i, c in enumerate(cases):
        h = float(c["h"])
        pi32 = np.float32(np.pi)
        grid = np.linspace(-PI, PI, c["n"]).astype(np.float32)
        grid[0], grid[-1] = -pi32, pi32
        mid = (c["n"] - 1) // 2
        grid[mid] = 0.0
        extra = np.array([np.nextafter(-pi32, np.float32(0)), np.nextafter(np.float32(0), np.float32(-1)), np.nextafter(np.float32(0), np.float32(1)),
                          np.nextafter(pi32, np.float32(0))], dtype=np.float32)
        left = np.concatenate([grid, extra])
        right = wrap(left.astype(np.float64) + PI).astype(np.float32)
        ph = np.stack([left, right], axis=1)
        if c.get("default_height"):
            got = np.asarray(jax.vmap(gait.desired_foot_height)(jnp.asarray(ph))).astype(np.float64)
        else:
            got = np.asarray(_CACHE["foot"](jnp.asarray(ph), jnp.float32(h))).astype(np.float64)
        tol = 2e-6 * max(h, 1e-3)
        tag = f"swing height {h}{' (default argument)' if c.get('default_height') else ''}"
        phs = ph.astype(np.float64)
        bad = ~((got >= -tol) & (got <= h + tol))
        if bad.any():
            r, s = np.argwhere(bad)[0]
            out.append((i, f"{P}/foot/out-of-[0,h]", f"{tag}: desired_foot_height(phase={phs[r, s]:.6f}) = {got[r, s]:.7g}; {int(bad.sum())} grid points outside"))
        g = got[: c["n"], 0]
        if abs(g[0]) > tol:
            out.append((i, f"{P}/foot/nonzero-at-minus-pi", f"{tag}: height at phase -pi = {g[0]:.7g}"))
        if abs(g[-1]) > tol:
            out.append((i, f"{P}/foot/nonzero-at-plus-pi", f"{tag}: height at phase +pi (the same gait phase as -pi) = {g[-1]:.7g}"))
        if abs(g[mid] - h) > tol:
            out.append((i, f"{P}/foot/not-peaking-at-0", f"{tag}: height at phase 0 = {g[mid]:.7g}"))
        up, down = np.diff(g[: mid + 1]), np.diff(g[mid:])
        if np.any(up < -tol) or np.any(down > tol):
            t = int(np.argmax(np.concatenate([up < -tol, down > tol])))
            out.append((i, f"{P}/foot/not-rising-then-falling", f"{tag}: height is not non-decreasing on [-pi,0] and non-increasing on [0,pi] (near phase {float(grid[t]):.5f})"))
        ctx.guard("foot-strictly-inside", int(np.sum((got > tol) & (got < h - tol))))
    return out


# ------------------------------------------------------------------------------------------
# clause: transition
# ------------------------------------------------------------------------------------------
def action_for(name: str, t: int):
    if name == "zero":
        return np.zeros(29, dtype=np.float32)
    if name == "plus":
        return np.ones(29, dtype=np.float32)
    if name == "minus":
        return -np.ones(29, dtype=np.float32)
    if name == "alt":
        return ((-1.0) ** (np.arange(29) + t)).astype(np.float32)
    raise ValueError(name)


def _rollout(env, state, actions, keys):
    def step(st, x):
        nxt = env.transition(st, x[0], key=x[1])
        return nxt, (nxt.gait_phase, nxt.gait_frequency, nxt.sim_state.time)

    return lax.scan(step, state, (actions, keys))


_ROLLOUT = eqx.filter_jit(_rollout)


def run_rollout(env, s, f32, action: str, steps: int, key: int):
    """`steps` control steps of the real env.transition (lax.scan, as lerax's own collectors do)."""
    s = eqx.tree_at(lambda st: st.gait_frequency, s, jnp.asarray(f32))
    actions = jnp.asarray(np.stack([action_for(action, t) for t in range(steps)]))
    keys = jr.split(jr.key(key), steps)
    return _ROLLOUT(env, s, actions, keys)


def clause_transition(cases, ctx: Ctx):
    """case: {task, kwargs, key, action, steps, freq}: freq=None keeps the episode's own gait
    frequency; a number overrides state.gait_frequency on the initial state pytree."""
    out = []
    for i, c in enumerate(cases):
        env, s = run_initial(c["task"], c["kwargs"], c["key"])
        f32 = np.float32(np.asarray(s.gait_frequency)) if c.get("freq") is None else np.float32(c["freq"])
        f = float(f32)
        dt = 1.0 / float(c["kwargs"].get("control_frequency_hz", DEFAULT_CONTROL_HZ))
        inc = 2 * PI * f * dt
        tag = f"{c['task']}({_kw(c['kwargs'])}) key={c['key']} action={c['action']} f={f:.6f} Hz"
        fails = phase_state_failures(s.gait_phase, "transition", "initial state")
        t0 = float(np.asarray(s.sim_state.time))
        ph0 = np.asarray(s.gait_phase, dtype=np.float64)
        _, (phs, fqs, times) = run_rollout(env, s, f32, c["action"], c["steps"], c["key"])
        phs = np.asarray(phs, dtype=np.float64)
        fqs = np.asarray(fqs)
        times = np.asarray(times, dtype=np.float64)
        for t in range(c["steps"]):
            prev = ph0 if t == 0 else phs[t - 1]
            ph = phs[t]
            when = f"after control step {t + 1}"
            fails += phase_state_failures(ph, "transition", when)
            if ph.shape == (2,):
                e = float(np.max(np.abs(wrap(ph - prev - inc))))
                if not e <= INC_TOL:
                    adv = wrap(ph - prev)
                    ratio = float(adv[0] / inc) if inc else float("nan")
                    fails.append((f"{P}/transition/phase/wrong-increment", f"{when}: phase {prev.tolist()} -> {ph.tolist()}, advance {adv.tolist()} but 2*pi*f*dt = {inc:.7f} (dt = {dt} s control step; ratio {ratio:.4g})"))
            if fqs[t].astype(np.float32).tobytes() != f32.tobytes():
                fails.append((f"{P}/transition/frequency/changed-mid-episode", f"{when}: gait frequency {float(fqs[t])} != the episode's {f}"))
            el = times[t] - (t0 if t == 0 else times[t - 1])
            if not abs(el - dt) <= 1e-5:
                fails.append((f"{P}/transition/control-step-duration", f"{when}: physics time advanced {el:.6f} s in one control step, configured control step {dt} s"))
            ctx.transitions += 1
        ctx.traces += 1
        if inc != 0:
            ctx.guard("transition-nonzero-frequency")
        seen = set()
        for sig, msg in fails:
            if sig not in seen:
                seen.add(sig)
                out.append((i, sig, f"{tag}: {msg}"))
    return out


CLAUSES = {
    "randomize": clause_randomize,
    "initial": clause_initial,
    "varies": clause_varies,
    "command": clause_command,
    "gait_scan": clause_gait_scan,
    "gait_orbit": clause_gait_orbit,
    "foot": clause_foot,
    "transition": clause_transition,
}


# ------------------------------------------------------------------------------------------
# exploration
# ------------------------------------------------------------------------------------------
def _warm(task, kwargs_list, transition_kwargs, steps):
    """Compile initial for every configuration and transition for the listed ones (one thread per task).
    Errors are swallowed here: the clauses repeat the calls and report them properly."""
    try:
        _warm_inner(task, kwargs_list, transition_kwargs, steps)
    except Exception:  # noqa: BLE001
        pass


def _warm_inner(task, kwargs_list, transition_kwargs, steps):
    for kw in kwargs_list:
        env, s = run_initial(task, kw, 0)
        jax.block_until_ready(s.gait_phase)
        if any(kw == tk for tk in transition_kwargs):
            s2, _ = run_rollout(env, s, np.float32(np.asarray(s.gait_frequency)), "zero", steps, 0)
            jax.block_until_ready(s2.gait_phase)


def _tick(ctx, name, t0=[None]):
    import time

    now = time.time()
    if t0[0] is not None:
        ctx.notes.setdefault("phase_wall_s", {})[name] = round(now - t0[0], 1)
        if os.environ.get("C20_TIMING"):
            print(f"  [c20] {name}: {now - t0[0]:.1f}s", flush=True)
    t0[0] = now


def explore(ctx: Ctx):
    thorough = ctx.tier == "thorough"
    _tick(ctx, "start")
    nk_init = 48 if thorough else 12
    keys = key_ints(ctx.seed, nk_init)
    keys_direct = key_ints(ctx.seed, 64, salt=1)
    # a contiguous block of key integers disjoint from K (key_ints only yields blocks < 100)
    keys_cmd = [(ctx.seed * 100000 + 50000 + i) % (2**31 - 1) for i in range(4096 if thorough else 512)]  # int32: fed to jnp.asarray
    ctx.rule = (
        "randomize: {friction, friction_loss, armature, body_mass, model} x 4 range configurations (documented defaults, "
        "degenerate lo=hi, narrow, wide/disjoint) x input model {nominal, harness-perturbed 'previous episode'} x 64 keys, eager. "
        "initial/varies: 3 tasks x constructor configurations (defaults, all-ranges-disjoint alternative, thorough: degenerate) x key "
        "alphabet K, jitted once per (task, configuration). command: sample_command over a key block x 4 configurations. "
        "gait_scan: 20000 control steps x (41-point frequency grid on [0,3] Hz + range ends + sampled frequencies) x dt in {0.02,0.04}. "
        "gait_orbit (same frequency grid; quick: dt=0.02 + two dt=0.04 cases): the float32 phase automaton iterated from the initial phase until its orbit closes (Brent), i.e. ALL reachable "
        "states per (frequency, dt). foot: 2001/20001-point phase grid + float32 neighbours of -pi, 0, pi x swing heights. "
        "transition: 3 tasks x keys x actions {zero,+1,-1,alternating} x gait frequency {episode's own, overridden 0.7/1.5/2.9 Hz}, "
        "5 (thorough 25) control steps through the jitted env.transition. non-trivial = a case whose randomised quantity has a "
        "non-degenerate range / a gait case with non-zero frequency / a foot grid"
    )
    ctx.assumptions = [
        f"'for every key' decided on the finite key alphabet K={nk_init} (initial), 64 (direct randomisers), {len(keys_cmd)} (sample_command)",
        "'the randomised contact friction' = sliding friction (pair_friction[:,0:2]) of the contact pairs named left_foot_floor/right_foot_floor, as lerax's randomize_friction docstring says; friction_range is an absolute coefficient range, the three scale ranges multiply the nominal values, torso_offset_range adds to the scaled torso mass",
        "nominal model = mjx.put_model(MjModel.from_xml_path(<assets>/scene_mjx.xml)) loaded by the harness; 'every other parameter equals nominal' is bitwise equality of all 124 array leaves plus pytree structure",
        "derived kinematics = MuJoCo-C mj_kinematics(qpos) fields xpos,xquat,xmat,xipos,ximat,geom_*,site_*,xanchor,xaxis, tolerance 2e-4 (float32 MJX vs float64 C); velocity- and mass-dependent derived quantities are not compared",
        "phase arithmetic is float32: range tolerance 1e-6 (float32(pi) > pi by 8.7e-8), half-cycle tolerance 1e-3 (measured drift is reported in the notes), per-step advance tolerance 1e-5, all modulo 2*pi",
        "gait frequencies >= 0 only (grid [0,3] Hz, dt in {0.02, 0.04}); gait_orbit decides arbitrarily long histories only for the enumerated (frequency, dt) pairs whose orbit closes below the cap",
        "the standing tasks' gait frequency is not pinned (the statement gives it no range) beyond being finite; their command must be exactly zero",
        "a zero velocity command is accepted for locomotion when zero_command_probability > 0 even if zero lies outside the configured ranges",
        "desired foot height: [0,h], 0 at -pi and +pi, h at 0, rising on [-pi,0] and falling on [0,pi] ('peaking at phase 0')",
        "transition: control step dt = 1/control_frequency_hz, cross-checked against the physics time elapsed in one env.transition",
    ]

    # ---- configurations ---------------------------------------------------------------
    cfgs = {
        "locomotion": [{}, CFG_ALT_LOC] + ([CFG_DEG_LOC] if thorough else []),
        "standing": [{}, CFG_ALT] + ([CFG_DEG] if thorough else []),
        "standup": [{}, CFG_ALT] + ([CFG_DEG] if thorough else []),
    }
    trans_cfgs = {"locomotion": [{}], "standing": [{}], "standup": [{}]}
    # a control step other than the default 0.02 s (quick: transition clause only, one key, two actions)
    slow = {"control_frequency_hz": 25.0}
    trans_cfgs["locomotion"].append(slow)
    if thorough:
        cfgs["locomotion"].append(slow)

    # compile everything MJX-heavy in the background (XLA compilation releases the GIL)
    pool = cf.ThreadPoolExecutor(3)
    steps = 25 if thorough else 5
    warm = [pool.submit(_warm, t, cfgs[t], trans_cfgs[t], steps) for t in TASKS]

    # ---- cheap clauses while the compiles run ------------------------------------------
    cases = []
    for fn in ("friction", "friction_loss", "armature", "body_mass", "model"):
        for rname in DIRECT_RANGES:
            for inp in ("nominal", "perturbed"):
                for k in keys_direct:
                    cases.append({"fn": fn, "ranges": rname, "input": inp, "key": k})
                    if rname != "degenerate":
                        ctx.nontriv(("randomize", fn, rname, inp, k))
    ctx.run("randomize", cases)
    _tick(ctx, "randomize")

    foot = [{"h": h, "n": 20001 if thorough else 2001} for h in (0.05, 0.15, 0.3)] + [{"h": 0.15, "n": 2001, "default_height": True}]
    ctx.run("foot", foot)
    _tick(ctx, "foot")
    for c in foot:
        ctx.nontriv(("foot", c["h"], c["n"], bool(c.get("default_height"))))

    cmd_cfgs = [("locomotion", {}), ("locomotion", {k: v for k, v in CFG_ALT_LOC.items() if k in DEFAULT_COMMAND}),
                ("locomotion", {k: v for k, v in CFG_DEG_LOC.items() if k in DEFAULT_COMMAND}),
                ("locomotion", dict({k: v for k, v in CFG_ALT_LOC.items() if k in DEFAULT_COMMAND}, zero_command_probability=0.0)),
                ("standing", {}), ("standup", {})]
    cases = [{"task": t, "kwargs": kw, "key": k} for (t, kw) in cmd_cfgs for k in (keys_cmd if t == "locomotion" else keys_cmd[:64])]
    ctx.run("command", cases)
    _tick(ctx, "command")
    for c in cases:
        if c["task"] == "locomotion":
            ctx.nontriv(("command", chash(c["kwargs"]), c["key"]))

    freqs = sorted(set([round(x, 6) for x in np.linspace(0.0, 3.0, 41).tolist()] + [1.25, 1.5]))
    dts = [0.02, 0.04]
    H = 20000
    scan = [{"f": f, "dt": dt, "H": H} for f in freqs for dt in dts]
    ctx.run("gait_scan", scan)
    _tick(ctx, "gait_scan")
    for c in scan:
        if c["f"] > 0:
            ctx.nontriv(("scan", c["f"], c["dt"]))

    cap = 400_000_000 if thorough else 120_000_000
    orbit = [{"f": f, "dt": dt, "cap": cap} for f in freqs for dt in (dts if thorough else dts[:1])]
    if not thorough:
        orbit += [{"f": f, "dt": 0.04, "cap": cap} for f in (1.35, 2.925)]

    # ---- MJX-heavy clauses ------------------------------------------------------------
    for w in warm:
        w.result()
    pool.shutdown()
    _tick(ctx, "wait_compile")

    init_cases = [{"task": t, "kwargs": kw, "key": k} for t in TASKS for kw in cfgs[t] for k in keys]
    ctx.run("initial", init_cases)
    _tick(ctx, "initial")
    for c in init_cases:
        ctx.nontriv(("initial", c["task"], chash(c["kwargs"]), c["key"]))
    ctx.states += len(init_cases)
    ctx.run("varies", [{"task": t, "kwargs": kw, "keys": keys[: (12 if thorough else 6)]} for t in TASKS for kw in cfgs[t]])
    _tick(ctx, "varies")

    # frequencies actually sampled by locomotion episodes join the automaton's alphabet
    sampled = []
    for k in keys[:4]:
        _, s = run_initial("locomotion", {}, k)
        sampled.append(float(np.float32(np.asarray(s.gait_frequency))))
    extra_scan = [{"f": f, "dt": 0.02, "H": H} for f in sampled]
    ctx.run("gait_scan", extra_scan)
    orbit += [{"f": f, "dt": 0.02, "cap": cap} for f in sampled[: (4 if thorough else 2)]]
    ctx.run("gait_orbit", orbit)
    _tick(ctx, "gait_orbit")
    for c in orbit:
        if c["f"] > 0:
            ctx.nontriv(("orbit", c["f"], c["dt"]))

    tcases = []
    for t in TASKS:
        for kw in trans_cfgs[t]:
            for k in keys[: (4 if thorough else 2)]:
                for act in ("zero", "plus", "minus", "alt"):
                    fl = [None, 2.9] if not thorough else [None, 0.7, 1.5, 2.9]
                    if act in ("plus", "minus") and not thorough:
                        fl = [None] if t == "locomotion" else [1.5]
                    if kw and not thorough and (k != keys[0] or act in ("plus", "minus")):
                        continue
                    for fq in fl:
                        tcases.append({"task": t, "kwargs": kw, "key": k, "action": act, "steps": steps, "freq": fq})
    ctx.run("transition", tcases)
    _tick(ctx, "transition")
    for c in tcases:
        if c["freq"] is not None or c["task"] == "locomotion":
            ctx.nontriv(("transition", c["task"], chash(c["kwargs"]), c["key"], c["action"], c["freq"]))

    ctx.require(
        "frictionloss-differs-from-nominal", "armature-differs-from-nominal", "mass-differs-from-nominal",
        "command-zero", "command-nonzero", "sample_command-zero", "sample_command-nonzero",
        "gait-wrapped", "orbit-closed", "foot-strictly-inside", "transition-nonzero-frequency",
        "varies:frictionloss", "varies:armature", "varies:mass", "varies:mass/torso", "varies:command", "varies:frequency",
    )
    if ctx.guards.get("orbit-open-at-cap", 0):
        ctx.exhaustive = False
    ctx.notes["key_alphabet_initial"] = keys
    ctx.notes["gait_frequencies"] = freqs
    ctx.notes["sampled_frequencies"] = sampled
    ctx.notes["configurations"] = {t: [_kw(kw) for kw in v] for t, v in cfgs.items()}
    ctx.notes["friction_target"] = FRICTION_TARGET
    ctx.notes["kinematics_max_abs_error_vs_mujoco_c"] = _STATS.get("kin_max")
