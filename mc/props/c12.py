"""C12 - JAX transformations are transparent; parallel environments never mix.

(a) every built-in environment (and each single wrapper over classic control) : initial,
    transition, observation, reward, terminal, truncate, reset, step evaluated on a grid of
    (state, action, key) triples in three modes - eager (jax.disable_jit), jit, vmap over the
    whole grid and over every contiguous sub-batch of size 1..3 - plus repetition (bit-identical)
    and interleaving with an unrelated environment ("depends only on its explicit arguments");
(b) collection: the vmapped collect_rollout exactly as `iteration` performs it vs N separate
    single-environment collect_rollout calls on the i-th slice of the step state with the i-th
    key (differential), for scripted and real MLP policies, on- and off-policy algorithms; and
    the real `iteration` with N parallel environments whose every stream must be a valid run of
    the reference collector on its own (reusing C04's reference).
"""

from __future__ import annotations

import itertools

import equinox as eqx
import re

import jax
import numpy as np
from jax import numpy as jnp
from jax import random as jr

from lerax.callback import CallbackList

from mc import collect, learnx
from mc.core import Ctx, key_ints
from mc.policies import ScriptedAC, ScriptedQ

LEVEL = "model_checking"

CLASSIC = ["CartPole", "MountainCar", "ContinuousMountainCar", "Acrobot", "Pendulum"]
MUJOCO_QUICK = ["InvertedPendulum", "Reacher", "HalfCheetah", "Hopper"]
MUJOCO_ALL = ["Ant", "HalfCheetah", "Hopper", "Humanoid", "HumanoidStandup", "InvertedDoublePendulum", "InvertedPendulum", "Pusher", "Reacher", "Swimmer", "Walker2d"]
G1 = ["G1Locomotion", "G1Standing", "G1Standup"]
CONTACT_RICH = {"Ant", "Humanoid", "HumanoidStandup", "Walker2d", "G1Locomotion", "G1Standing", "G1Standup"}
WRAPPERS = ["none", "TimeLimit", "ClipAction", "RescaleAction", "ClipObservation", "FlattenObservation", "ClipReward", "Identity"]


def make_env(name, wrapper="none"):
    from lerax import wrapper as W

    if name == "TabPlainDict":
        from mc.mdp import TabEnv

        env = TabEnv(np.asarray([[1, 2], [2, 0], [0, 1]]), [False, False, False], [True, True, False], obs_kind="plaindict")
    elif name in CLASSIC:
        from lerax.env import classic_control as cc

        env = getattr(cc, name)()
    elif name in MUJOCO_ALL:
        from lerax.env import mujoco as mj

        env = getattr(mj, name)()
    else:
        from lerax.env.unitree import g1

        env = getattr(g1, name)()
    if wrapper == "TimeLimit":
        env = W.TimeLimit(env, 2)
    elif wrapper == "ClipAction":
        env = W.ClipAction(env)
    elif wrapper == "RescaleAction":
        env = W.RescaleAction(env, jnp.asarray(0.0), jnp.asarray(2.0))
    elif wrapper == "ClipObservation":
        env = W.ClipObservation(env)
    elif wrapper == "FlattenObservation":
        env = W.FlattenObservation(env)
    elif wrapper == "ClipReward":
        env = W.ClipReward(env, -0.5, 0.5)
    elif wrapper == "Identity":
        env = W.Identity(env)
    return env


def wrapper_ok(name, wrapper):
    from lerax.space import Box

    if wrapper in ("ClipAction", "RescaleAction"):
        return name in ("Pendulum", "ContinuousMountainCar")
    return True


def corner_actions(space):
    from lerax.space import Box, Discrete

    if isinstance(space, Discrete):
        return [jnp.asarray(a, dtype=int) for a in range(space.n)]
    lo, hi = np.asarray(space.low, dtype=np.float32), np.asarray(space.high, dtype=np.float32)
    lo = np.where(np.isfinite(lo), lo, -1.0)
    hi = np.where(np.isfinite(hi), hi, 1.0)
    alt = np.where(np.arange(lo.size).reshape(lo.shape) % 2 == 0, lo, hi)
    return [jnp.asarray(x, dtype=float) for x in (lo, hi, np.zeros_like(lo), alt)]


def all_fns(env):
    """one function evaluating every component on (state, action, key)"""

    def f(state, action, key):
        nxt = env.transition(state, action, key=key)
        return dict(
            transition=nxt, observation=env.observation(state, key=key), reward=env.reward(state, action, nxt, key=key),
            terminal=env.terminal(nxt, key=key), truncate=env.truncate(nxt), step=env.step(state, action, key=key)[:5],
        )

    return f


# outputs of MJX's iterative constraint solver (and quantities derived from the constraint forces): ill-conditioned in the contact
# forces, so float32 reassociation between the vmapped and un-vmapped program shows up at the 1e-1 level there (measured on
# G1Standing.initial: qfrc_constraint 4 %, force sensors 10 %) while positions, velocities, observations and rewards agree
SOLVER_LEAVES = re.compile(r"\.(qacc|qacc_warmstart|qfrc_constraint|efc_\w+|cacc|cfrc_int|cfrc_ext|sensordata)$")


POSITION_LEAVES = re.compile(r"\.(qpos|time)$")


def tree_close(a, b, tol, elementwise=False, skip=None, keep=None):
    """float leaves: |x-y| <= tol*max(|y|, leaf scale) (heavy simulators) or, elementwise, tol*|y| + 0.1*tol*leaf scale
    (so quantities that are small compared with their leaf - e.g. MountainCar's velocity - are still compared relatively).
    skip: regex on the leaf path; matching leaves are compared for shape only.  keep: only matching float leaves are compared numerically."""
    pa, lb = jax.tree_util.tree_flatten_with_path(a)[0], jax.tree.leaves(b)
    if len(pa) != len(lb):
        return False, "different structure"
    worst = 0.0
    for (path, x), y in zip(pa, lb):
        if (skip is not None and skip.search(jax.tree_util.keystr(path))) or (keep is not None and np.asarray(x).dtype.kind == "f" and not keep.search(jax.tree_util.keystr(path))):
            if np.shape(x) != np.shape(y):
                return False, f"shape {np.shape(x)} vs {np.shape(y)}"
            continue
        x, y = np.asarray(x), np.asarray(y)
        if x.shape != y.shape:
            return False, f"shape {x.shape} vs {y.shape}"
        if x.dtype.kind in "biu":
            if not np.array_equal(x, y):
                return False, "integer/bool leaf differs"
        else:
            nan = np.isnan(x) | np.isnan(y)
            if not np.array_equal(np.isnan(x), np.isnan(y)):
                return False, "NaN pattern differs"
            xx, yy = np.where(nan, 0, x).astype(np.float64), np.where(nan, 0, y).astype(np.float64)
            scale = max(float(np.abs(yy).max()) if yy.size else 0.0, 1e-6)
            bound = (tol * np.abs(yy) + 0.1 * tol * scale) if elementwise else tol * np.maximum(np.abs(yy), max(scale, 1.0))
            d = np.abs(xx - yy) / bound
            worst = max(worst, float(d.max()) if d.size else 0.0)
    return worst <= 1.0, f"max difference = {worst:.3g} x tolerance"


def all_fns_given_successor(env):
    """contact-rich MJX simulators: one control step runs several sub-steps of an iterative contact solver, through which float32
    reassociation differences between two compilations of the same program grow to the percent level in the velocities (measured:
    G1Standup qvel 3 %, qpos 0.3 %).  lerax's own functions are therefore evaluated on IDENTICAL inputs - the successor is passed in -
    and compared tightly; the simulator step itself is compared on position-level leaves only."""

    def f(state_and_successor, action, key):
        state, nxt = state_and_successor
        return dict(
            transition=env.transition(state, action, key=key), observation=env.observation(state, key=key), reward=env.reward(state, action, nxt, key=key),
            terminal=env.terminal(nxt, key=key), truncate=env.truncate(nxt), successor_observation=env.observation(nxt, key=key),
        )

    return f


def tree_bits_equal(a, b):
    la, lb = jax.tree.leaves(a), jax.tree.leaves(b)
    return len(la) == len(lb) and all(np.asarray(x).tobytes() == np.asarray(y).tobytes() for x, y in zip(la, lb))


def clause_envmodes(cases, ctx: Ctx):
    """case: {env, wrapper, keys, depth, eager: 'all'|'cheap'|'none'}"""
    out = []
    for ci, c in enumerate(cases):
        name, wrapper = c["env"], c["wrapper"]
        env = make_env(name, wrapper)
        heavy = name not in CLASSIC and name != "TabPlainDict"
        # contact-rich simulators amplify float32 reassociation differences between the vmapped and the un-vmapped
        # program within one control step (several solver sub-steps through changing contact sets): looser bound there
        tol = 2e-2 if name in CONTACT_RICH else 1e-4
        rich = name in CONTACT_RICH

        def close(a, b):
            if not rich:
                return tree_close(a, b, tol, elementwise=not heavy)
            if isinstance(a, dict) and "transition" in a:
                ok, why = tree_close(a["transition"], b["transition"], 2e-2, keep=POSITION_LEAVES)
                if not ok:
                    return ok, "simulator step, position-level leaves: " + why
                ka = [k for k in a if k != "transition"]
                return tree_close({k: a[k] for k in ka}, {k: b[k] for k in ka}, 1e-4)
            if isinstance(a, dict):
                return tree_close(a, b, 1e-4)
            return tree_close(a, b, tol, skip=SOLVER_LEAVES)  # initial states

        desc = f"{name}/{wrapper}"
        keys = [jr.key(k) for k in c["keys"]]
        acts = corner_actions(env.action_space)
        f = all_fns_given_successor(env) if rich else all_fns(env)
        trans_jit = eqx.filter_jit(lambda s, a, k: env.transition(s, a, key=k))
        f_jit = eqx.filter_jit(f)
        f_vmap = eqx.filter_jit(lambda s, a, k: jax.vmap(f)(s, a, k))
        init_jit = eqx.filter_jit(lambda k: env.initial(key=k))
        init_vmap = eqx.filter_jit(lambda ks: jax.vmap(lambda k: env.initial(key=k))(ks))
        reset_jit = eqx.filter_jit(lambda k: env.reset(key=k))
        # grid: reset states of K and their successors under the corner actions to the given depth
        states = [init_jit(k) for k in keys]
        triples = []
        frontier = list(states)
        for d in range(c["depth"] + 1):
            nxt = []
            for si, s in enumerate(frontier):
                for ai, a in enumerate(acts):
                    k = jr.fold_in(keys[si % len(keys)], d * 100 + ai)
                    succ = trans_jit(s, a, k) if rich else None
                    triples.append(((s, succ), a, k) if rich else (s, a, k))
                    if d < c["depth"] and len(nxt) < 6:
                        nxt.append(succ if rich else f_jit(s, a, k)["transition"])
            frontier = nxt
        triples = triples[: c.get("max_triples", 24)]
        stack = lambda xs: jax.tree.map(lambda *l: jnp.stack(l), *xs)
        S, A, Kk = stack([t[0] for t in triples]), stack([t[1] for t in triples]), stack([t[2] for t in triples])
        jit_out = [f_jit(*t) for t in triples]
        ctx.transitions += len(triples)
        # vmap over the whole grid
        vm = f_vmap(S, A, Kk)
        for i, jo in enumerate(jit_out):
            ok, why = close(jax.tree.map(lambda x: x[i], vm), jo)
            if not ok:
                out.append((ci, f"C12/envmodes/vmap-vs-jit", f"{desc}: triple {i} (action {np.asarray(triples[i][1]).tolist()}): vmapped result differs from the jitted one: {why}"))
                break
        # every contiguous sub-batch of size 1..3 (first positions only for heavy envs)
        n = len(triples)
        for size in (1, 2, 3):
            for lo in (range(0, n - size + 1) if not heavy else (0, n - size)):
                sub = f_vmap(*(jax.tree.map(lambda x: x[lo : lo + size], t) for t in (S, A, Kk)))
                ok, why = close(sub, jax.tree.map(lambda x: x[lo : lo + size], vm))
                if not ok:
                    out.append((ci, "C12/envmodes/batch-size-dependence", f"{desc}: sub-batch [{lo}:{lo + size}] differs from the same rows of the full batch: {why}"))
                    break
        # repetition and interleaving with an unrelated environment: bit-identical
        other = make_env("CartPole" if name != "CartPole" else "Pendulum")
        os_ = other.initial(key=jr.key(5))
        other.step(os_, corner_actions(other.action_space)[0], key=jr.key(6))
        again = [f_jit(*t) for t in triples[:6]]
        for i, (a1, a2) in enumerate(zip(again, jit_out)):
            if not tree_bits_equal(a1, a2):
                out.append((ci, "C12/envmodes/not-a-function-of-its-arguments", f"{desc}: the same call (triple {i}) gave different results before and after stepping an unrelated environment"))
                break
        # eager
        if c["eager"] != "none":
            with jax.disable_jit():
                for i, t in enumerate(triples[: (len(triples) if c["eager"] == "all" else 1)]):
                    if c["eager"] == "all" or not heavy:
                        eo = f(*t)
                    else:
                        s, a, k = t
                        s, nxt = s if rich else (s, jit_out[i]["transition"])
                        eo = dict(observation=env.observation(s, key=k), reward=env.reward(s, a, nxt, key=k), terminal=env.terminal(nxt, key=k), truncate=env.truncate(nxt))
                    ok, why = close(eo, {kk: jit_out[i][kk] for kk in eo})
                    if not ok:
                        out.append((ci, "C12/envmodes/eager-vs-jit", f"{desc}: triple {i}: eager result differs from the jitted one: {why}"))
                        break
        # a fresh trace at the end must reproduce the first compilation bit for bit (no trace-time Python state)
        f_jit2 = eqx.filter_jit((all_fns_given_successor if rich else all_fns)(make_env(name, wrapper)))
        for i in ((0, len(triples) - 1) if heavy else range(len(triples))):
            if not tree_bits_equal(f_jit2(*triples[i]), jit_out[i]):
                out.append((ci, "C12/envmodes/retrace-differs", f"{desc}: re-tracing the same functions at the end of the exploration gives different results for triple {i}"))
                break
        if c["eager"] == "all":
            with jax.disable_jit():
                e_first, e_last = f(*triples[0]), None
                for _ in range(3):
                    e_last = f(*triples[0])
            if not tree_bits_equal(e_first, e_last):
                out.append((ci, "C12/envmodes/eager-call-count-dependence", f"{desc}: the same eager call repeated gives different results"))
        # initial / reset: vmapped vs individual
        iv = init_vmap(stack(keys))
        for i, k in enumerate(keys):
            ok, why = close(jax.tree.map(lambda x: x[i], iv), states[i])
            if not ok:
                out.append((ci, "C12/envmodes/initial-vmap-vs-jit", f"{desc}: initial(key {c['keys'][i]}) differs between vmap and jit: {why}"))
                break
        r1, r2 = reset_jit(keys[0]), reset_jit(keys[0])
        if not tree_bits_equal(r1[:2], r2[:2]):
            out.append((ci, "C12/envmodes/reset-not-deterministic", f"{desc}: reset with the same key gave different results"))
        ctx.states += len(triples)
        if heavy:
            jax.clear_caches()  # MJX / G1 executables are large: keep the worker's memory bounded
    return out


# ---------------------------------------------------------------------------------------
# (b) collection
# ---------------------------------------------------------------------------------------
_CD: dict = {}


def clause_collect_diff(cases, ctx: Ctx):
    """case: C04-style table + {algo, policy: 'scripted'|'mlp', script, num_envs, num_steps, key}"""
    out = []
    for ci, c in enumerate(cases):
        N, Tn, name = c["num_envs"], c["num_steps"], c["algo"]
        env = collect.build_env(c)
        cb = CallbackList(callbacks=[])
        if name in ("PPO", "A2C"):
            algo = learnx.make_algo(name, N, Tn)
            pol = ScriptedAC(env, np.asarray(c["script"])) if c["policy"] == "scripted" else learnx.make_policy("ac", env, 3)
        elif name == "DQN":
            algo = learnx.make_algo("DQN", N, Tn, buffer_size=8 * N, learning_starts=1)
            pol = ScriptedQ(env, np.asarray(c["script"])) if c["policy"] == "scripted" else learnx.make_policy("q", env, 3, epsilon=0.5)
        else:
            algo = learnx.make_algo("SAC", N, Tn, buffer_size=8 * N, learning_starts=1)
            pol = learnx.make_policy("sac", env, 3, width_size=8, depth=1)
        sk = (name, c["policy"], N, Tn, c["S"], c["A"], c["act_kind"], c["obs_kind"], bool(c.get("tl")), len(c["script"]))
        if sk not in _CD:
            _CD[sk] = (
                eqx.filter_jit(lambda e, p, k, algo=algo: algo.reset(e, p, key=k, callback=cb)),
                eqx.filter_jit(lambda e, p, ss, ks, algo=algo: eqx.filter_vmap(algo.collect_rollout, in_axes=(None, None, eqx.if_array(0), None, 0))(e, p, ss, cb, ks)),
                eqx.filter_jit(lambda e, p, ss, k, algo=algo: algo.collect_rollout(e, p, ss, cb, k)),
            )
        reset_j, both_j, one_j = _CD[sk]
        st = reset_j(env, pol, jr.key(c["key"]))
        keys = jr.split(jr.key(c["key"] + 1), N)
        both = lambda ss, ks: both_j(env, pol, ss, ks)
        one = lambda ss, k: one_j(env, pol, ss, k)
        vm = both(st.step_state, keys)
        desc = f"{name} policy={c['policy']} N={N} steps={Tn} act={c['act_kind']} tl={c.get('tl')} term={c['term']} init={c['init']} key={c['key']}"
        starts = set()
        for i in range(N):
            si = jax.tree.map(lambda x: x[i], eqx.filter(st.step_state, eqx.is_array))
            si = eqx.combine(si, eqx.filter(st.step_state, eqx.is_array, inverse=True))
            ind = one(si, keys[i])
            ok, why = tree_close(jax.tree.map(lambda x: x[i], eqx.filter(vm, eqx.is_array)), eqx.filter(ind, eqx.is_array), 1e-6)
            if not ok:
                out.append((ci, "C12/collect/vmapped-differs-from-independent", f"{desc}: environment {i}: the slice of the vmapped collection differs from the independent single-environment collection: {why}"))
                break
            starts.add(tuple(np.asarray(x).tobytes() for x in jax.tree.leaves(si.env_state)))
        ctx.guard("collect-envs-start-differently", int(len(starts) > 1))
        ctx.transitions += N * Tn
        ctx.traces += N
    return out


def clause_streams(cases, ctx: Ctx):
    """the real iteration with N parallel environments: every stream is a valid run of the reference collector"""
    from mc.props.c04 import clause_collect

    return [(i, s.replace("C04/", "C12/stream/"), m) for (i, s, m) in clause_collect(cases, ctx)]


_PATHS: dict = {}


def clause_iteration_paths(cases, ctx: Ctx):
    """The real `iteration` of an off-policy learner with N parallel environments vs the real `iteration` with ONE
    environment, made comparable without knowing any key derivation: greedy (epsilon = 0) MLP Q-policy on a tabular MDP
    with a single initial state, so a collection is a function of (networks, start state) only.  Before every iteration
    the single-environment run is given the N-run's current networks (online AND target) and environment 0's start
    state; afterwards the rows environment 0 stored in this iteration must equal the rows the single run stored.
    case: {table, N, num_steps, n_iter, interval, lr, policy_key, key}"""
    from lerax.algorithm import DQN

    out = []
    for ci, c in enumerate(cases):
        N, Tn = c["N"], c["num_steps"]
        env = collect.build_env(c)
        pol = learnx.make_policy("q", env, c["policy_key"], epsilon=0.0)
        sk = (N, Tn, c["interval"], c["lr"], c["S"], c["A"], bool(c.get("tl")))
        if sk not in _PATHS:
            cb = CallbackList(callbacks=[])
            mk = lambda n: DQN(buffer_size=64 * n, learning_starts=2, num_envs=n, num_steps=Tn, batch_size=4, target_update_interval=c["interval"], learning_rate=c["lr"], gamma=0.9)
            aN, a1 = mk(N), mk(1)
            _PATHS[sk] = (
                eqx.filter_jit(lambda e, p, k, aN=aN: aN.reset(e, p, key=k, callback=cb)), eqx.filter_jit(lambda st, k, aN=aN: aN.iteration(st, key=k, callback=cb)),
                eqx.filter_jit(lambda e, p, k, a1=a1: a1.reset(e, p, key=k, callback=cb)), eqx.filter_jit(lambda st, k, a1=a1: a1.iteration(st, key=k, callback=cb)),
            )
        resetN, itN, reset1, it1 = _PATHS[sk]
        stN = resetN(env, pol, jr.key(c["key"]))
        st1 = reset1(env, pol, jr.key(c["key"] + 1))
        desc = f"DQN N={N} num_steps={Tn} target_update_interval={c['interval']} lr={c['lr']} T={c['T']} term={c['term']} tl={c.get('tl')} policy key {c['policy_key']}"
        S = c["S"]
        all_obs = jnp.eye(S) if c["obs_kind"] == "onehot" else jnp.arange(S)
        greedy = lambda p: tuple(int(jnp.argmax(p.q_values(None, o)[1])) for o in all_obs)
        for n in range(c["n_iter"]):
            # same networks, same start state for environment 0 and the single-environment run
            env0 = jax.tree.map(lambda x: x[0], stN.step_state.env_state)
            st1 = eqx.tree_at(lambda s: (s.policy, s.target_policy, s.step_state.env_state), st1, (stN.policy, stN.target_policy, env0))
            differs = greedy(stN.policy) != greedy(stN.target_policy)
            ctx.guard("paths-online-target-greedy-actions-differ", int(differs))
            posN = int(np.asarray(stN.step_state.buffer.position)[0])
            pos1 = int(np.asarray(st1.step_state.buffer.position))
            stN = itN(stN, jr.key(c["key"] * 100 + n))
            st1 = it1(st1, jr.key(c["key"] * 100 + 50 + n))
            bN, b1 = stN.step_state.buffer, st1.step_state.buffer
            CN, C1 = bN.rewards.shape[-1], b1.rewards.shape[-1]
            for j in range(Tn):
                rowN = [np.asarray(x)[0, (posN + j) % CN] for x in (bN.observations, bN.actions, bN.rewards, bN.dones, bN.next_observations)]
                row1 = [np.asarray(x)[(pos1 + j) % C1] for x in (b1.observations, b1.actions, b1.rewards, b1.dones, b1.next_observations)]
                if not all(np.array_equal(a, b) for a, b in zip(rowN, row1)):
                    out.append((ci, "C12/iteration/parallel-path-differs-from-single-environment-path",
                                f"{desc}: iteration {n + 1}, step {j}: environment 0 of the {N}-environment iteration stored (obs, action, reward, done, next obs) = {[np.asarray(x).tolist() for x in rowN]}, the single-environment iteration from the same networks and start state stored {[np.asarray(x).tolist() for x in row1]}"
                                + (" [online and target networks currently choose different greedy actions]" if differs else "")))
                    break
            else:
                ctx.transitions += Tn
                continue
            break
        ctx.traces += 1
    return out


_KS: dict = {}


def clause_key_sharing(cases, ctx: Ctx):
    """Per-environment randomness through the real reset() + iteration(): all N environments start in the SAME state of a
    single-initial-state MDP and act with a stochastic policy, so their streams can only differ through their keys.  With
    per-environment keys some explored key separates every pair of environments; if, for EVERY explored key, two
    environments produce the identical action stream (in the warm-up rows written by reset(), or in the rows written by
    iteration()), they were driven by one shared key.  (A false alarm would need the stochastic policy to draw identical
    streams under all keys: probability < 2^-40 for the sizes used.)
    case: {algo, N, num_steps, learning_starts, keys, table}"""
    out = []
    for ci, c in enumerate(cases):
        name, N, Tn, LS = c["algo"], c["N"], c["num_steps"], c["learning_starts"]
        env = collect.build_env(c)
        cb = CallbackList(callbacks=[])
        sk = (name, N, Tn, LS, c["act_kind"])
        if sk not in _KS:
            if name in ("PPO", "A2C", "REINFORCE"):
                algo = collect.make_algo(name, N, Tn, 0.9, 0.8)
            elif name == "DQN":
                algo = learnx.make_algo("DQN", N, Tn, buffer_size=64 * N, learning_starts=LS)
            else:
                algo = learnx.make_algo("SAC", N, Tn, buffer_size=64 * N, learning_starts=LS)
            _KS[sk] = (eqx.filter_jit(lambda e, p, k, algo=algo: algo.reset(e, p, key=k, callback=cb)),
                       eqx.filter_jit(lambda st, k, algo=algo: algo.iteration(st, key=k, callback=cb)))
        reset_j, it_j = _KS[sk]
        if name in ("PPO", "A2C", "REINFORCE"):
            pol = learnx.make_policy("ac", env, 5)
        elif name == "DQN":
            pol = learnx.make_policy("q", env, 5, epsilon=1.0)
        else:
            pol = learnx.make_policy("sac", env, 5, width_size=8, depth=1)
        same = {"warm-up": np.ones((N, N), bool), "iteration": np.ones((N, N), bool)}
        for k in c["keys"]:
            st = reset_j(env, pol, jr.key(k))
            st1 = it_j(st, jr.key(k + 1000))
            if name in ("PPO", "A2C", "REINFORCE"):
                acts = {"iteration": np.asarray(st1.policy.actions).reshape(N, Tn, -1)}
            else:
                a = np.asarray(st1.step_state.buffer.actions).reshape(N, 64, -1)
                acts = {"warm-up": a[:, :LS], "iteration": a[:, LS:LS + Tn]}
            for ph, arr in acts.items():
                for i in range(N):
                    for j in range(N):
                        same[ph][i, j] &= bool(np.array_equal(arr[i], arr[j]))
            ctx.transitions += N * (Tn + LS)
        for ph in (("iteration",) if name in ("PPO", "A2C", "REINFORCE") else ("warm-up", "iteration")):
            pairs = [(i, j) for i in range(N) for j in range(i + 1, N) if same[ph][i, j]]
            ctx.guard(f"keys-{ph}-separated", int(not pairs))
            if pairs:
                out.append((ci, f"C12/keys/environments-share-randomness/{name}/{ph}",
                            f"{name} num_envs={N} num_steps={Tn} learning_starts={LS}: environments {pairs} started in the same state and produced the identical {ph} action "
                            f"stream under every one of the keys {c['keys']} (stochastic policy): they are driven by one shared key, not by per-environment keys"))
        ctx.traces += len(c["keys"])
    return out


CLAUSES = {"envmodes": clause_envmodes, "collect_diff": clause_collect_diff, "streams": clause_streams, "iteration_paths": clause_iteration_paths,
           "key_sharing": clause_key_sharing}


def explore(ctx: Ctx):
    from mc.props.c04 import family, scripts_full

    thorough = ctx.tier == "thorough"
    keys = key_ints(ctx.seed, 3)
    ctx.rule = (
        "(a) for every built-in environment (quick: 5 classic + 4 MuJoCo; thorough: all 19) and every single wrapper over "
        "classic control: all components on a grid of (state, action, key) triples (reset states of K and successors under corner "
        "actions) in eager / jit / vmap (whole grid and every contiguous sub-batch of size 1..3), repetition and interleaving; "
        "(b) vmapped collect_rollout vs N independent single-environment collections for all shaped 3-state MDPs x scripts x N in "
        "{2,3,4} x PPO/A2C/DQN/SAC with scripted and MLP policies, plus per-stream reference validation of the real iteration. "
        "non-trivial = an env/wrapper grid, or a collection in which environments start in different states"
    )
    ctx.assumptions = [f"key alphabet K = {keys}", "mode agreement: classic control |x-y| <= 1e-4*|y| + 1e-5*leaf scale elementwise; MJX 1e-4*max(|y|, leaf scale, 1); for the contact-rich Ant/Humanoid/HumanoidStandup/Walker2d/G1 (iterative contact solver: reassociation differences grow to the percent level in velocities within one control step) lerax's own functions (observation, reward, terminal, truncate) are compared at 1e-4 on identical inputs (successor passed in), the simulator step on position-level leaves at 2e-2, initial states at 2e-2 without solver outputs; discrete outputs exact; repetition and re-tracing bit-identical",
                       "GymToLeraxEnv excluded from vmap (documented)"]
    ctx.accept_unreproduced |= {"C12/envmodes/retrace-differs", "C12/envmodes/not-a-function-of-its-arguments", "C12/envmodes/eager-call-count-dependence"}
    envc = []
    for name in CLASSIC:
        for w in WRAPPERS:
            if wrapper_ok(name, w) and (thorough or w in ("none", "TimeLimit") or name in ("Pendulum", "CartPole")):
                envc.append(dict(env=name, wrapper=w, keys=keys, depth=2, eager="all"))
    # a Dict observation delivered as a PLAIN dict with non-alphabetical keys, bare and flattened
    for w in ("none", "FlattenObservation", "TimeLimit"):
        envc.append(dict(env="TabPlainDict", wrapper=w, keys=keys, depth=2, eager="all"))
    for name in (MUJOCO_ALL if thorough else MUJOCO_QUICK):
        envc.append(dict(env=name, wrapper="none", keys=keys[:2], depth=1, eager="cheap", max_triples=8))
    if thorough:
        for name in G1:
            envc.append(dict(env=name, wrapper="none", keys=keys[:2], depth=1, eager="cheap", max_triples=6))
    for c in envc:
        ctx.nontriv((c["env"], c["wrapper"]))
    import time as _time

    t0 = _time.time()
    ctx.run_parallel("envmodes", envc, workers=4 if thorough else 8, group_key=lambda c: c["env"], threads=4 if thorough else 2)
    ctx.notes["wall_envmodes_s"] = round(_time.time() - t0, 1)
    # (b)
    diff = []
    fam = [t for t in family(3, 2, shaped=True, limits=[(0, 2), (0, 3)]) if sum(t["init"]) >= 2]
    fam = fam[:: (4 if thorough else 40)]
    for tab in fam:
        for N in (2, 3, 4):
            for algo, pols in (("PPO", ("scripted", "mlp")), ("A2C", ("scripted",)), ("DQN", ("scripted", "mlp"))):
                for p in pols:
                    diff.append(dict(tab, algo=algo, policy=p, script=[0, 1, 1, 0], num_envs=N, num_steps=4, key=keys[0], gamma=0.5, lam=0.25))
    for tab in [t for t in family(2, 2, shaped=True, limits=[(0, 2)], act_kind="box", obs_kind="onehot")][:: (1 if thorough else 6)]:
        for N in (2, 3):
            diff.append(dict(tab, algo="SAC", policy="mlp", script=[0.0], num_envs=N, num_steps=3, key=keys[0], gamma=0.5, lam=0.25))
    ctx.run_parallel("collect_diff", diff, workers=8, group_key=lambda c: (c["algo"], c["policy"], c["num_envs"]), threads=2)
    streams = []
    for tab in [t for t in family(3, 2, shaped=True, limits=[(0, 0), (0, 2), (0, 3)]) if sum(t["init"]) >= 2]:
        for sc in scripts_full("discrete", 2, 3)[:: (1 if thorough else 2)]:
            for N in (2, 3, 4):
                streams.append(dict(tab, algo="PPO" if N != 3 else "A2C", script=sc, num_envs=N, num_steps=3, key=keys[N % len(keys)], gamma=0.5, lam=0.25))
    ctx.run("streams", streams)
    # off-policy: the N-environment iteration vs the single-environment iteration from the same networks / start state
    paths = []
    for tab in [t for t in family(3, 2, shaped=True, limits=[(0, 3)], obs_kind="onehot") if sum(t["init"]) == 1][:: (9 if thorough else 40)]:
        for N in ((2, 3) if thorough else (2,)):
            for pk in ((0, 1, 2) if thorough else (0, 1)):
                paths.append(dict(tab, N=N, num_steps=2, n_iter=10, interval=1000, lr=0.05, policy_key=pk, key=keys[0]))
    ctx.run_parallel("iteration_paths", paths, workers=6, group_key=lambda c: c["N"], threads=2)
    ctx.notes["iteration_path_cases"] = len(paths)
    # per-environment keys through the real reset() (warm-up) and iteration(), all algorithms
    ks = []
    one_init = dict(T=[[1, 0], [0, 1], [2, 2]], term=[False, False, False], init=[True, False, False], S=3, A=2, obs_kind="onehot")
    for algo in ("PPO", "A2C", "REINFORCE", "DQN", "SAC"):
        for N in ((2, 3) if thorough else (2,)):
            ks.append(dict(one_init, algo=algo, act_kind="box" if algo == "SAC" else "discrete", N=N, num_steps=8, learning_starts=8,
                           keys=[int(k) % 100000 for k in key_ints(ctx.seed, 6 if thorough else 5, salt=7)]))
    ctx.run_parallel("key_sharing", ks, workers=5, group_key=lambda c: c["algo"], threads=2)
    # non-trivial (measured): collections in which the parallel environments really started in different states, and
    # stream cases whose MDP ends episodes by termination as well as by the time limit
    ctx.nontrivial |= {("diff", i) for i in range(ctx.guards.get("collect-envs-start-differently", 0))}
    ctx.nontrivial |= {("stream", i) for i, c in enumerate(streams) if any(c["term"]) and c.get("tl")}
    ctx.require("collect-envs-start-differently", "after_reset", "trunc_only", "term_only", "paths-online-target-greedy-actions-differ",
                "keys-warm-up-separated", "keys-iteration-separated")
