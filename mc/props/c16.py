"""C16 - masked actions are never chosen; key-less policies act greedily.

Bounded-exhaustive exploration (no sampling of the case space):

* clause `dist`  - Categorical / MultiCategorical / Bernoulli: EVERY non-empty mask x a full grid
  of logits (ties, and the unmasked argmax masked) x both parameterisations x a key block.
* clause `ac`    - the real MLPActorCriticPolicy on tabular MDPs (Discrete, MultiDiscrete,
  MultiBinary action spaces): every observation (= MDP state) x every mask (handed out by the
  environment's own action_mask) x parameter settings x all call modes.
* clause `q`     - the real MLPQPolicy: every mask x epsilon in {0, .05, .3, 1} x with/without key.
* clause `cont`  - the key-less / keyed contract for the continuous policies (MLPSACPolicy and
  MLPActorCriticPolicy on a scalar Box action space), which cannot be masked.

Reference (written from the statement): a masked law is the unmasked law conditioned on the
allowed set, i.e. over the finite list of joint actions
      log p_masked(a) = log p(a) - logsumexp_{allowed b} log p(b)   (allowed a),   p_masked(a) = 0 (masked a)
computed in float64.  For the distribution classes log p comes from the input parameters; for
policies it is the policy's own *unmasked* reported log-probability (metamorphic) and, for the
parameter settings whose logits are pinned by the harness, also the softmax of those logits.
Mode / greedy = any maximiser of the reference over the allowed set (ties: any).  Sampling is
judged key-agnostically: every drawn action must be allowed, and over a fixed block of keys the
empirical frequencies must agree with the reported probabilities within a Bernstein bound at
the 1e-12 level (deterministic for a given VERIF_SEED; a finite check, not a proof).
"""

from __future__ import annotations

import contextlib
import itertools
import math

import equinox as eqx
import jax
import numpy as np
from jax import numpy as jnp
from jax import random as jr

from lerax.distribution import Bernoulli, Categorical, MultiCategorical
from lerax.policy import MLPActorCriticPolicy, MLPQPolicy, MLPSACPolicy
from lerax.policy import actor as lerax_actor

from mc.core import Ctx, chash, key_ints
from mc.mdp import TabEnv, TabState

LEVEL = "exploration"

DELTA = 1e-12  # per-comparison false-alarm level of the frequency clauses
LP_TOL = 5e-5  # |log p - ref| <= LP_TOL * max(1, |ref|)   (float32 log-softmax of logits up to +-60)
P_TOL = 2e-6


# =============================================================================================
# reference model (pure python / numpy float64)
# =============================================================================================


def joint_actions(kind: str, dims: tuple) -> np.ndarray:
    """All joint actions as an int array [J, D] (D = 1 for categorical)."""
    if kind == "categorical":
        return np.arange(dims[0], dtype=np.int64).reshape(-1, 1)
    if kind == "multicategorical":
        return np.asarray(list(itertools.product(*[range(d) for d in dims])), dtype=np.int64)
    if kind == "bernoulli":
        return np.asarray(list(itertools.product([0, 1], repeat=dims[0])), dtype=np.int64)
    raise ValueError(kind)


def offsets(dims):
    return [0] + list(np.cumsum(dims))[:-1]


def allowed_matrix(kind: str, dims: tuple, masks: np.ndarray, J: np.ndarray) -> np.ndarray:
    """[N, J] bool: joint action j is allowed under mask n (mask given flat, [N, P])."""
    masks = np.asarray(masks, dtype=bool)
    if kind == "categorical":
        return masks[:, J[:, 0]]
    if kind == "multicategorical":
        out = np.ones((masks.shape[0], J.shape[0]), dtype=bool)
        for d, off in enumerate(offsets(dims)):
            out &= masks[:, off + J[:, d]]
        return out
    if kind == "bernoulli":
        # a False entry forbids setting that bit: allowed iff no forbidden bit is 1
        return ~np.any((J[None, :, :] == 1) & ~masks[:, None, :], axis=-1)
    raise ValueError(kind)


def lse(x, axis=-1):
    x = np.asarray(x, dtype=np.float64)
    m = np.max(x, axis=axis, keepdims=True)
    m = np.where(np.isfinite(m), m, 0.0)
    with np.errstate(divide="ignore"):
        return np.squeeze(m, axis) + np.log(np.sum(np.exp(x - m), axis=axis))


def unmasked_logp(kind: str, dims: tuple, param: str, values: np.ndarray, J: np.ndarray) -> np.ndarray:
    """[N, J] float64 log-probabilities of the unmasked law from its parameters [N, P]."""
    v = np.asarray(values, dtype=np.float64)
    N = v.shape[0]
    out = np.zeros((N, J.shape[0]))
    with np.errstate(divide="ignore"):
        if kind in ("categorical", "multicategorical"):
            ds = dims if kind == "multicategorical" else (dims[0],)
            for d, off in enumerate(offsets(ds)):
                piece = v[:, off : off + ds[d]]
                lp = piece - lse(piece)[:, None] if param == "logits" else np.log(piece / piece.sum(-1, keepdims=True))
                out += lp[:, J[:, d]]
        else:
            if param == "logits":
                lp1 = -np.logaddexp(0.0, -v)
                lp0 = -np.logaddexp(0.0, v)
            else:
                lp1, lp0 = np.log(v), np.log1p(-v)
            out = (lp1[:, None, :] * (J[None] == 1) + lp0[:, None, :] * (J[None] == 0)).sum(-1)
    return out


def condition(lp0: np.ndarray, allowed: np.ndarray) -> np.ndarray:
    """The statement: zero on masked actions, proportional renormalisation on the rest."""
    z = lse(np.where(allowed, lp0, -np.inf), axis=-1)
    return np.where(allowed, lp0 - z[..., None], -np.inf)


def dev_bound(n: int, p: float, delta: float = DELTA) -> float:
    """Bernstein: P(|Bin(n,p) - np| >= t) <= 2 exp(-t^2 / (2 (npq + t/3))) = delta."""
    L = math.log(2.0 / delta)
    v = n * p * (1.0 - p)
    return L / 3.0 + math.sqrt(L * L / 9.0 + 2.0 * v * L)


def action_index(J: np.ndarray, acts: np.ndarray) -> np.ndarray:
    """Index of each action row in J, -1 where the action is not a member of the space."""
    acts = np.asarray(acts).astype(np.int64)
    acts = acts.reshape(acts.shape[0], -1) if acts.ndim > 1 else acts.reshape(-1, 1)
    eq = np.all(acts[:, None, :] == J[None, :, :], axis=-1)
    return np.where(eq.any(-1), eq.argmax(-1), -1)


def make_keys(spec):
    first, n = spec
    return jax.vmap(jr.key)(jnp.arange(first, first + n, dtype=jnp.uint32))


def close_lp(x, ref, tol=LP_TOL):
    x = np.asarray(x, dtype=np.float64)
    with np.errstate(invalid="ignore"):
        return np.abs(x - ref) <= tol * np.maximum(1.0, np.abs(ref))


# =============================================================================================
# clause `dist`
# =============================================================================================

_JIT: dict = {}


def _static_consts(on: bool):
    """MultiCategorical computes its split indices with jnp.cumsum on a Python tuple, which under
    plain jit becomes a tracer and makes jnp.split raise (finding C16/jit/...).  The bulk clauses
    therefore trace the multi-categorical code with compile-time evaluation of constants switched
    on (same operations, same values); the `jit` clause exercises plain jit without this help."""
    return jax.ensure_compile_time_eval() if on else contextlib.nullcontext()


def _mask_arg(kind, dims, form, mask):
    if kind == "multicategorical" and form == "seq":
        return [mask[o : o + d] for o, d in zip(offsets(dims), dims)]
    return mask


def dist_fn(kind, dims, param, form):
    k = ("dist", kind, dims, param, form)
    if k in _JIT:
        return _JIT[k]
    J = joint_actions(kind, dims)
    Jarr = jnp.asarray(J[:, 0] if kind == "categorical" else J)

    def build(values):
        kw = {param: values}
        if kind == "categorical":
            return Categorical(**kw)
        if kind == "bernoulli":
            return Bernoulli(**kw)
        return MultiCategorical(action_dims=dims, **kw)

    def one(values, mask, keys):
        with _static_consts(kind == "multicategorical"):
            m = build(values).mask(_mask_arg(kind, dims, form, mask))
            lp = jax.vmap(lambda a: jnp.sum(m.log_prob(a)))(Jarr)
            p = jax.vmap(lambda a: jnp.prod(m.prob(a)))(Jarr)
            smp = jax.vmap(m.sample)(keys)
            s2, l2 = jax.vmap(m.sample_and_log_prob)(keys)
            return dict(
                probs=m.probs, lp=lp, p=p, mode=m.mode(), samples=smp, s2=s2,
                l2=jax.vmap(jnp.sum)(l2),
            )

    f = eqx.filter_jit(jax.vmap(one, in_axes=(0, 0, None)))
    _JIT[k] = f
    return f


def component_marginals(kind, dims, J, pref):
    """Reference value of the `.probs` attribute from the joint reference [N, J] -> [N, P]."""
    if kind == "categorical":
        return pref
    if kind == "bernoulli":
        return np.stack([pref[:, J[:, i] == 1].sum(-1) for i in range(dims[0])], axis=-1)
    cols = []
    for d, n in enumerate(dims):
        for c in range(n):
            cols.append(pref[:, J[:, d] == c].sum(-1))
    return np.stack(cols, axis=-1)


def clause_dist(cases, ctx: Ctx):
    out = []
    groups: dict = {}
    for i, c in enumerate(cases):
        g = (c["kind"], tuple(c["dims"]), c["param"], c.get("form", "flat"), tuple(c["keys"]))
        groups.setdefault(g, []).append(i)
    for (kind, dims, param, form, keyspec), idxs in groups.items():
        J = joint_actions(kind, dims)
        values = np.asarray([cases[i]["values"] for i in idxs], dtype=np.float64)
        masks = np.asarray([cases[i]["mask"] for i in idxs], dtype=bool)
        if param == "probs":  # the grid is given as logits; the class is handed probabilities
            if kind == "bernoulli":
                given = 1.0 / (1.0 + np.exp(-values))
            else:
                ds = dims if kind == "multicategorical" else (dims[0],)
                given = np.concatenate(
                    [np.exp(values[:, o : o + d] - lse(values[:, o : o + d])[:, None]) for o, d in zip(offsets(ds), ds)], axis=-1
                )
            given = given.astype(np.float32).astype(np.float64)
        else:
            given = values
        r = dist_fn(kind, dims, param, form)(jnp.asarray(given, dtype=jnp.float32), jnp.asarray(masks), make_keys(keyspec))
        r = {k: np.asarray(v) for k, v in r.items()}
        AL = allowed_matrix(kind, dims, masks, J)
        ref = condition(unmasked_logp(kind, dims, param, given, J), AL)
        pref = np.exp(ref)
        N, K = len(idxs), keyspec[1]
        sig = f"C16/dist/{kind}/"

        def add(bad, name, fmt):
            for n in np.nonzero(bad)[0]:
                c = cases[idxs[n]]
                out.append((idxs[n], sig + name, f"{kind}{list(dims)} {param}={c['values']} mask={[int(b) for b in c['mask']]} ({form}): " + fmt(n)))

        lp = r["lp"].astype(np.float64)
        p = r["p"].astype(np.float64)
        with np.errstate(over="ignore"):
            plp = np.exp(lp)
        add(np.any(~AL & ((p != 0) | (plp != 0) | np.isnan(lp)), -1), "masked-prob-nonzero",
            lambda n: f"prob over joint actions {p[n].tolist()}, exp(log_prob) {plp[n].tolist()}; masked actions {J[~AL[n]].tolist()} must have probability exactly 0")
        bad = AL & ~(close_lp(lp, ref) & (np.abs(p - pref) <= P_TOL))
        add(np.any(bad, -1), "not-renormalised",
            lambda n: f"log_prob {lp[n].tolist()} / prob {p[n].tolist()} vs conditioned reference {ref[n].tolist()}")
        add(np.abs(p.sum(-1) - 1.0) > 1e-5, "mass", lambda n: f"total probability {p[n].sum()}")
        marg = component_marginals(kind, dims, J, pref)
        pa = r["probs"].reshape(N, -1).astype(np.float64)
        add(np.any((~masks & (pa != 0)) | (np.abs(pa - marg) > P_TOL) | np.isnan(pa), -1), "probs-attribute",
            lambda n: f".probs = {pa[n].tolist()}, reference {marg[n].tolist()} (exactly 0 where the mask is false)")
        mi = action_index(J, r["mode"].reshape(N, -1))
        add(mi < 0, "mode-out-of-support", lambda n: f"mode() = {r['mode'][n].tolist()}")
        mok = mi >= 0
        rows = np.arange(N)
        add(mok & ~AL[rows, mi], "mode-masked", lambda n: f"mode() = {r['mode'][n].tolist()} is masked")
        add(mok & AL[rows, mi] & (pref[rows, mi] < pref.max(-1) - 1e-6), "mode-not-argmax",
            lambda n: f"mode() = {r['mode'][n].tolist()} has conditioned probability {pref[n, mi[n]]}, maximum is {pref[n].max()} at {J[pref[n].argmax()].tolist()}")
        for nm, arr in (("sample", r["samples"]), ("sample_and_log_prob", r["s2"])):
            si = action_index(J, arr.reshape(N * K, -1)).reshape(N, K)
            add(np.any(si < 0, -1), f"{nm}-out-of-support",
                lambda n: f"{nm}(key={keyspec[0] + int(np.argmax(si[n] < 0))}) = {arr[n][np.argmax(si[n] < 0)].tolist()}")
            sal = np.take_along_axis(AL, np.maximum(si, 0), axis=1)
            badm = (si >= 0) & ~sal
            add(np.any(badm, -1), f"{nm}-masked",
                lambda n: f"{nm}(key={keyspec[0] + int(np.argmax(badm[n]))}) = {arr[n][np.argmax(badm[n])].tolist()} is masked ({int(badm[n].sum())} of {K} keys)")
            if nm == "sample_and_log_prob":
                rl = np.take_along_axis(ref, np.maximum(si, 0), axis=1)
                l2 = r["l2"].astype(np.float64)
                badl = (si >= 0) & sal & ~close_lp(l2, rl)
                add(np.any(badl, -1), "sample-logprob-mismatch",
                    lambda n: f"sample_and_log_prob(key={keyspec[0] + int(np.argmax(badl[n]))}) returned {arr[n][np.argmax(badl[n])].tolist()} with log-prob {l2[n][np.argmax(badl[n])]}, reference {rl[n][np.argmax(badl[n])]}")
        # coverage bookkeeping
        un = unmasked_logp(kind, dims, param, given, J)
        hid = ~AL[rows, un.argmax(-1)]
        ctx.guard("dist-mask-hides-unmasked-argmax", int(hid.sum()))
        ctx.guard("dist-single-allowed-action", int((AL.sum(-1) == 1).sum()))
        ctx.guard("dist-tie-among-allowed-argmax", int(((np.abs(pref - pref.max(-1, keepdims=True)) <= 1e-9).sum(-1) > 1).sum()))
        ctx.guard("dist-samples-judged", N * K * 2)
    return out


# =============================================================================================
# policies
# =============================================================================================

SMALL = dict(feature_size=4, feature_width=8, value_width=8, action_width=8)


def policy_space(act_kind: str, A: int):
    """(distribution kind, dims) of the action law of a TabEnv action space."""
    if act_kind == "discrete":
        return "categorical", (A,)
    if act_kind == "multidiscrete":
        return "multicategorical", (A, 2)
    if act_kind == "multibinary":
        return "bernoulli", (2,)
    raise ValueError(act_kind)


def mask_len(act_kind, A):
    return {"discrete": A, "multidiscrete": A + 2, "multibinary": 2}[act_kind]


def build_env(act_kind: str, A: int, S: int, s: int, mask):
    """A tabular MDP whose state s carries the mask under test (all other states: everything
    allowed); the policy is driven with what the environment itself hands out."""
    T = np.zeros((S, A), dtype=np.int64)
    M = None
    if mask is not None:
        M = np.ones((S, mask_len(act_kind, A)), dtype=bool)
        M[s] = np.asarray(mask, dtype=bool)
    return TabEnv(T, [False] * S, [True] * S, M=M, act_kind=act_kind, obs_kind="onehot")


def env_obs_mask(env, s: int, form: str, dims):
    st = TabState(jnp.asarray(s, dtype=int), jnp.asarray(0, dtype=int))
    obs = env.observation(st, key=jr.key(0))
    mask = env.action_mask(st, key=jr.key(0))
    if mask is not None and form == "seq":
        mask = [mask[o : o + d] for o, d in zip(offsets(dims), dims)]
    return obs, mask


def _multidiscrete_shim():
    """Harness-side stand-in used ONLY when the library's MultiDiscreteAction cannot be
    constructed (known finding C16/ac/multidiscrete/policy-construction-raises): supplies the
    abstract attribute the class forgot, leaving __call__ and ActionLayer untouched."""
    if "shim" not in _JIT:

        class _MultiDiscreteShim(lerax_actor.MultiDiscreteAction):
            @property
            def mapping(self):
                return self.mappings

        _JIT["shim"] = _MultiDiscreteShim
    return _JIT["shim"]


def _final_linear(layer):
    return layer.mappings if hasattr(layer, "mappings") else layer.mapping


def build_ac(act_kind: str, A: int, S: int, params: dict):
    """Returns (policy, construction_error | None)."""
    env = build_env(act_kind, A, S, 0, None)
    kw = dict(SMALL)
    kw["action_depth"] = params.get("action_depth", 2)
    key = jr.key(params["init"])
    err = None
    try:
        pol = MLPActorCriticPolicy(env, key=key, **kw)
    except Exception as e:  # "must not raise": the property quantifies over these policies
        if act_kind != "multidiscrete":
            raise
        err = e
        donor = MLPActorCriticPolicy(build_env("discrete", A, S, 0, None), key=key, **kw)
        layer = _multidiscrete_shim()(kw["feature_size"], env.action_space, key=jr.fold_in(key, 1))
        pol = eqx.tree_at(lambda p: p.action_head.action_dist, donor, layer)
        old = donor.action_space
        pol = eqx.tree_at(lambda p: p.action_space, pol, env.action_space, is_leaf=lambda x: x is old)
    return tune(pol, lambda p: _final_linear(p.action_head.action_dist), params), err


def tune(pol, where, params):
    """Parameter settings: 'scale' sharpens the head; 'bias' pins the head's output exactly
    (weight 0, bias = the given logits), giving ties and +-30 logits end to end."""
    lin = where(pol)
    if "bias" in params:
        b = jnp.asarray(params["bias"], dtype=lin.bias.dtype).reshape(lin.bias.shape)
        pol = eqx.tree_at(lambda p: (where(p).weight, where(p).bias), pol, (jnp.zeros_like(lin.weight), b))
    elif "scale" in params:
        f = float(params["scale"])
        pol = eqx.tree_at(lambda p: (where(p).weight, where(p).bias), pol, (lin.weight * f, lin.bias * f))
    return pol


def stack_modules(mods):
    """Stack modules of identical static structure along a new leading axis of their arrays."""
    parts = [eqx.partition(m, eqx.is_array) for m in mods]
    return jax.tree.map(lambda *xs: jnp.asarray(np.stack([np.asarray(x) for x in xs])), *[a for a, _ in parts]), parts[0][1]


def env_delivery(tmpl_env, has_mask: bool, form: str, dims, mask_row, s):
    """Observation and mask as the environment itself hands them out in MDP state s (traced)."""
    env = tmpl_env
    if has_mask:
        env = eqx.tree_at(lambda e: e.M, tmpl_env, jnp.ones_like(tmpl_env.M).at[s].set(mask_row))
    st = TabState(s, jnp.zeros_like(s))
    obs = env.observation(st, key=jr.key(0))
    mask = env.action_mask(st, key=jr.key(0))
    if mask is not None and form == "seq":
        mask = [mask[o : o + d] for o, d in zip(offsets(dims), dims)]
    return obs, mask


def ac_fns(act_kind, A, S, has_mask, form, static_pol):
    """(jitted bulk function, un-jitted key-less function), both vmapped over cases."""
    kind, dims = policy_space(act_kind, A)
    tmpl = build_env(act_kind, A, S, 0, [True] * mask_len(act_kind, A) if has_mask else None)
    md = act_kind == "multidiscrete"

    def one(pi, mask_row, s, arrs, keys, Jarr):
        with _static_consts(md):
            pol = eqx.combine(jax.tree.map(lambda x: x[pi], arrs), static_pol)
            obs, mask = env_delivery(tmpl, has_mask, form, dims, mask_row, s)
            acts = jax.vmap(lambda kk: pol(None, obs, key=kk, action_mask=mask)[1])(keys)
            greedy = pol(None, obs, action_mask=mask)[1]
            _, a2, _, l2 = jax.vmap(lambda kk: pol.action_and_value(None, obs, key=kk, action_mask=mask))(keys)
            lpm = jax.vmap(lambda a: pol.evaluate_action(None, obs, a, action_mask=mask)[2])(Jarr)
            lp0 = jax.vmap(lambda a: pol.evaluate_action(None, obs, a)[2])(Jarr)
            l2e = jax.vmap(lambda a: pol.evaluate_action(None, obs, a, action_mask=mask)[2])(a2)
            return dict(acts=acts, greedy=greedy, a2=a2, l2=l2, lpm=lpm, lp0=lp0, l2e=l2e)

    def keyless(pi, mask_row, s, arrs):
        with _static_consts(md):
            pol = eqx.combine(jax.tree.map(lambda x: x[pi], arrs), static_pol)
            obs, mask = env_delivery(tmpl, has_mask, form, dims, mask_row, s)
            return pol(None, obs, action_mask=mask)[1]

    return eqx.filter_jit(jax.vmap(one, in_axes=(0, 0, 0, None, None, None))), eqx.filter_jit(jax.vmap(keyless, in_axes=(0, 0, 0, None))), keyless


def freq_failures(idx, ref, K, what):
    """Empirical frequencies of the joint actions vs the reference probabilities."""
    fails = []
    cnt = np.bincount(idx[idx >= 0], minlength=ref.shape[0])
    for j in range(ref.shape[0]):
        pj = float(np.exp(ref[j]))
        if abs(cnt[j] - K * pj) > dev_bound(K, min(max(pj, 0.0), 1.0)) + K * 1e-5:
            fails.append(f"{what}: action #{j} drawn {int(cnt[j])} times in {K} keys, reported probability {pj:.6g} (allowed deviation {dev_bound(K, pj):.1f})")
    return fails


def clause_ac(cases, ctx: Ctx):
    out = []
    pols: dict = {}
    groups: dict = {}
    for i, c in enumerate(cases):
        g = (c["act_kind"], c["A"], c["S"], c["mask"] is None, c.get("form", "flat"), c["params"].get("action_depth", 2), tuple(c["keys"]))
        groups.setdefault(g, []).append(i)
    for (act_kind, A, S, nomask, form, depth, keyspec), idxs in groups.items():
        kind, dims = policy_space(act_kind, A)
        sig = f"C16/ac/{act_kind}/"
        J = joint_actions(kind, dims)
        Jarr = jnp.asarray(J[:, 0] if kind == "categorical" else J)
        P = mask_len(act_kind, A)
        K = keyspec[1]
        plist, pidx, seen = [], [], {}
        for i in idxs:
            c = cases[i]
            pk = (act_kind, A, S, chash(c["params"]))
            if pk not in pols:
                pols[pk] = build_ac(act_kind, A, S, c["params"])
            pol, err = pols[pk]
            if pk not in seen:
                seen[pk] = len(plist)
                plist.append(pol)
            pidx.append(seen[pk])
            if err is not None:
                out.append((i, sig + "policy-construction-raises",
                            f"MLPActorCriticPolicy(env with action_space={build_env(act_kind, A, S, 0, None).action_space}) raised {type(err).__name__}: {err}"[:300]))
            else:
                ctx.guard(f"ac-{act_kind}-real-constructor")
        arrs, static_pol = stack_modules(plist)
        flat = np.asarray([[True] * P if cases[i]["mask"] is None else cases[i]["mask"] for i in idxs], dtype=bool)
        s_arr = jnp.asarray([cases[i]["s"] for i in idxs], dtype=int)
        pidx = jnp.asarray(pidx, dtype=int)
        bulk, keyless, keyless_plain = ac_fns(act_kind, A, S, not nomask, form, static_pol)
        R = {k: np.asarray(v) for k, v in bulk(pidx, jnp.asarray(flat), s_arr, arrs, make_keys(keyspec), Jarr).items()}
        # second execution of the key-less call: a separately compiled program for every case,
        # and op-by-op (no jit at all) for the first cases of the group
        again_all = np.array(keyless(pidx, jnp.asarray(flat), s_arr, arrs))
        for n in range(min(1, len(idxs))):
            again_all[n] = np.asarray(keyless_plain(pidx[n], jnp.asarray(flat[n]), s_arr[n], arrs))
        ALL = allowed_matrix(kind, dims, flat, J)
        for n, i in enumerate(idxs):
            c = cases[i]
            mask = c["mask"]
            r = {k: v[n] for k, v in R.items()}
            AL = ALL[n]
            tag = f"{act_kind}(A={A}) params={c['params']} state={c['s']} mask={None if mask is None else [int(b) for b in mask]} ({form})"

            def add(name, msg):
                out.append((i, sig + name, tag + ": " + msg))

            lp0 = r["lp0"].astype(np.float64)
            if np.any(np.isnan(lp0)) or abs(np.exp(lp0).sum() - 1.0) > 1e-4:
                add("unmasked-law-not-normalised", f"evaluate_action without mask reports log-probs {lp0.tolist()}")
                continue
            ref = condition(lp0[None], AL[None])[0]
            lpm = r["lpm"].astype(np.float64)
            with np.errstate(over="ignore"):
                pm = np.exp(lpm)
            if np.any(~AL & ((pm != 0) | np.isnan(lpm))):
                add("evaluate/masked-prob-nonzero", f"evaluate_action log-probs {lpm.tolist()}: masked actions {J[~AL].tolist()} must have probability 0")
            if np.any(AL & ~(close_lp(lpm, ref) & (np.abs(pm - np.exp(ref)) <= P_TOL))):
                add("evaluate/not-renormalised", f"evaluate_action log-probs under the mask {lpm.tolist()} vs unmasked law conditioned on the allowed set {ref.tolist()}")
            if "bias" in c["params"]:  # pinned logits: absolute reference as well
                pin = condition(unmasked_logp(kind, dims, "logits", np.asarray(c["params"]["bias"], dtype=np.float64)[None], J), AL[None])[0]
                if np.any(AL & ~close_lp(lpm, pin)):
                    add("evaluate/not-renormalised", f"evaluate_action log-probs {lpm.tolist()} vs softmax of the pinned logits over the allowed set {pin.tolist()}")
            # key-less call: the mode of the masked law, deterministically
            gi = int(action_index(J, r["greedy"].reshape(1, -1))[0])
            if gi < 0:
                add("keyless/out-of-space", f"key-less call returned {r['greedy'].tolist()}")
            elif not AL[gi]:
                add("keyless/masked", f"key-less call returned the masked action {J[gi].tolist()}")
            elif ref[gi] < ref.max() - 1e-5:
                add("keyless/not-greedy", f"key-less call returned {J[gi].tolist()} (probability {np.exp(ref[gi]):.6g}); mode of the masked law is {J[int(ref.argmax())].tolist()} ({np.exp(ref.max()):.6g})")
            ai = int(action_index(J, np.asarray(again_all[n]).reshape(1, -1))[0])
            near_tie = gi >= 0 and ai >= 0 and AL[gi] and AL[ai] and min(ref[gi], ref[ai]) >= ref.max() - 1e-5
            if not np.array_equal(again_all[n], r["greedy"]) and not near_tie:
                add("keyless/not-deterministic", f"key-less call returned {r['greedy'].tolist()} (first execution) and {again_all[n].tolist()} (second execution)")
            # keyed calls
            for nm, arr in (("call", r["acts"]), ("action_and_value", r["a2"])):
                si = action_index(J, arr.reshape(K, -1))
                if np.any(si < 0):
                    add(f"{nm}/out-of-space", f"key {keyspec[0] + int(np.argmax(si < 0))} -> {arr[int(np.argmax(si < 0))].tolist()}")
                badm = (si >= 0) & ~AL[np.maximum(si, 0)]
                if np.any(badm):
                    add(f"{nm}/masked", f"key {keyspec[0] + int(np.argmax(badm))} -> masked action {arr[int(np.argmax(badm))].tolist()} ({int(badm.sum())} of {K} keys)")
                ff = freq_failures(si, ref, K, nm)
                if ff:
                    add(f"{nm}/frequency-differs-from-reported-law", "; ".join(ff[:3]))
                if nm == "action_and_value":
                    l2, l2e = r["l2"].astype(np.float64), r["l2e"].astype(np.float64)
                    ok = (si >= 0) & AL[np.maximum(si, 0)]
                    b1 = ok & ~close_lp(l2, l2e, 1e-5)
                    if np.any(b1):
                        j = int(np.argmax(b1))
                        add("action_and_value/logprob-differs-from-evaluate_action", f"key {keyspec[0] + j}: action {arr[j].tolist()} log-prob {l2[j]} but evaluate_action gives {l2e[j]}")
                    b2 = ok & ~close_lp(l2, ref[np.maximum(si, 0)])
                    if np.any(b2):
                        j = int(np.argmax(b2))
                        add("action_and_value/logprob-not-renormalised", f"key {keyspec[0] + j}: action {arr[j].tolist()} log-prob {l2[j]}, conditioned reference {ref[si[j]]}")
            if not AL[int(lp0.argmax())]:
                ctx.guard("ac-unmasked-greedy-is-masked")
            if AL.sum() == 1:
                ctx.guard("ac-single-allowed-action")
            if (np.abs(ref - ref.max()) <= 1e-9).sum() > 1:
                ctx.guard("ac-tie-among-allowed-argmax")
            ctx.guard("ac-keyed-draws-judged", 2 * K)
    return out


# ---- Q policy -------------------------------------------------------------------------------


def build_q(A: int, S: int, params: dict, eps: float):
    env = build_env("discrete", A, S, 0, None)
    pol = MLPQPolicy(env, epsilon=eps, width_size=8, depth=params.get("depth", 2), key=jr.key(params["init"]))
    return tune(pol, lambda p: p.q_network.layers[-1], params)


def q_fns(A, S, has_mask, static_pol):
    tmpl = build_env("discrete", A, S, 0, [True] * A if has_mask else None)

    def one(pi, mask_row, s, arrs, keys):
        pol = eqx.combine(jax.tree.map(lambda x: x[pi], arrs), static_pol)
        obs, mask = env_delivery(tmpl, has_mask, "flat", (A,), mask_row, s)
        acts = jax.vmap(lambda kk: pol(None, obs, key=kk, action_mask=mask)[1])(keys)
        return dict(acts=acts, greedy=pol(None, obs, action_mask=mask)[1], q=pol.q_values(None, obs)[1])

    def keyless(pi, mask_row, s, arrs):
        pol = eqx.combine(jax.tree.map(lambda x: x[pi], arrs), static_pol)
        obs, mask = env_delivery(tmpl, has_mask, "flat", (A,), mask_row, s)
        return pol(None, obs, action_mask=mask)[1]

    return eqx.filter_jit(jax.vmap(one, in_axes=(0, 0, 0, None, None))), eqx.filter_jit(jax.vmap(keyless, in_axes=(0, 0, 0, None))), keyless


def clause_q(cases, ctx: Ctx):
    out = []
    pols: dict = {}
    groups: dict = {}
    for i, c in enumerate(cases):
        g = (c["A"], c["S"], float(c["eps"]), c["mask"] is None, c["params"].get("depth", 2), tuple(c["keys"]))
        groups.setdefault(g, []).append(i)
    for (A, S, eps, nomask, depth, keyspec), idxs in groups.items():
        K = keyspec[1]
        plist, pidx, seen = [], [], {}
        for i in idxs:
            pk = (A, S, chash(cases[i]["params"]), eps)
            if pk not in pols:
                pols[pk] = build_q(A, S, cases[i]["params"], eps)
            if pk not in seen:
                seen[pk] = len(plist)
                plist.append(pols[pk])
            pidx.append(seen[pk])
        arrs, static_pol = stack_modules(plist)
        flat = np.asarray([[True] * A if cases[i]["mask"] is None else cases[i]["mask"] for i in idxs], dtype=bool)
        s_arr = jnp.asarray([cases[i]["s"] for i in idxs], dtype=int)
        pidx = jnp.asarray(pidx, dtype=int)
        bulk, keyless, keyless_plain = q_fns(A, S, not nomask, static_pol)
        R = {k: np.asarray(v) for k, v in bulk(pidx, jnp.asarray(flat), s_arr, arrs, make_keys(keyspec)).items()}
        again_all = np.array(keyless(pidx, jnp.asarray(flat), s_arr, arrs))
        for n in range(min(1, len(idxs))):
            again_all[n] = np.asarray(keyless_plain(pidx[n], jnp.asarray(flat[n]), s_arr[n], arrs))
        for n, i in enumerate(idxs):
            c = cases[i]
            mask = c["mask"]
            q = R["q"][n].astype(np.float64)
            if "bias" in c["params"]:
                q = np.asarray(c["params"]["bias"], dtype=np.float64)  # pinned Q-values
            AL = flat[n]
            qa = np.where(AL, q, -np.inf)
            G = AL & (qa >= qa.max() - 1e-5 * (1.0 + abs(qa.max())))  # greedy set (ties / float32 near-ties: any)
            tag = f"A={A} params={c['params']} eps={eps} state={c['s']} mask={None if mask is None else [int(b) for b in mask]} q={q.tolist()}"

            def add(name, msg):
                out.append((i, "C16/q/" + name, tag + ": " + msg))

            g = int(R["greedy"][n])
            if not (0 <= g < A):
                add("keyless/out-of-space", f"key-less call returned {g}")
            elif not AL[g]:
                add("keyless/masked", f"key-less call returned the masked action {g}")
            elif not G[g]:
                add("keyless/not-greedy", f"key-less call returned {g}, greedy allowed action(s) {np.nonzero(G)[0].tolist()}")
            a2nd = int(again_all[n])
            if a2nd != g and not (0 <= g < A and 0 <= a2nd < A and G[g] and G[a2nd]):
                add("keyless/not-deterministic", f"key-less call returned {g} (first execution) and {int(again_all[n])} (second execution)")
            acts = R["acts"][n].astype(np.int64)
            inside = (acts >= 0) & (acts < A)
            if not inside.all():
                add("keyed/out-of-space", f"key {keyspec[0] + int(np.argmax(~inside))} -> {int(acts[np.argmax(~inside)])}")
            badm = inside & ~AL[np.clip(acts, 0, A - 1)]
            if badm.any():
                add("keyed/masked", f"key {keyspec[0] + int(np.argmax(badm))} -> masked action {int(acts[np.argmax(badm)])} ({int(badm.sum())} of {K} keys)")
            non = int((inside & ~G[np.clip(acts, 0, A - 1)]).sum())
            if eps <= 0.0:
                if non:
                    add("keyed/epsilon-zero-not-greedy", f"{non} of {K} keyed calls returned a non-greedy action")
            elif non > K * eps + dev_bound(K, eps):
                add("keyed/departs-from-greedy-more-than-epsilon", f"{non} of {K} keyed calls were non-greedy; epsilon={eps} allows at most {K * eps + dev_bound(K, eps):.1f} at the {DELTA} level")
            if non and not G.all():
                ctx.guard("q-nongreedy-draws-seen")
            if not AL[int(q.argmax())]:
                ctx.guard("q-unmasked-greedy-is-masked")
            if G.sum() > 1:
                ctx.guard("q-tie-among-greedy")
            ctx.guard("q-keyed-draws-judged", K)
    return out


# ---- continuous policies (not maskable): key-less = mode, keyed = the reported law -----------


def build_cont(policy: str, S: int, params: dict):
    env = TabEnv(np.zeros((S, 2), dtype=np.int64), [False] * S, [True] * S, act_kind="box", obs_kind="onehot")
    if policy == "sac":
        pol = MLPSACPolicy(env, feature_size=8, width_size=8, key=jr.key(params["init"]))
        if "scale" in params:
            f = float(params["scale"])
            pol = eqx.tree_at(lambda p: (p.mean_head.weight, p.mean_head.bias), pol, (pol.mean_head.weight * f, pol.mean_head.bias + f / 10.0))
        return pol, env
    pol = MLPActorCriticPolicy(env, key=jr.key(params["init"]), log_std_init=params.get("log_std", 0.0), **SMALL)
    return tune(pol, lambda p: p.action_head.action_dist.mapping, params), env


def cont_fn(policy, stage):
    k = ("cont", policy, stage)
    if k in _JIT:
        return _JIT[k]

    def lp_of(pol, obs):
        if policy == "sac":
            d = pol.action_distribution(None, obs)[1]
            return lambda a: jnp.sum(d.log_prob(a))
        return lambda a: pol.evaluate_action(None, obs, a)[2]

    if stage == 0:

        @eqx.filter_jit
        def f(pol, obs, keys):
            acts = jax.vmap(lambda kk: pol(None, obs, key=kk)[1])(keys)
            if policy == "sac":
                _, a2, l2 = jax.vmap(lambda kk: pol.action_and_log_prob(None, obs, key=kk))(keys)
            else:
                _, a2, _, l2 = jax.vmap(lambda kk: pol.action_and_value(None, obs, key=kk))(keys)
            return dict(acts=acts, greedy=pol(None, obs)[1], a2=a2, l2=l2, l2e=jax.vmap(lp_of(pol, obs))(a2))
    else:

        @eqx.filter_jit
        def f(pol, obs, grid, g):
            fn = lp_of(pol, obs)
            return dict(lpg=jax.vmap(fn)(grid), lpm=fn(g))

    _JIT[k] = f
    return f


def ks_distance(samples, grid, cdf):
    x = np.sort(np.asarray(samples, dtype=np.float64))
    F = np.interp(x, grid, cdf)
    n = len(x)
    return float(max(np.max(np.abs(np.arange(1, n + 1) / n - F)), np.max(np.abs(np.arange(0, n) / n - F))))


def clause_cont(cases, ctx: Ctx):
    out = []
    for i, c in enumerate(cases):
        policy, S, s = c["policy"], c["S"], c["s"]
        pol, env = build_cont(policy, S, c["params"])
        obs = env.observation(TabState(jnp.asarray(s, dtype=int), jnp.asarray(0, dtype=int)), key=jr.key(0))
        K = c["keys"][1]
        r = {k: np.asarray(v) for k, v in cont_fn(policy, 0)(pol, obs, make_keys(c["keys"])).items()}
        tag = f"{policy} params={c['params']} state={s}"

        def add(name, msg):
            out.append((i, f"C16/cont/{policy}/" + name, tag + ": " + msg))

        acts, a2 = r["acts"].astype(np.float64), r["a2"].astype(np.float64)
        g = float(r["greedy"])
        g2 = float(cont_fn(policy, 0)(pol, obs, make_keys(c["keys"]))["greedy"])  # same program, second run: bitwise
        again = float(pol(None, obs)[1])  # op-by-op execution: equal up to float32 rounding
        if g2 != g or not np.isfinite(g) or abs(again - g) > 1e-5 * max(1.0, abs(g)):
            add("keyless/not-deterministic", f"key-less call returned {g}, {g2} (same compiled program twice) and {again} (op-by-op)")
        if policy == "sac":
            lo, hi = -1.0, 1.0
            if not (lo <= g <= hi) or np.any(acts < lo) or np.any(acts > hi) or np.any(a2 < lo) or np.any(a2 > hi):
                add("out-of-bounds", f"key-less {g}, keyed range [{acts.min()}, {acts.max()}], action_and_log_prob range [{a2.min()}, {a2.max()}]")
            grid = np.linspace(lo, hi, 40001)[1:-1]
        else:
            allv = np.concatenate([acts, a2, [g]])
            w = max(allv.max() - allv.min(), 1e-3)
            grid = np.linspace(allv.min() - w, allv.max() + w, 40001)
        r2 = {k: np.asarray(v, dtype=np.float64) for k, v in cont_fn(policy, 1)(pol, obs, jnp.asarray(grid, dtype=jnp.float32), jnp.asarray(g, dtype=jnp.float32)).items()}
        grid = np.asarray(jnp.asarray(grid, dtype=jnp.float32), dtype=np.float64)
        dens = np.exp(r2["lpg"])
        cdf = np.concatenate([[0.0], np.cumsum(0.5 * (dens[1:] + dens[:-1]) * np.diff(grid))])
        mass = cdf[-1]
        if not (0.98 <= mass <= 1.02):
            add("reported-density-mass", f"the reported log-prob integrates to {mass} over [{grid[0]}, {grid[-1]}]")
            continue
        cdf = cdf / mass
        # key-less = mode of the reported law: the density maximiser, or (squashed-Gaussian
        # convention, left open) the image of the base mode = the median
        Fg = float(np.interp(g, grid, cdf))
        is_max = r2["lpm"] >= r2["lpg"].max() - 1e-3
        if not (is_max or abs(Fg - 0.5) <= 0.01):
            add("keyless/not-mode", f"key-less action {g}: reported log-density {float(r2['lpm'])} (maximum {r2['lpg'].max()} at {grid[r2['lpg'].argmax()]}), CDF there {Fg}")
        thr = math.sqrt(math.log(2.0 / DELTA) / (2.0 * K)) + 0.003
        for nm, arr in (("call", acts), ("sample-with-logprob", a2)):
            d = ks_distance(arr, grid, cdf)
            if d > thr:
                add(f"{nm}/not-the-reported-law", f"KS distance between {K} keyed draws and the law of the reported log-prob = {d:.4f} > {thr:.4f}")
        l2, l2e = r["l2"].astype(np.float64), r["l2e"].astype(np.float64)
        inner = (np.abs(a2) < 0.999) if policy == "sac" else np.ones(K, dtype=bool)
        bad = inner & ~close_lp(l2, l2e, 2e-3)
        ctx.guard("cont-logprob-pairs-judged", int(inner.sum()))
        if bad.any():
            j = int(np.argmax(bad))
            add("logprob-differs-from-reported-law", f"key {c['keys'][0] + j}: action {a2[j]} returned with log-prob {l2[j]}, the reported law gives {l2e[j]}")
        ctx.guard("cont-keyed-draws-judged", 2 * K)
    return out


# ---- plain jit: the way every collector calls a policy -----------------------------------------


def _jit_dist_fn(kind, dims, form):
    k = ("jit-dist", kind, dims, form)
    if k not in _JIT:
        J = joint_actions(kind, dims)
        Jarr = jnp.asarray(J[:, 0] if kind == "categorical" else J)

        def fn(values, mask, keys):
            d = {"categorical": Categorical, "bernoulli": Bernoulli}.get(kind)
            d = d(logits=values) if d is not None else MultiCategorical(logits=values, action_dims=dims)
            m = d.mask(_mask_arg(kind, dims, form, mask))
            return dict(mode=m.mode(), samples=jax.vmap(m.sample)(keys), lp=jax.vmap(lambda a: jnp.sum(m.log_prob(a)))(Jarr))

        _JIT[k] = (fn, eqx.filter_jit(fn))
    return _JIT[k]


def _jit_ac(pol, obs, m, keys):
    acts = jax.vmap(lambda kk: pol(None, obs, key=kk, action_mask=m)[1])(keys)
    _, a2, _, l2 = jax.vmap(lambda kk: pol.action_and_value(None, obs, key=kk, action_mask=m))(keys)
    le = jax.vmap(lambda a: pol.evaluate_action(None, obs, a, action_mask=m)[2])(a2)
    return dict(acts=acts, greedy=pol(None, obs, action_mask=m)[1], a2=a2, l2=l2, le=le)


def _jit_q(pol, obs, m, keys):
    return dict(acts=jax.vmap(lambda kk: pol(None, obs, key=kk, action_mask=m)[1])(keys), greedy=pol(None, obs, action_mask=m)[1])


_JIT_AC = (_jit_ac, eqx.filter_jit(_jit_ac))
_JIT_Q = (_jit_q, eqx.filter_jit(_jit_q))


def _jit_target(c, cache):
    """Returns ((plain fn, jitted fn), args) exercising one masked call."""
    keys = make_keys(c["keys"])
    if c["target"] == "dist":
        kind, dims, form = c["kind"], tuple(c["dims"]), c.get("form", "flat")
        return _jit_dist_fn(kind, dims, form), (jnp.asarray(c["values"], dtype=jnp.float32), jnp.asarray(c["mask"], dtype=bool), keys)
    if c["target"] == "ac":
        kind, dims = policy_space(c["act_kind"], c["A"])
        pk = ("ac", c["act_kind"], c["A"], c["S"], chash(c["params"]))
        if pk not in cache:
            cache[pk] = build_ac(c["act_kind"], c["A"], c["S"], c["params"])[0]
        env = build_env(c["act_kind"], c["A"], c["S"], c["s"], c["mask"])
        obs, m = env_obs_mask(env, c["s"], c.get("form", "flat"), dims)
        return _JIT_AC, (cache[pk], obs, m, keys)
    pk = ("q", c["A"], c["S"], chash(c["params"]), float(c["eps"]))
    if pk not in cache:
        cache[pk] = build_q(c["A"], c["S"], c["params"], float(c["eps"]))
    env = build_env("discrete", c["A"], c["S"], c["s"], c["mask"])
    obs, m = env_obs_mask(env, c["s"], "flat", (c["A"],))
    return _JIT_Q, (cache[pk], obs, m, keys)


def clause_jit(cases, ctx: Ctx):
    """The same masked call executed op-by-op and under plain eqx.filter_jit (no harness help)
    must both succeed and agree: collectors and training loops only ever run policies jitted."""
    out = []
    cache: dict = {}
    for i, c in enumerate(cases):
        what = c.get("kind") or c.get("act_kind") or "discrete"
        sig = f"C16/jit/{c['target']}/{what}/"
        tag = f"{ {k: v for k, v in c.items() if k not in ('keys', 'target')} }"
        (fn, jfn), args = _jit_target(c, cache)
        eager = {k: np.asarray(v) for k, v in fn(*args).items()}
        try:
            jitted = {k: np.asarray(v) for k, v in jfn(*args).items()}
        except Exception as e:  # "must not raise"
            out.append((i, sig + f"raises-{type(e).__name__}-under-jit", tag + f": works op-by-op, but under eqx.filter_jit raises {type(e).__name__}: {str(e).splitlines()[0][:200]}"))
            ctx.guard("jit-cases-raising")
            continue
        ctx.guard("jit-cases-compared")
        for k in eager:
            a, b = eager[k], jitted[k]
            if a.dtype.kind in "iub":
                same = np.array_equal(a, b)
            else:
                with np.errstate(invalid="ignore"):
                    a64, b64 = a.astype(np.float64), b.astype(np.float64)
                    same = bool(np.all((a64 == b64) | (np.abs(a64 - b64) <= 1e-5 * np.maximum(1.0, np.abs(a64)))))
            if not same:
                out.append((i, sig + f"differs-under-jit/{k}", tag + f": {k} op-by-op {a.tolist()} vs jitted {b.tolist()}"[:400]))
    return out


CLAUSES = {"dist": clause_dist, "ac": clause_ac, "q": clause_q, "cont": clause_cont, "jit": clause_jit}


# =============================================================================================
# enumeration
# =============================================================================================


def nonempty_masks(n: int):
    return [list(m) for m in itertools.product([False, True], repeat=n) if any(m)]


def product_masks(dims):
    """Every combination of per-dimension non-empty masks, flattened."""
    return [sum(combo, []) for combo in itertools.product(*[nonempty_masks(d) for d in dims])]


def all_bit_masks(n: int):
    return [list(m) for m in itertools.product([False, True], repeat=n)]


def policy_masks(act_kind, A):
    if act_kind == "discrete":
        return nonempty_masks(A)
    if act_kind == "multidiscrete":
        return product_masks((A, 2))
    return all_bit_masks(2)


def explore(ctx: Ctx):
    thorough = ctx.tier == "thorough"
    L5 = [-30.0, -1.0, 0.0, 2.0, 30.0]
    L4 = [-30.0, -1.0, 0.0, 30.0]
    L3 = [-30.0, 0.0, 2.0]
    kd = 512 if thorough else 64
    kp = 8192 if thorough else 4096
    k_dist = (key_ints(ctx.seed, 1, salt=0)[0], kd)
    k_ac = (key_ints(ctx.seed, 1, salt=1)[0], kp)
    k_q = (key_ints(ctx.seed, 1, salt=2)[0], kp)
    k_c = (key_ints(ctx.seed, 1, salt=3)[0], kp)
    ctx.rule = (
        "dist: every non-empty mask (every per-dimension non-empty mask combination for MultiCategorical, every "
        "mask for Bernoulli) x the full Cartesian grid of logits from {-30,-1,0,2,30} plus {-100,0,100} for n<=3 (ties, masked unmasked-argmax, gaps beyond float32 exp range "
        "included) x logits/probs parameterisation x flat/sequence mask form x a key block; ac/q: the real MLP policies "
        "on tabular MDPs, every MDP state as observation x every mask (delivered by the environment's action_mask) x "
        "parameter settings (random initialisations, sharpened heads, heads pinned to chosen logits) x call modes "
        "(keyed call, key-less call, action_and_value, evaluate_action on every joint action; Q: epsilon grid); "
        "cont: SAC / Box actor-critic, every state x parameter settings. "
        "non-trivial = the mask forbids at least one action (dist/ac/q), or any cont case"
    )
    ctx.assumptions = [
        "a False entry of a Bernoulli / MultiBinary mask forbids setting that bit (outcome 1); the all-zero action is always allowed",
        "keys limited to contiguous blocks of the alphabet K derived from VERIF_SEED: "
        f"{kd} keys per distribution case, {kp} per policy case; 'never for any key' and the frequency clauses are decided on these blocks only",
        f"frequency clauses: Bernstein / DKW bounds at the {DELTA} level per comparison (deterministic for a given seed); finite check, not a proof",
        "probability zero is judged in probability space: prob == 0 and exp(log_prob) == 0 in float64 (a finite but hugely negative fill would pass if it underflows in float64)",
        "policy reference is metamorphic: the policy's own unmasked evaluate_action log-probs, conditioned on the allowed set; heads pinned by the harness also get an absolute softmax reference",
        "SAC key-less action: the statement's 'mode' is accepted as either the maximiser of the reported density or the image of the base mode (median) - convention left open",
        "vector Box actions, Dict observations and recurrent policies are not enumerated; mask delivery through the collectors is C04/C05",
    ]
    ctx.exhaustive = False  # keys and real-valued parameters are bounded alphabets

    def nt(c):
        if c.get("mask") is not None and not all(c["mask"]):
            ctx.nontriv(chash({k: v for k, v in c.items() if k != "keys"}))

    # ---- dist ----------------------------------------------------------------------------
    cases = []
    for n in (2, 3, 4) + ((5,) if thorough else ()):
        grid = L5 if n <= 4 else L4
        for vals in itertools.product(grid, repeat=n):
            for m in nonempty_masks(n):
                cases.append(dict(kind="categorical", dims=[n], param="logits", values=list(vals), mask=m, keys=k_dist))
        if n <= 4:
            for vals in itertools.product(L4 if thorough else L3, repeat=n):
                for m in nonempty_masks(n):
                    cases.append(dict(kind="categorical", dims=[n], param="probs", values=list(vals), mask=m, keys=k_dist))
        if n <= 3:
            # extreme gaps: the forbidden logit dominates every allowed one by more than float32 exp() can represent
            # (exp(-88) underflows): a mask applied in probability space instead of logit space breaks down here
            for vals in itertools.product([-100.0, 0.0, 100.0], repeat=n):
                for m in nonempty_masks(n):
                    cases.append(dict(kind="categorical", dims=[n], param="logits", values=list(vals), mask=m, keys=k_dist))
    md = [((2, 3), L5 if thorough else L3), ((1, 2, 2), L3)] + ([((3, 2, 2), [-30.0, 0.0])] if thorough else [])
    for dims, grid in md:
        for vals in itertools.product(grid, repeat=sum(dims)):
            for m in product_masks(dims):
                for form in ("flat", "seq"):
                    cases.append(dict(kind="multicategorical", dims=list(dims), param="logits", values=list(vals), mask=m, form=form, keys=k_dist))
    for vals in itertools.product(L3, repeat=5):
        for m in product_masks((2, 3)):
            cases.append(dict(kind="multicategorical", dims=[2, 3], param="probs", values=list(vals), mask=m, form="flat", keys=k_dist))
    for n in (1, 2, 3) + ((4,) if thorough else ()):
        for vals in itertools.product(L5 if n <= 3 else L3, repeat=n):
            for m in all_bit_masks(n):
                for param in ("logits", "probs"):
                    if param == "probs" and any(abs(v) > 2 for v in vals):
                        continue  # P(1) of exactly 1.0 in float32 has no finite log-odds
                    cases.append(dict(kind="bernoulli", dims=[n], param=param, values=list(vals), mask=m, keys=k_dist))
    for c in cases:
        nt(c)
    ctx.run("dist", cases, chunk=40000)
    ctx.notes["dist_cases"] = len(cases)

    # ---- ac ------------------------------------------------------------------------------
    S = 3
    inits = [0, 1, 2] + ([3, 4, 5] if thorough else [])
    cases = []
    spaces = [("discrete", 2), ("discrete", 3), ("discrete", 4), ("multidiscrete", 2), ("multidiscrete", 3), ("multibinary", 2)]
    if thorough:
        spaces += [("discrete", 5), ("multidiscrete", 4)]
    for act_kind, A in spaces:
        P = mask_len(act_kind, A)
        pins = [[0.0] * P, [30.0] + [-30.0] * (P - 1), [-30.0] * (P - 1) + [30.0], [2.0, 0.0, -1.0, 0.0, 2.0, -1.0, 0.0][:P], [0.0, 2.0, 2.0, -1.0, 0.0, 2.0, 2.0][:P]]
        psets = [({"init": k}, range(S)) for k in inits]
        psets += [({"init": 0, "scale": 40.0}, range(S))]
        if thorough or (act_kind, A) in (("discrete", 3), ("multibinary", 2)):
            psets += [({"init": 1, "action_depth": 1}, range(S))]
        psets += [({"init": 0, "bias": b}, [0]) for b in pins]
        forms = ("flat", "seq") if act_kind == "multidiscrete" else ("flat",)
        for params, states in psets:
            for s in states:
                for m in [None] + policy_masks(act_kind, A):
                    for form in forms:
                        if m is None and form == "seq":
                            continue
                        cases.append(dict(act_kind=act_kind, A=A, S=S, params=params, s=s, mask=m, form=form, keys=k_ac))
    for c in cases:
        nt(c)
    ctx.run("ac", cases)
    ctx.notes["ac_cases"] = len(cases)

    # ---- q -------------------------------------------------------------------------------
    cases = []
    for A in (2, 3, 4) + ((5,) if thorough else ()):
        pins = [[0.0] * A, [30.0] + [-30.0] * (A - 1), [2.0, 0.0, -1.0, 0.0, 2.0][:A], [0.0, 2.0, 2.0, -1.0, 0.0][:A]]
        psets = [({"init": k}, range(S)) for k in inits[: (6 if thorough else 2)]]
        psets += [({"init": 0, "scale": 40.0}, range(S))]
        psets += [({"init": 0, "bias": b}, [0]) for b in pins]
        for params, states in psets:
            for eps in (0.0, 0.05, 0.3, 1.0):
                for s in states:
                    for m in [None] + nonempty_masks(A):
                        cases.append(dict(A=A, S=S, params=params, eps=eps, s=s, mask=m, keys=k_q))
    for c in cases:
        nt(c)
    ctx.run("q", cases)
    ctx.notes["q_cases"] = len(cases)

    # ---- cont ----------------------------------------------------------------------------
    cases = []
    for policy in ("sac", "ac"):
        psets = [{"init": k} for k in inits] + [{"init": 0, "scale": 4.0}, {"init": 1, "scale": -6.0}]
        if policy == "ac":
            psets.append({"init": 2, "log_std": -2.0})
        for params in psets:
            for s in range(S):
                c = dict(policy=policy, S=S, params=params, s=s, keys=k_c)
                cases.append(c)
                ctx.nontriv(chash({k: v for k, v in c.items() if k != "keys"}))
    ctx.run("cont", cases)
    ctx.notes["cont_cases"] = len(cases)

    # ---- jit -----------------------------------------------------------------------------
    k_j = (key_ints(ctx.seed, 1, salt=4)[0], 8)
    cases = []
    for kind, dims, forms, masks in (("categorical", (3,), ("flat",), nonempty_masks(3)), ("multicategorical", (2, 3), ("flat", "seq"), product_masks((2, 3))),
                                     ("bernoulli", (2,), ("flat",), all_bit_masks(2))):
        for vals in ([0.0] * sum(dims), [2.0, -1.0, 30.0, 0.0, 2.0][: sum(dims)]):
            for m in masks:
                for form in forms:
                    cases.append(dict(target="dist", kind=kind, dims=list(dims), values=vals, mask=m, form=form, keys=k_j))
    for act_kind, A in (("discrete", 3), ("multidiscrete", 2), ("multibinary", 2)):
        for m in [None] + policy_masks(act_kind, A):
            for form in (("flat", "seq") if act_kind == "multidiscrete" and m is not None else ("flat",)):
                cases.append(dict(target="ac", act_kind=act_kind, A=A, S=S, params={"init": 0}, s=1, mask=m, form=form, keys=k_j))
    for eps in (0.0, 0.3):
        for m in [None] + nonempty_masks(3):
            cases.append(dict(target="q", A=3, S=S, params={"init": 0}, eps=eps, s=1, mask=m, keys=k_j))
    for c in cases:
        nt(c)
    ctx.run("jit", cases)
    ctx.notes["jit_cases"] = len(cases)

    ctx.require(
        "dist-mask-hides-unmasked-argmax", "dist-single-allowed-action", "dist-tie-among-allowed-argmax",
        "ac-unmasked-greedy-is-masked", "ac-single-allowed-action", "ac-tie-among-allowed-argmax",
        "q-nongreedy-draws-seen", "q-unmasked-greedy-is-masked", "q-tie-among-greedy",
        "cont-logprob-pairs-judged", "jit-cases-compared",
    )
    ctx.notes["keys_per_case"] = {"dist": kd, "policies": kp}
    ctx.notes["exhaustive_axes"] = "masks: every admissible mask of every enumerated space (exhaustive); logits/parameters, observations, epsilons: finite grids; keys: finite blocks"
