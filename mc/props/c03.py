"""C03 - advantages / returns equal GAE, cut at episode ends.

Exhaustive over: rollout length T, ALL 2^T done patterns, a (gamma, lambda) grid and a spanning
set of (reward, value, bootstrap) vectors (GAE is linear in them for fixed dones/gamma/lambda;
dense vectors expose non-linear implementations).  Oracles: the recurrence of the statement and
three independent corollaries (non-interference across episode ends, lambda=1 Monte-Carlo,
lambda=0 one-step TD).  The multi-environment clause goes through the real PPO iteration.
"""

from __future__ import annotations

import itertools

import equinox as eqx
import jax
import numpy as np
from jax import numpy as jnp

from lerax.buffer import RolloutBuffer

from mc import collect, refs
from mc.core import Ctx, key_ints
from mc.policies import CounterState

LEVEL = "exploration"

GL = [0.0, 0.5, 0.9, 1.0]


def basis(T: int):
    """(r, V, V_T) vectors: unit vectors, all-ones, four dense integer vectors."""
    n = 2 * T + 1
    vs = [np.eye(n)[i] for i in range(n)]
    vs.append(np.ones(n))
    for k in range(4):
        vs.append(np.asarray([((i * 7 + k * 3) % 11) - 5 for i in range(n)], dtype=float))
    return vs


_GAE = {}


def gae_real(T: int):
    if T not in _GAE:

        @eqx.filter_jit
        def f(r, v, d, lv, lam, gam):
            def one(r, v, d, lv, lam, gam):
                buf = RolloutBuffer(
                    observations=jnp.zeros(T), actions=jnp.zeros(T), rewards=r, dones=d,
                    log_probs=jnp.zeros(T), values=v, states=CounterState(jnp.zeros(T, dtype=int)),
                )
                out = buf.compute_returns_and_advantages(lv, lam, gam)
                return out.advantages, out.returns

            return jax.vmap(one)(r, v, d, lv, lam, gam)

        _GAE[T] = f
    return _GAE[T]


def unpack(cases):
    r = np.asarray([c["r"] for c in cases], dtype=np.float64)
    v = np.asarray([c["v"] for c in cases], dtype=np.float64)
    d = np.asarray([c["dones"] for c in cases], dtype=bool)
    lv = np.asarray([c["last"] for c in cases], dtype=np.float64)
    lam = np.asarray([c["lam"] for c in cases], dtype=np.float64)
    gam = np.asarray([c["gamma"] for c in cases], dtype=np.float64)
    return r, v, d, lv, lam, gam


def run_real(cases):
    T = len(cases[0]["r"])
    r, v, d, lv, lam, gam = unpack(cases)
    adv, ret = gae_real(T)(jnp.asarray(r, float), jnp.asarray(v, float), jnp.asarray(d), jnp.asarray(lv, float), jnp.asarray(lam, float), jnp.asarray(gam, float))
    return np.asarray(adv), np.asarray(ret)


def by_T(cases):
    groups = {}
    for i, c in enumerate(cases):
        groups.setdefault(len(c["r"]), []).append(i)
    return groups


def clause_recurrence(cases, ctx: Ctx):
    out = []
    for T, idxs in by_T(cases).items():
        sub = [cases[i] for i in idxs]
        adv, ret = run_real(sub)
        r, v, d, lv, lam, gam = unpack(sub)
        # reference: the recurrence of the statement, per case (gamma/lambda vary per case)
        e_adv = np.zeros_like(r)
        nxt_a = np.zeros(len(sub))
        nxt_v = lv.copy()
        for t in range(T - 1, -1, -1):
            nd = 1.0 - d[:, t]
            delta = r[:, t] + gam * nd * nxt_v - v[:, t]
            nxt_a = delta + gam * lam * nd * nxt_a
            e_adv[:, t] = nxt_a
            nxt_v = v[:, t]
        e_ret = e_adv + v
        bad_a = ~refs.close(adv, e_adv, 2e-5)
        bad_r = ~refs.close(ret, e_ret, 2e-5)
        for k in np.nonzero(bad_a.any(1))[0][:5]:
            t = int(np.nonzero(bad_a[k])[0][0])
            out.append((idxs[k], "C03/recurrence/advantage", f"T={T} dones={d[k].astype(int).tolist()} gamma={gam[k]} lambda={lam[k]}: A[{t}]={adv[k, t]} reference {e_adv[k, t]}"))
        for k in np.nonzero(bad_r.any(1) & ~bad_a.any(1))[0][:5]:
            t = int(np.nonzero(bad_r[k])[0][0])
            out.append((idxs[k], "C03/recurrence/return", f"T={T} dones={d[k].astype(int).tolist()}: return[{t}]={ret[k, t]} reference A+V={e_ret[k, t]}"))
        # corollaries
        for k in range(len(sub)):
            if lam[k] == 1.0:
                # discounted Monte-Carlo return to the episode end (+ gamma^k bootstrap if none)
                mc = np.zeros(T)
                run = lv[k]
                for t in range(T - 1, -1, -1):
                    run = r[k, t] + gam[k] * (0.0 if d[k, t] else run)
                    mc[t] = run
                if not np.all(refs.close(ret[k], mc, 2e-5)):
                    out.append((idxs[k], "C03/corollary/lambda1-monte-carlo", f"T={T} dones={d[k].astype(int).tolist()} gamma={gam[k]}: returns {ret[k].tolist()} != discounted Monte-Carlo {mc.tolist()}"))
            if lam[k] == 0.0:
                nv = np.concatenate([v[k, 1:], [lv[k]]])
                td = r[k] + gam[k] * (1.0 - d[k]) * nv - v[k]
                if not np.all(refs.close(adv[k], td, 2e-5)):
                    out.append((idxs[k], "C03/corollary/lambda0-td-error", f"T={T} dones={d[k].astype(int).tolist()} gamma={gam[k]}: advantages {adv[k].tolist()} != one-step TD errors {td.tolist()}"))
    return out


def clause_noninterference(cases, ctx: Ctx):
    """Changing anything recorded after a done at index cut leaves outputs at indices <= cut bit-identical."""
    out = []
    for T, idxs in by_T(cases).items():
        sub = [cases[i] for i in idxs]
        adv, ret = run_real(sub)
        pert = []
        for c in sub:
            cut = c["cut"]
            p = dict(c)
            p["r"] = [x + (1000.0 if t > cut else 0.0) for t, x in enumerate(c["r"])]
            p["v"] = [x - (777.0 if t > cut else 0.0) for t, x in enumerate(c["v"])]
            p["last"] = c["last"] + 555.0
            p["dones"] = [bool(x) if t <= cut else (not bool(x)) for t, x in enumerate(c["dones"])]
            pert.append(p)
        adv2, ret2 = run_real(pert)
        for k, c in enumerate(sub):
            cut = c["cut"]
            if not (np.array_equal(adv[k, : cut + 1], adv2[k, : cut + 1]) and np.array_equal(ret[k, : cut + 1], ret2[k, : cut + 1])):
                out.append((idxs[k], "C03/corollary/interference-across-episode-end", f"T={T} dones={c['dones']} done at {cut}: changing rows after {cut} changed advantages[:{cut + 1}] from {adv[k, :cut + 1].tolist()} to {adv2[k, :cut + 1].tolist()}"))
    return out


def clause_multienv(cases, ctx: Ctx):
    """Real PPO iteration with several parallel environments: each stream estimated on its own."""
    out = []
    groups = {}
    for i, c in enumerate(cases):
        groups.setdefault(collect.static_key(c), []).append(i)
    for _, idxs in groups.items():
        sub = [cases[i] for i in idxs]
        c0 = sub[0]
        E, N = c0["num_envs"], len(sub)
        has_tl = bool(c0.get("tl"))
        st0, st1, buf, _ = collect.run_onpolicy(sub)
        tb = refs.Tables(sub, repeat=E)
        flat = lambda x: np.asarray(x).reshape((N * E,) + np.asarray(x).shape[2:])
        fs, _, _ = collect.unwrap_env_state(st1.env_state, has_tl)
        last_v = tb.V[np.arange(N * E), flat(fs).astype(int)]
        e_adv, e_ret = refs.gae_np(flat(buf.rewards), flat(buf.values), flat(buf.dones), last_v, c0["gamma"], c0["lam"])
        bad = ~(refs.close(flat(buf.advantages), e_adv, 2e-5).all(1) & refs.close(flat(buf.returns), e_ret, 2e-5).all(1))
        d = flat(buf.dones)
        pats = d.reshape(N, E, -1)
        ctx.guard("multienv-different-done-patterns", int(sum(len({tuple(p) for p in pats[n].tolist()}) > 1 for n in range(N))))
        for s in np.nonzero(bad)[0][:5]:
            out.append((idxs[s // E], "C03/multienv/stream-not-estimated-on-its-own", f"env {s % E} of {E}: dones {d[s].astype(int).tolist()} advantages {flat(buf.advantages)[s].tolist()} reference {e_adv[s].tolist()}"))
    return out


def clause_dtypes(cases, ctx: Ctx):
    """case: {r, v, last, dones, gamma, lam, how}: the hyper-parameters arrive as Python ints / numpy integers / 0-d integer arrays
    (gamma = 1 and lambda in {0, 1} are legal integers): the result must be the one for the same numbers given as floats."""
    out = []
    for ci, c in enumerate(cases):
        T = len(c["r"])
        buf = RolloutBuffer(observations=jnp.zeros(T), actions=jnp.zeros(T), rewards=jnp.asarray(c["r"], float), dones=jnp.asarray(c["dones"], bool),
                            log_probs=jnp.zeros(T), values=jnp.asarray(c["v"], float), states=CounterState(jnp.zeros(T, dtype=int)))
        conv = {"python-int": int, "numpy-int64": np.int64, "jax-int-array": lambda x: jnp.asarray(x, dtype=int)}[c["how"]]
        g = conv(c["gamma"]) if float(c["gamma"]).is_integer() else c["gamma"]
        l = conv(c["lam"]) if float(c["lam"]).is_integer() else c["lam"]
        got = buf.compute_returns_and_advantages(jnp.asarray(c["last"], float), l, g)
        e_adv, e_ret = refs.gae_np(np.asarray([c["r"]]), np.asarray([c["v"]]), np.asarray([c["dones"]]), np.asarray([c["last"]]), float(c["gamma"]), float(c["lam"]))
        ctx.guard("integer-typed-hyperparameters")
        if not (refs.close(np.asarray(got.advantages), e_adv[0], 2e-5).all() and refs.close(np.asarray(got.returns), e_ret[0], 2e-5).all()):
            out.append((ci, f"C03/dtypes/{c['how']}", f"gamma={c['gamma']!r} lambda={c['lam']!r} passed as {c['how']} where integral: advantages {np.asarray(got.advantages).tolist()}, reference {e_adv[0].tolist()} (dones {c['dones']})"))
    return out


def clause_streams(cases, ctx: Ctx):
    """The same real iterations judged against the reference collector, whose episode ends come from the MDP tables and the clocks -
    NOT from the buffer's own `dones` (clause multienv re-derives GAE from the stored flags, so a collector that stores wrong flags
    - e.g. leaves a truncation-only end unflagged - would pass it): stored episode-end flags and the advantages / returns cut at the
    TRUE episode ends."""
    from mc.props.c04 import clause_collect

    keep = ("/gae/", "/row/done", "/reward/bootstrap")
    return [(i, s.replace("C04/", "C03/stream/"), m) for (i, s, m) in clause_collect(cases, ctx) if any(k in s for k in keep)]


CLAUSES = {"recurrence": clause_recurrence, "noninterference": clause_noninterference, "multienv": clause_multienv, "streams": clause_streams, "dtypes": clause_dtypes}


def explore(ctx: Ctx):
    thorough = ctx.tier == "thorough"
    Tmax = 8 if thorough else 6
    ctx.rule = (
        "for every T in 1..Tmax: all 2^T done patterns x (gamma, lambda) in {0,.5,.9,1}^2 x spanning (r,V,V_T) set "
        "(2T+1 unit vectors, ones, 4 dense integer vectors), each evaluated by the real "
        "RolloutBuffer.compute_returns_and_advantages; non-interference for every done position; multi-env through "
        "the real PPO iteration on tabular MDPs. non-trivial = a case whose done pattern contains an episode end"
    )
    ctx.assumptions = ["float32 results compared with the float64 recurrence at 2e-5 relative"]
    rec, non = [], []
    for T in range(1, Tmax + 1):
        vs = basis(T)
        for dones in itertools.product([False, True], repeat=T):
            for g, l in itertools.product(GL, GL):
                for vi, vec in enumerate(vs):
                    if any(dones):
                        ctx.nontriv((T, dones, g, l, vi))
                    rec.append(dict(r=vec[:T].tolist(), v=vec[T : 2 * T].tolist(), last=float(vec[2 * T]), dones=list(dones), gamma=g, lam=l))
            for cut in range(T - 1):
                if dones[cut]:
                    ctx.guard("noninterference-cases")
                    for g, l in [(0.9, 0.9), (1.0, 1.0), (0.5, 1.0)]:
                        vec = vs[-1]
                        non.append(dict(r=vec[:T].tolist(), v=vec[T : 2 * T].tolist(), last=float(vec[2 * T]), dones=list(dones), gamma=g, lam=l, cut=cut))
    ctx.run("recurrence", rec, chunk=200000)
    ctx.run("noninterference", non)
    # multi-env via the real collector
    from mc.props.c04 import family, scripts_full

    keys = key_ints(ctx.seed, 2)
    multi = []
    for E in (2, 3):
        for tab in family(3, 2, shaped=True, limits=[(0, 0), (0, 3)]):
            if sum(tab["init"]) < 2:
                continue  # parallel environments must be able to start (and hence end episodes) differently
            for sc in scripts_full("discrete", 2, 4):
                for k in keys:
                    multi.append(dict(tab, algo="PPO", script=sc, num_envs=E, num_steps=4, key=k, gamma=0.5, lam=0.25))
    vec = basis(3)[-1]
    dt = [dict(r=vec[:3].tolist(), v=vec[3:6].tolist(), last=float(vec[6]), dones=list(d), gamma=g, lam=l, how=h)
          for d in itertools.product([False, True], repeat=3) for (g, l) in ((1, 0.5), (1, 0.9), (0.9, 1), (1, 1), (0.5, 0), (0, 0.5))
          for h in ("python-int", "numpy-int64", "jax-int-array")]
    ctx.run("dtypes", dt)
    ctx.run("multienv", multi)
    # + a policy whose value depends on its own state (V(obs, c) = V[obs] + 3c): the bootstrap value V_T must come from the policy
    #   state carried out of the rollout, not from one recorded inside it
    ctx.run("streams", multi[:: (1 if thorough else 2)] + [dict(c, algo=a) for c in multi[::7] for a in ("A2C", "REINFORCE")]
            + [dict(c, algo=a, VS=3.0) for c in multi[::5] for a in ("PPO", "A2C")])
    ctx.require("noninterference-cases", "multienv-different-done-patterns", "trunc_only", "term_only")
    ctx.notes["Tmax"] = Tmax
