"""C17 (classic-control half) - CartPole / MountainCar / ContinuousMountainCar / Acrobot realise
their Gymnasium reference MDPs.

Reference = gymnasium 1.3.0's own classes (gymnasium.envs.classic_control), driven by *setting their
`state`* and calling their unmodified `step` / `reset` / `_dsdt`.  Nothing of the reference is
re-implemented here; the only reference-side manipulations are

* instance attributes set to +-inf to switch a reference limit off (to obtain the reference's own
  pre-limit state, so that "the reference's post-processing" is a map between two gymnasium results),
* a recording stand-in for `np_random` during `reset()` to read the reference's reset box,
* reading public parameters (thresholds, tau) to decide that a float comparison is ill-conditioned.

Clauses (every case is one (environment, options, state, action) point or one key / key block):

  field        env.dynamics(y, a)                vs field extracted from the reference
  limits       env.clip(pre-limit state)         vs the reference's limited state
  transition   env.reward(s,a,s'), terminal(s')  vs reference reward / terminated on the SAME (s,a,s')
  step         env.transition (default solver)   vs flow of the reference field over the reference's
                                                    step duration (tolerance: explicit Euler's own error)
  initial      env.initial(key) inside the reference's reset box, t = 0
  spread       a 256-key block covers > 90 % of every non-degenerate side of that box
  euler        CartPole(solver=Euler) action trees vs gymnasium CartPole-v1 trajectories (1e-5)

All signatures start with "C17/classic/".
"""

from __future__ import annotations

import itertools
import math
import warnings

import diffrax
import equinox as eqx
import jax
import numpy as np
from jax import numpy as jnp
from jax import random as jr

from mc.core import Ctx, HarnessError, key_ints

LEVEL = "exploration"
P = "C17/classic"
ENVS = ("CartPole", "MountainCar", "ContinuousMountainCar", "Acrobot")
DISCRETE = {"CartPole": 2, "MountainCar": 3, "Acrobot": 3}


# =====================================================================================
# the two sides
# =====================================================================================
def _opts_key(opts):
    return tuple(sorted((opts or {}).items()))


def make_gym(name: str, opts: dict | None = None):
    """A fresh, unwrapped gymnasium reference environment."""
    from gymnasium.envs.classic_control import acrobot, cartpole, continuous_mountain_car, mountain_car

    opts = opts or {}
    if name == "CartPole":
        g = cartpole.CartPoleEnv(**opts)
    elif name == "MountainCar":
        g = mountain_car.MountainCarEnv(**opts)
    elif name == "ContinuousMountainCar":
        g = continuous_mountain_car.Continuous_MountainCarEnv(**opts)
    elif name == "Acrobot":
        g = acrobot.AcrobotEnv(**opts)
    else:
        raise HarnessError(f"unknown environment {name}")
    return g


_GYM = {}


def gym_of(name, opts=None, variant="full"):
    """Cached reference instance.  variant: 'full' | 'speed-only' (position walls off) | 'none'."""
    k = (name, _opts_key(opts), variant)
    if k not in _GYM:
        g = make_gym(name, opts)
        if variant != "full":
            if name not in ("MountainCar", "ContinuousMountainCar"):
                raise HarnessError("limit variants exist for the mountain cars only")
            g.min_position = -math.inf
            g.max_position = math.inf
            if variant == "none":
                g.max_speed = math.inf
        _GYM[k] = g
    return _GYM[k]


def g_step(g, name, y, a):
    """Drive the reference: set state y (float64), step with a; -> (next state f64, reward, terminated)."""
    y = np.asarray(y, dtype=np.float64)
    with warnings.catch_warnings():
        warnings.simplefilter("ignore")
        if name == "CartPole":
            g.state = y.copy()
            g.steps_beyond_terminated = None
            _, r, term, _, _ = g.step(int(a))
        elif name == "MountainCar":
            g.state = y.copy()
            _, r, term, _, _ = g.step(int(a))
        elif name == "ContinuousMountainCar":
            g.state = y.copy()
            _, r, term, _, _ = g.step(np.asarray([a], dtype=np.float64))
        else:
            g.state = y.copy()
            _, r, term, _, _ = g.step(int(a))
    return np.asarray(g.state, dtype=np.float64), float(r), bool(term)


def g_tau(name, g):
    """Step duration of the reference."""
    if name == "CartPole":
        return float(g.tau)
    if name == "Acrobot":
        return float(g.dt)
    # mountain cars: implicit in `position += velocity`; read it off an interior step
    y1, _, _ = g_step(gym_of(name, None, "none"), name, [-0.5, 0.03], 1 if name == "MountainCar" else 0.0)
    return float((y1[0] - (-0.5)) / y1[1])


def g_field(name, g, y, a):
    """Vector field of the reference at (y, a), float64, extracted where no limit is active."""
    y = np.asarray(y, dtype=np.float64)
    if name == "CartPole":
        y1, _, _ = g_step(g, name, y, a)  # explicit Euler, no limits: (step(y) - y) / tau
        return (y1 - y) / g.tau
    if name == "Acrobot":
        torque = g.AVAIL_TORQUE[int(a)]
        return np.asarray(g._dsdt(np.append(y, torque)), dtype=np.float64)[:4]
    # mountain cars: velocity' = (v1 - v) / tau on the limit-free variant; position' = velocity
    gn = gym_of(name, None, "none")
    y1, _, _ = g_step(gn, name, y, a)
    return np.asarray([y[1], (y1[1] - y[1]) / 1.0])


_LX = {}


class Lx:
    """The lerax side for one (environment, options, solver): jitted, vmapped entry points."""

    def __init__(self, name, opts, euler=False):
        from lerax.env import classic_control as cc

        cls = getattr(cc, name)
        kw = dict(opts or {})
        if euler:
            kw["solver"] = diffrax.Euler()
        env = self.env = cls(**kw)
        self.name = name
        k = jr.key(0)
        tmpl = env.initial(key=k)

        def mk(y, t=0.0):
            return eqx.tree_at(lambda s: (s.y, s.t), tmpl, (y, jnp.asarray(t, dtype=tmpl.t.dtype)))

        self.act_dtype = jnp.int32 if name in DISCRETE else jnp.float32
        self.field = eqx.filter_jit(jax.vmap(lambda y, a: env.dynamics(jnp.asarray(0.0), y, a)))
        self.clip = eqx.filter_jit(jax.vmap(lambda y: env.clip(y)))

        def rt(y0, a, y1):
            s0, s1 = mk(y0), mk(y1)
            return env.reward(s0, a, s1, key=k), env.terminal(s1, key=k), env.terminal(s0, key=k)

        self.rt = eqx.filter_jit(jax.vmap(rt))

        def tr(y0, a):
            s1 = env.transition(mk(y0), a, key=k)
            return s1.y, s1.t

        self.trans = eqx.filter_jit(jax.vmap(tr))

        def ini(ki):
            s = env.initial(key=jr.key(ki))
            return s.y, s.t

        self.init = eqx.filter_jit(jax.vmap(ini))

        def traj(y0, acts):
            def body(s, a):
                s1 = env.transition(s, a, key=k)
                return s1, (s1.y, env.reward(s, a, s1, key=k), env.terminal(s1, key=k))

            _, out = jax.lax.scan(body, mk(y0), acts)
            return out

        self.traj = eqx.filter_jit(jax.vmap(traj))

    def acts(self, a):
        return jnp.asarray(np.asarray(a), dtype=self.act_dtype)


def lx_of(name, opts=None, euler=False) -> Lx:
    k = (name, _opts_key(opts), euler)
    if k not in _LX:
        _LX[k] = Lx(name, opts, euler)
    return _LX[k]


def f32(y):
    """The float32 value lerax will see, as float64 (both sides are driven from this number)."""
    return np.asarray(np.asarray(y, dtype=np.float32), dtype=np.float64)


def groups(cases):
    """indices of cases by (env, options)."""
    out = {}
    for i, c in enumerate(cases):
        out.setdefault((c["env"], _opts_key(c.get("opts"))), []).append(i)
    return out


# coverage collected idempotently (sets of case keys), read by explore_classic
_COV: dict[str, set] = {}


def cov(name, key):
    _COV.setdefault(name, set()).add(key)


def ckey(c):
    return (c["env"], _opts_key(c.get("opts")), tuple(c.get("y", ())), c.get("a"))


# =====================================================================================
# ill-conditioning of the termination predicate (float32 state vs float64 reference)
# =====================================================================================
def term_robust(name, g, y):
    """True / False when the reference predicate at y is decided with a margin far above float32
    rounding of y; None when y sits on a threshold (such points are skipped and counted)."""
    if name == "CartPole":
        dx = abs(y[0]) - g.x_threshold
        dth = abs(y[2]) - g.theta_threshold_radians
        m = 1e-5
        if dx > m or dth > m:
            return True
        if dx < -m and dth < -m:
            return False
        return None
    if name in ("MountainCar", "ContinuousMountainCar"):
        cx = y[0] - g.goal_position
        cv = y[1] - g.goal_velocity
        mx, mv = 1e-5, 1e-7
        if cx < -mx or cv < -mv:
            return False
        if cx > mx and cv > mv:
            return True
        return None
    h = -math.cos(y[0]) - math.cos(y[0] + y[1])
    if abs(h - 1.0) > 1e-5:
        return h > 1.0
    return None


def term_site(name, g, y):
    """Which reference threshold a termination disagreement at y is about (signature only)."""
    if name == "CartPole":
        in_x = abs(y[0]) <= g.x_threshold
        in_th = abs(y[2]) <= g.theta_threshold_radians
        return "x-threshold" if in_th and not in_x else "theta-threshold" if in_x and not in_th else "thresholds"
    if name in ("MountainCar", "ContinuousMountainCar"):
        return "goal-position" if y[1] >= g.goal_velocity + 1e-7 else "goal-velocity"
    return "tip-height"


# =====================================================================================
# clauses
# =====================================================================================
_SCALE = {}


def field_scale(name):
    """Per-component magnitude of the reference field over the standard grid (fixed, so that the
    tolerance of a case does not depend on the batch it is judged in)."""
    if name not in _SCALE:
        g = gym_of(name, None)
        acts = actions_of(name, False)
        pts = list(state_grid(name, False))[:: 7 if name in ("CartPole", "Acrobot") else 1]
        _SCALE[name] = np.max(np.abs(np.stack([g_field(name, g, f32(y), a) for y in pts for a in acts])), axis=0)
    return _SCALE[name]


def clause_field(cases, ctx: Ctx):
    """case {env, opts, y, a}: lerax dynamics vs reference field at the same float32 point."""
    out = []
    for (name, ok), idx in groups(cases).items():
        opts = dict(ok)
        g = gym_of(name, opts)
        lx = lx_of(name, opts)
        ys = np.stack([f32(cases[i]["y"]) for i in idx])
        acts = [cases[i]["a"] for i in idx]
        got = np.asarray(lx.field(jnp.asarray(ys, dtype=jnp.float32), lx.acts(acts)), dtype=np.float64)
        ref = np.stack([g_field(name, g, y, a) for y, a in zip(ys, acts)])
        tol = 1e-5 * (np.abs(ref) + field_scale(name)[None, :]) + 1e-7
        bad = np.abs(got - ref) > tol
        for r in np.nonzero(bad.any(axis=1))[0]:
            comp = int(np.nonzero(bad[r])[0][0])
            out.append((idx[r], f"{P}/field/{name}/component-{comp}",
                        f"{name} dynamics at y={ys[r].tolist()} a={acts[r]}: lerax {got[r].tolist()} reference field {ref[r].tolist()}"))
        for i in idx:
            cov("field", ckey(cases[i]))
    return out


def _mc_limit_results(name, opts, y, a):
    yA, _, _ = g_step(gym_of(name, opts, "none"), name, y, a)
    yB, _, _ = g_step(gym_of(name, opts, "speed-only"), name, y, a)
    yC, _, _ = g_step(gym_of(name, opts, "full"), name, y, a)
    return yA, yB, yC


def clause_limits(cases, ctx: Ctx):
    """case {env, opts, y, a}.  The reference is stepped from (y, a) with limits switched off / on;
    lerax's clip applied to the reference's pre-limit state must give the reference's limited state."""
    out = []
    for (name, ok), idx in groups(cases).items():
        opts = dict(ok)
        g = gym_of(name, opts)
        lx = lx_of(name, opts)
        ys = [f32(cases[i]["y"]) for i in idx]
        acts = [cases[i]["a"] for i in idx]

        def lclip(arr):
            return np.asarray(lx.clip(jnp.asarray(np.stack(arr), dtype=jnp.float32)), dtype=np.float64)

        if name in ("MountainCar", "ContinuousMountainCar"):
            res = [_mc_limit_results(name, opts, y, a) for y, a in zip(ys, acts)]
            cA = lclip([r[0] for r in res])
            cB = lclip([r[1] for r in res])
            for r, (yA, yB, yC) in enumerate(res):
                i = idx[r]
                # (1) speed limit, judged where the position is strictly inside the walls
                if g.min_position + 1e-3 < yA[0] < g.max_position - 1e-3:
                    if abs(yA[1]) > g.max_speed:
                        cov("limit:speed-clip", ckey(cases[i]))
                    if abs(cA[r][1] - yB[1]) > 1e-6:
                        out.append((i, f"{P}/limits/{name}/speed-clip",
                                    f"{name} clip({yA.tolist()})[velocity] = {cA[r][1]}, reference limits the speed to {yB[1]}"))
                # (2) position walls and the left-wall velocity rule, from the speed-limited state
                if abs(yB[0] - g.min_position) < 1e-6 and yB[1] < 0:
                    cov("limit:skipped-on-the-wall", ckey(cases[i]))
                    continue
                if yB[0] < g.min_position:
                    cov("limit:left-wall", ckey(cases[i]))
                    if yB[1] < 0:
                        cov("limit:left-wall-velocity", ckey(cases[i]))
                if yB[0] > g.max_position:
                    cov("limit:right-wall", ckey(cases[i]))
                if abs(cB[r][0] - yC[0]) > 1e-6:
                    side = "left" if yB[0] < 0 else "right"
                    out.append((i, f"{P}/limits/{name}/{side}-wall-position",
                                f"{name} clip({yB.tolist()})[position] = {cB[r][0]}, reference {yC[0]}"))
                if abs(cB[r][1] - yC[1]) > 1e-6:
                    cls = "left-wall-velocity" if yB[0] <= g.min_position + 1e-6 else "velocity-after-walls"
                    out.append((i, f"{P}/limits/{name}/{cls}",
                                f"{name} clip({yB.tolist()}) = {cB[r].tolist()}, reference after its position walls: {yC.tolist()} "
                                f"(reference pre-state {ys[r].tolist()}, action {acts[r]})"))
        elif name == "Acrobot":
            from gymnasium.envs.classic_control.acrobot import rk4

            pre, post = [], []
            for y, a in zip(ys, acts):
                torque = g.AVAIL_TORQUE[int(a)]
                yA = np.asarray(rk4(g._dsdt, np.append(y, torque), [0, g.dt]), dtype=np.float64)[:4]
                yC, _, _ = g_step(g, name, y, a)
                pre.append(yA)
                post.append(yC)
            c = lclip(pre)
            for r, (yA, yC) in enumerate(zip(pre, post)):
                i = idx[r]
                for j in (0, 1):
                    if abs(yA[j]) > math.pi:
                        cov("limit:angle-wrap", ckey(cases[i]))
                    d = (c[r][j] - yC[j] + math.pi) % (2 * math.pi) - math.pi
                    if abs(d) > 2e-5 or abs(c[r][j]) > math.pi + 1e-5:
                        out.append((i, f"{P}/limits/{name}/angle-wrap",
                                    f"Acrobot clip({yA.tolist()})[angle {j}] = {c[r][j]}, reference wraps to {yC[j]} (compared modulo 2 pi, must lie in [-pi, pi])"))
                for j, vmax in ((2, g.MAX_VEL_1), (3, g.MAX_VEL_2)):
                    if abs(yA[j]) > vmax:
                        cov("limit:velocity-bound", ckey(cases[i]))
                    if abs(c[r][j] - yC[j]) > 1e-5 * max(1.0, abs(yC[j])):
                        out.append((i, f"{P}/limits/{name}/velocity-bound-{j - 1}",
                                    f"Acrobot clip({yA.tolist()})[velocity {j - 1}] = {c[r][j]}, reference bounds it to {yC[j]}"))
        else:  # CartPole: the reference has no state limit at all
            post = []
            for y, a in zip(ys, acts):
                yC, _, _ = g_step(g, name, y, a)
                # harness-side evidence that the reference limits nothing: kinematic components
                if abs(yC[0] - (y[0] + g.tau * y[1])) > 1e-9 * max(1, abs(yC[0])) or abs(yC[2] - (y[2] + g.tau * y[3])) > 1e-9 * max(1, abs(yC[2])):
                    raise HarnessError("gymnasium CartPole limits position/angle - reference assumption broken")
                post.append(f32(yC))
            c = lclip(post)
            for r, yC in enumerate(post):
                i = idx[r]
                if abs(yC[0]) > 2 * g.x_threshold or abs(yC[2]) > 2 * g.theta_threshold_radians:
                    cov("limit:cartpole-beyond-observation-box", ckey(cases[i]))
                if np.any(np.abs(c[r] - yC) > 1e-6 * np.maximum(1.0, np.abs(yC))):
                    out.append((i, f"{P}/limits/{name}/state-altered",
                                f"CartPole clip({yC.tolist()}) = {c[r].tolist()}; the reference applies no state limit"))
    return out


def clause_transition(cases, ctx: Ctx):
    """case {env, opts, y, a}.  The reference is stepped from (y, a) to y1; lerax reward(y, a, y1) and
    terminal(y1) are evaluated on that very transition."""
    out = []
    for (name, ok), idx in groups(cases).items():
        opts = dict(ok)
        g = gym_of(name, opts)
        lx = lx_of(name, opts)
        ys = [f32(cases[i]["y"]) for i in idx]
        acts = [cases[i]["a"] for i in idx]
        ref = [g_step(g, name, y, a) for y, a in zip(ys, acts)]
        y1s = [f32(r[0]) for r in ref]
        rew, t1, t0 = lx.rt(jnp.asarray(np.stack(ys), dtype=jnp.float32), lx.acts(acts), jnp.asarray(np.stack(y1s), dtype=jnp.float32))
        rew, t1, t0 = np.asarray(rew, dtype=np.float64), np.asarray(t1), np.asarray(t0)
        for r, i in enumerate(idx):
            y1, r_ref, term_ref = ref[r]
            rob1 = term_robust(name, g, y1s[r])
            rob0 = term_robust(name, g, ys[r])
            k = ckey(cases[i])
            if rob1 is None:
                cov("transition:skipped-on-threshold", k)
                continue
            if rob1 != term_ref:
                raise HarnessError(f"margin predicate disagrees with gymnasium's terminated at {y1.tolist()} ({name})")
            if term_ref:
                cov("transition:terminal", k)
                cov(f"transition:terminal:{name}", k)
                if rob0 is False:
                    cov("transition:entering", k)
                    cov(f"transition:entering:{name}", k)
            if name != "CartPole" and name != "Acrobot" and g.goal_velocity > 0 and y1s[r][0] > g.goal_position + 1e-5 and 0 <= y1s[r][1] < g.goal_velocity - 1e-7:
                cov("transition:goal-velocity-decides", k)
            agree = True
            if bool(t1[r]) != term_ref:
                agree = False
                side = "reference-terminates-lerax-does-not" if term_ref else "lerax-terminates-reference-does-not"
                out.append((i, f"{P}/terminal/{name}/{term_site(name, g, y1s[r])}/{side}",
                            f"{name}{opts or ''} state {y1s[r].tolist()} (reached from {ys[r].tolist()} by action {acts[r]}): "
                            f"gymnasium terminated={term_ref}, lerax terminal={bool(t1[r])}"))
            if rob0 is not None and bool(t0[r]) != rob0:
                agree = False  # reported when that state is reached as a successor
            if abs(rew[r] - r_ref) > 1e-5 * max(1.0, abs(r_ref)):
                if not agree:
                    cls = "where-terminal-predicates-disagree"
                elif term_ref and rob0 is False:
                    cls = "goal-entering-step"
                elif rob0 is None or rob0:
                    cls = "step-from-terminal-state"
                else:
                    cls = "ordinary-step"
                out.append((i, f"{P}/reward/{name}/{cls}",
                            f"{name}{opts or ''} transition {ys[r].tolist()} --{acts[r]}--> {y1s[r].tolist()} (reference terminated={term_ref}): "
                            f"gymnasium reward {r_ref}, lerax reward {rew[r]}"))
    return out


def _flow(name, g, y, a, tau, n=32):
    """float64 RK4 flow of the reference field over tau (n substeps) and one explicit Euler step."""
    f = lambda z: g_field(name, g, z, a)
    h = tau / n
    z = np.asarray(y, dtype=np.float64)
    for _ in range(n):
        k1 = f(z)
        k2 = f(z + h / 2 * k1)
        k3 = f(z + h / 2 * k2)
        k4 = f(z + h * k3)
        z = z + h / 6 * (k1 + 2 * k2 + 2 * k3 + k4)
    return z, np.asarray(y, dtype=np.float64) + tau * f(np.asarray(y, dtype=np.float64))


def clause_step(cases, ctx: Ctx):
    """case {env, opts, y, a}: lerax transition with the DEFAULT solver vs the flow of the reference
    field over the reference's step duration; judged only where the end point is strictly inside
    every reference limit; tolerance = 2 x (max-norm error of one explicit Euler step) + 1e-5 relative."""
    out = []
    for (name, ok), idx in groups(cases).items():
        opts = dict(ok)
        g = gym_of(name, opts)
        lx = lx_of(name, opts)
        tau = g_tau(name, g)
        ys = [f32(cases[i]["y"]) for i in idx]
        acts = [cases[i]["a"] for i in idx]
        y1, t1 = lx.trans(jnp.asarray(np.stack(ys), dtype=jnp.float32), lx.acts(acts))
        y1, t1 = np.asarray(y1, dtype=np.float64), np.asarray(t1, dtype=np.float64)
        for r, i in enumerate(idx):
            flow, eul = _flow(name, g, ys[r], acts[r], tau)
            k = ckey(cases[i])
            err_e = np.abs(eul - flow)
            tol = 2.0 * float(np.max(err_e)) + 1e-5 * np.maximum(1.0, np.abs(flow))
            if name in ("MountainCar", "ContinuousMountainCar"):
                inside = (g.min_position + 2 * tol[0] + 1e-3 < flow[0] < g.max_position - 2 * tol[0] - 1e-3) and abs(flow[1]) < g.max_speed - 2 * tol[1] - 1e-4
            elif name == "Acrobot":
                inside = abs(flow[2]) < g.MAX_VEL_1 - 2 * tol[2] - 1e-3 and abs(flow[3]) < g.MAX_VEL_2 - 2 * tol[3] - 1e-3
            else:
                inside = True
            if not inside:
                cov("step:skipped-limit-active", k)
                continue
            cov("step:judged", k)
            d = y1[r] - flow
            if name == "Acrobot":
                d[:2] = (d[:2] + math.pi) % (2 * math.pi) - math.pi
            if np.any(np.abs(d) > tol):
                out.append((i, f"{P}/step/{name}/flow-over-step-duration",
                            f"{name} transition from {ys[r].tolist()} with action {acts[r]}: lerax {y1[r].tolist()}, flow of the reference field over tau={tau}: {flow.tolist()} (tolerance {tol.tolist()})"))
    return out


class _Recorder:
    """Stand-in for np_random during the reference's reset(): records the box it draws from."""

    def __init__(self, end):
        self.end, self.calls = end, []

    def uniform(self, low=0.0, high=1.0, size=None):
        self.calls.append((low, high, size))
        v = low if self.end == 0 else high
        return np.full(size, v, dtype=np.float64) if size is not None else float(v)


_BOX = {}


def reset_box(name, opts=None):
    """(lo, hi) of the reference's reset distribution, per state component, read off reset()."""
    k = (name, _opts_key(opts))
    if k not in _BOX:
        ends = []
        for end in (0, 1):
            g = make_gym(name, opts)
            rec = _Recorder(end)
            g._np_random = rec
            g.reset()
            if not rec.calls:
                raise HarnessError(f"gymnasium {name}.reset() did not draw from np_random.uniform")
            ends.append(np.asarray(g.state, dtype=np.float64))
        _BOX[k] = (ends[0], ends[1])
    return _BOX[k]


def clause_initial(cases, ctx: Ctx):
    """case {env, opts, key}: lerax initial(key) lies in the reference's reset box, clock at 0."""
    out = []
    for (name, ok), idx in groups(cases).items():
        opts = dict(ok)
        lo, hi = reset_box(name, opts)
        lx = lx_of(name, opts)
        ys, ts = lx.init(jnp.asarray([cases[i]["key"] for i in idx], dtype=jnp.uint32))
        ys, ts = np.asarray(ys, dtype=np.float64), np.asarray(ts, dtype=np.float64)
        for r, i in enumerate(idx):
            y = ys[r]
            if y.shape != lo.shape:
                out.append((i, f"{P}/initial/{name}/state-shape", f"{name} initial state shape {y.shape}, reference {lo.shape}"))
                continue
            eps = 1e-7 * np.maximum(1.0, np.maximum(np.abs(lo), np.abs(hi)))
            if np.any(y < lo - eps) or np.any(y > hi + eps) or not np.all(np.isfinite(y)):
                out.append((i, f"{P}/initial/{name}/outside-reset-box",
                            f"{name} initial(key({cases[i]['key']})) = {y.tolist()} outside the reference reset box [{lo.tolist()}, {hi.tolist()}]"))
            if ts[r] != 0.0:
                out.append((i, f"{P}/initial/{name}/clock-not-zero", f"{name} initial state has t={ts[r]}"))
    return out


def clause_spread(cases, ctx: Ctx):
    """case {env, opts, keys:[...]}: the block's samples span > 90 % of each non-degenerate box side.
    Deterministic key block; for 256 uniform draws P(span <= 0.9) ~ 5e-11 per component."""
    out = []
    for i, c in enumerate(cases):
        name, opts = c["env"], c.get("opts")
        lo, hi = reset_box(name, opts)
        lx = lx_of(name, opts)
        ys, _ = lx.init(jnp.asarray(c["keys"], dtype=jnp.uint32))
        ys = np.asarray(ys, dtype=np.float64)
        for j in range(len(lo)):
            w = hi[j] - lo[j]
            if w <= 0:
                continue
            span = (ys[:, j].max() - ys[:, j].min()) / w
            if span <= 0.9:
                out.append((i, f"{P}/spread/{name}/narrower-than-reference",
                            f"{name} initial over {len(c['keys'])} keys: component {j} spans [{ys[:, j].min()}, {ys[:, j].max()}] = {span:.3f} of the reference interval [{lo[j]}, {hi[j]}]"))
    return out


_V1 = {}


def clause_euler(cases, ctx: Ctx):
    """case {y, actions}: CartPole(solver=diffrax.Euler()) vs gymnasium CartPole-v1, step by step until
    the reference terminates (inclusive): state 1e-5, reward, terminated."""
    import gymnasium

    if "g" not in _V1:
        with warnings.catch_warnings():
            warnings.simplefilter("ignore")
            _V1["g"] = gymnasium.make("CartPole-v1").unwrapped
    g = _V1["g"]
    lx = lx_of("CartPole", None, euler=True)
    out = []
    by_len = {}
    for i, c in enumerate(cases):
        by_len.setdefault(len(c["actions"]), []).append(i)
    for L, idx in by_len.items():
        y0 = np.stack([f32(cases[i]["y"]) for i in idx])
        acts = np.asarray([cases[i]["actions"] for i in idx], dtype=np.int32)
        ys, rews, terms = lx.traj(jnp.asarray(y0, dtype=jnp.float32), jnp.asarray(acts))
        ys, rews, terms = np.asarray(ys, dtype=np.float64), np.asarray(rews, dtype=np.float64), np.asarray(terms)
        for r, i in enumerate(idx):
            y = y0[r]
            ended = False
            for s in range(L):
                y, r_ref, term_ref = g_step(g, "CartPole", y, int(acts[r, s]))
                where = f"CartPole(Euler) from {y0[r].tolist()} actions {acts[r, : s + 1].tolist()}"
                if np.any(np.abs(ys[r, s] - y) > 1e-5 * np.maximum(1.0, np.abs(y))):
                    out.append((i, f"{P}/euler/CartPole/state", f"{where}: lerax state {ys[r, s].tolist()}, gymnasium CartPole-v1 {y.tolist()}"))
                    break
                if abs(rews[r, s] - r_ref) > 1e-6:
                    out.append((i, f"{P}/euler/CartPole/reward", f"{where}: lerax reward {rews[r, s]}, gymnasium {r_ref}"))
                rob = term_robust("CartPole", g, y)
                if rob is not None and bool(terms[r, s]) != term_ref:
                    out.append((i, f"{P}/euler/CartPole/terminated", f"{where}: lerax terminal {bool(terms[r, s])}, gymnasium {term_ref} at {y.tolist()}"))
                    break
                if term_ref:
                    ended = True
                    break
            cov("euler:terminated" if ended else "euler:survived", (tuple(cases[i]["y"]), tuple(cases[i]["actions"])))
    return out


CLAUSES = {
    "classic_field": clause_field,
    "classic_limits": clause_limits,
    "classic_transition": clause_transition,
    "classic_step": clause_step,
    "classic_initial": clause_initial,
    "classic_spread": clause_spread,
    "classic_euler": clause_euler,
}


# =====================================================================================
# enumeration
# =====================================================================================
def lin(lo, hi, n):
    return [float(v) for v in np.linspace(lo, hi, n)]


def actions_of(name, thorough=False):
    if name in DISCRETE:
        return list(range(DISCRETE[name]))
    return lin(-1.0, 1.0, 17 if thorough else 9)


def state_grid(name, thorough):
    """Full Cartesian grid over the state space (limits and the goal/terminal region included)."""
    pi = math.pi
    if name == "CartPole":
        n = 13 if thorough else 9
        return itertools.product(lin(-4.8, 4.8, n), lin(-3.0, 3.0, n), lin(-0.418, 0.418, n), lin(-3.5, 3.5, n))
    if name in ("MountainCar", "ContinuousMountainCar"):
        n = 81 if thorough else 41
        return itertools.product(lin(-1.2, 0.6, n), lin(-0.07, 0.07, n))
    n = 13 if thorough else 9
    return itertools.product(lin(-pi, pi, n), lin(-pi, pi, n), lin(-4 * pi, 4 * pi, n), lin(-9 * pi, 9 * pi, n))


def threshold_grid(name, opts, thorough):
    """Pre-states whose reference successors straddle every termination threshold closely."""
    pi = math.pi
    offs = [-3e-2, -1e-3, -1e-4, 1e-4, 1e-3, 3e-2]
    if name == "CartPole":
        xs = [s * (2.4 + o) for s in (-1, 1) for o in offs] + [0.0]
        ths = [s * (12 * 2 * pi / 360 + o) for s in (-1, 1) for o in offs] + [0.0]
        return itertools.product(xs, [-0.5, 0.0, 0.5], ths, [-0.5, 0.0, 0.5])
    if name in ("MountainCar", "ContinuousMountainCar"):
        gv = (opts or {}).get("goal_velocity", 0.0)
        xs = sorted({round(gp + o - v, 6) for gp in (0.45, 0.5) for o in offs for v in (0.0, 0.02, 0.05)})
        vs = sorted({gv + o for o in (-0.02, -0.004, -0.001, 0.0, 0.001, 0.004, 0.02)} | {0.0, 0.05, 0.07})
        return itertools.product(xs, vs)
    # Acrobot: tip height -cos(t1) - cos(t1 + t2) around 1, at rest and moving
    t1s = lin(-pi, pi, 25 if thorough else 17)
    t2s = lin(-pi, pi, 25 if thorough else 17)
    return itertools.product(t1s, t2s, [-2.0, 0.0, 2.0], [-3.0, 0.0, 3.0])


def limit_grid(name, thorough):
    pi = math.pi
    if name in ("MountainCar", "ContinuousMountainCar"):
        xs = [-1.2, -1.199, -1.19, -1.17, -1.15, -1.1, -0.5, 0.5, 0.53, 0.55, 0.58, 0.599, 0.6]
        return itertools.product(xs, lin(-0.07, 0.07, 29 if thorough else 15))
    if name == "Acrobot":
        ang = [-pi + 0.05, -1.5, 0.0, 1.5, pi - 0.05]
        v1 = [-4 * pi, -4 * pi + 0.3, -6.0, 0.0, 6.0, 4 * pi - 0.3, 4 * pi]
        v2 = [-9 * pi, -9 * pi + 0.5, -10.0, 0.0, 10.0, 9 * pi - 0.5, 9 * pi]
        if not thorough:
            v1, v2 = v1[::2] + [v1[1]], v2[::2] + [v2[-2]]
        return itertools.product(ang, ang, v1, v2)
    # CartPole: far beyond thresholds and the observation box
    return itertools.product([-100.0, -5.0, -2.5, 0.0, 2.5, 5.0, 100.0], [-50.0, 0.0, 50.0], [-3.0, -0.5, -0.22, 0.0, 0.22, 0.5, 3.0], [-50.0, 0.0, 50.0])


def step_grid(name, thorough):
    pi = math.pi
    if name == "CartPole":
        n = 5 if thorough else 3
        return itertools.product(lin(-2.0, 2.0, n), lin(-2.0, 2.0, 5), lin(-0.2, 0.2, 5), lin(-2.0, 2.0, 5))
    if name in ("MountainCar", "ContinuousMountainCar"):
        return itertools.product(lin(-1.15, 0.55, 18 if thorough else 9), lin(-0.06, 0.06, 13 if thorough else 7))
    n = 7 if thorough else 5
    return itertools.product(lin(-pi, pi, n), lin(-pi, pi, n), lin(-6.0, 6.0, 5), lin(-10.0, 10.0, 5))


EULER_STARTS = [
    [0.0, 0.0, 0.0, 0.0],
    [0.03, -0.02, 0.04, 0.01],
    [2.36, 0.6, 0.0, 0.0],
    [-2.36, -0.6, 0.02, 0.0],
    [0.0, 0.0, 0.19, 0.4],
    [0.0, 0.0, -0.19, -0.4],
    [1.0, 1.0, 0.1, -0.5],
    [-1.0, -1.0, -0.1, 0.5],
]
EULER_STARTS_MORE = [
    [0.05, 0.05, 0.05, 0.05],
    [-0.05, 0.05, -0.05, 0.05],
    [2.39, 0.2, 0.0, 0.0],
    [-2.39, -0.2, 0.0, 0.0],
    [0.0, 1.5, 0.15, 1.0],
    [0.0, -1.5, -0.15, -1.0],
    [2.0, 2.0, 0.2, 0.0],
    [-2.0, -2.0, -0.2, 0.0],
]


def explore_classic(ctx: Ctx):
    thorough = ctx.tier == "thorough"
    _COV.clear()
    configs = [(n, None) for n in ENVS] + [("MountainCar", {"goal_velocity": 0.03}), ("ContinuousMountainCar", {"goal_velocity": 0.03})]
    nkeys = 1024 if thorough else 256

    counts = {}
    # ---- vector field: full state grid x all actions ------------------------------------------
    cases = []
    for name in ENVS:
        acts = actions_of(name, thorough)
        cs = [{"env": name, "y": list(y), "a": a} for y in state_grid(name, thorough) for a in acts]
        counts[f"field:{name}"] = len(cs)
        cases += cs
    ctx.run("classic_field", cases)
    ctx.states += len({(c["env"], tuple(c["y"])) for c in cases})

    # ---- reward / termination on every grid transition + threshold-straddling grids ---------------
    cases = []
    for name, opts in configs:
        acts = actions_of(name, thorough)
        grid = list(threshold_grid(name, opts, thorough))
        if opts is None:
            grid = list(state_grid(name, thorough)) + grid
        seen = set()
        for y in grid:
            if tuple(y) in seen:
                continue
            seen.add(tuple(y))
            for a in acts:
                c = {"env": name, "y": list(y), "a": a}
                if opts:
                    c["opts"] = opts
                cases.append(c)
        counts[f"transition:{name}{'+gv' if opts else ''}"] = len(seen) * len(acts)
    ctx.run("classic_transition", cases)
    ctx.transitions += len(cases)

    # ---- state limits --------------------------------------------------------------------------
    cases = []
    for name in ENVS:
        acts = actions_of(name, False) if name != "ContinuousMountainCar" else [-1.0, -0.5, 0.0, 0.5, 1.0]
        cs = [{"env": name, "y": list(y), "a": a} for y in limit_grid(name, thorough) for a in acts]
        counts[f"limits:{name}"] = len(cs)
        cases += cs
    ctx.run("classic_limits", cases)

    # ---- one control step with the default solver -------------------------------------------------
    cases = []
    for name in ENVS:
        acts = actions_of(name, False) if name != "ContinuousMountainCar" else [-1.0, 0.0, 0.5, 1.0]
        cs = [{"env": name, "y": list(y), "a": a} for y in step_grid(name, thorough) for a in acts]
        counts[f"step:{name}"] = len(cs)
        cases += cs
    ctx.run("classic_step", cases)
    ctx.transitions += len(cases)

    # ---- initial states -----------------------------------------------------------------------------
    keys = key_ints(ctx.seed, nkeys)
    ctx.run("classic_initial", [{"env": n, "key": k} for n in ENVS for k in keys])
    ctx.run("classic_spread", [{"env": n, "keys": keys[b : b + 256]} for n in ENVS for b in range(0, nkeys, 256)])

    # ---- CartPole with the Euler solver: every action sequence ------------------------------------
    depth = 10 if thorough else 8
    starts = EULER_STARTS + (EULER_STARTS_MORE if thorough else [])
    cases = [{"y": y, "actions": list(seq)} for y in starts for seq in itertools.product((0, 1), repeat=depth)]
    ctx.run("classic_euler", cases)
    ctx.traces += len(cases)
    ctx.transitions += len(cases) * depth

    # ---- coverage ------------------------------------------------------------------------------------
    for k, v in sorted(_COV.items()):
        ctx.guard("classic:" + k, len(v))
    nontrivial_sets = [k for k in _COV if k.startswith(("transition:terminal", "transition:entering", "limit:", "euler:"))
                       and ":skipped" not in k and k.count(":") == 1]
    for k in nontrivial_sets:
        for key in _COV[k]:
            ctx.nontriv(("classic", k.split(":")[0]) + tuple(key))
    for key in _COV.get("field", ()):
        ctx.nontriv(("classic", "field") + tuple(key))
    ctx.require(
        "classic:field", "classic:transition:terminal", "classic:transition:entering", "classic:transition:goal-velocity-decides",
        *[f"classic:transition:entering:{n}" for n in ENVS],
        "classic:limit:speed-clip", "classic:limit:left-wall", "classic:limit:left-wall-velocity", "classic:limit:right-wall",
        "classic:limit:angle-wrap", "classic:limit:velocity-bound", "classic:limit:cartpole-beyond-observation-box",
        "classic:step:judged", "classic:euler:terminated", "classic:euler:survived",
    )
    ctx.notes["classic_case_counts"] = counts
    ctx.notes["classic_keys"] = nkeys
    ctx.notes["classic_euler"] = {"starts": len(starts), "depth": depth}
    rule = (
        "classic control: full Cartesian state grids x all actions (ContinuousMountainCar: evenly spaced actions in [-1,1]) "
        "for the vector field and for reward/termination of the reference's own transition from each grid point, plus grids whose "
        "successors straddle every termination threshold at offsets 1e-4..3e-2 (also with goal_velocity=0.03); limit grids whose "
        "reference pre-limit states cross every wall / speed / wrap / velocity bound; one default-solver step on a coarser grid; "
        "initial(key) for every key of K; every CartPole(Euler) action sequence to the stated depth from fixed start states. "
        "non-trivial = a state-action point of the field grid, a transition that ends in (or enters) the reference's terminal "
        "region, a limit case in which a reference limit is active, an Euler action sequence"
    )
    ctx.rule = (ctx.rule + " || " if ctx.rule else "") + rule
    ctx.assumptions += [
        "classic: states are handed to both sides as the same float32-representable numbers; points within 1e-5 (1e-7 for velocities) of a termination threshold, and pre-limit states within 1e-6 of the left wall, are skipped and counted (thresholds are float32 in lerax, float64 in gymnasium): exact-equality behaviour is not pinned",
        "classic: the mountain cars' continuous-time field is read from the reference as (velocity, (v1 - v)/tau) on the reference with its limits switched off (its update is semi-implicit Euler with tau = 1); Acrobot's from _dsdt; CartPole's from (step(y) - y)/tau",
        "classic: angle results are compared modulo 2 pi and must lie in [-pi, pi]; which end of the cut is returned is not pinned",
        "classic: only actions inside the action space are used (ContinuousMountainCar penalises the unclipped action in gymnasium, the clipped one in lerax; out-of-range actions are outside the statement)",
        "classic: the default-solver step is accepted within twice the local error of one explicit Euler step (the documented Gymnasium-identical solver), so any integrator at least that accurate passes",
        "classic: only default physical parameters (gymnasium's classes have no such options) plus the documented goal_velocity option",
        f"classic: initial-state clauses are decided on the key alphabet K of {nkeys} integers",
    ]
