"""C19 - reported performance numbers are faithful to what happened.

(i)   the episode-statistics accumulator as a state machine: BFS with the real
      LoggingCallbackStepState.next over events (reward, done), all smoothing factors, against the
      reference accumulator of the statement;
(ii)  end to end: real collectors + LoggingCallback + a recording backend on tabular MDPs with
      scripted policies (all scripts), several parallel environments with different initial states;
      the reference accumulator is driven by the ENVIRONMENT's rewards/dones reconstructed from the
      recorded observations/actions with the MDP tables; plus whole learn() runs on single-initial-
      state MDPs where the trajectory is determined by the script;
(iii) benchmark.average_reward over all MDPs x scripted policies x episode counts x step caps.
"""

from __future__ import annotations

import itertools

import equinox as eqx
import jax
import numpy as np
from jax import numpy as jnp
from jax import random as jr

from lerax.benchmark import average_reward
from lerax.callback import LoggingCallback
from lerax.callback.logging import LoggingCallbackStepState

from mc import collect, learnx, refs
from mc.core import Ctx, key_ints
from mc.mdp import reward_table
from mc.policies import ScriptedSAC, ScriptedAC, ScriptedQ

LEVEL = "model_checking"

REWARDS = [-1.0, 0.5, 2.0]
EVENTS = [(r, d) for r in REWARDS for d in (False, True)]


# ---------------------------------------------------------------------------------------
# (i) accumulator BFS
# ---------------------------------------------------------------------------------------
class RefAcc:
    """Reference accumulator written from the statement."""

    def __init__(self, alpha):
        self.alpha, self.sum, self.len, self.avg_ret, self.avg_len, self.steps = alpha, 0.0, 0, 0.0, 0.0, 0

    def feed(self, r, d):
        self.sum += r
        self.len += 1
        self.steps += 1
        if d:
            self.avg_ret = self.alpha * self.sum + (1 - self.alpha) * self.avg_ret
            self.avg_len = self.alpha * self.len + (1 - self.alpha) * self.avg_len
            self.sum, self.len = 0.0, 0


_NEXT = {}


def next_fn(alpha):
    if alpha not in _NEXT:
        _NEXT[alpha] = eqx.filter_jit(lambda st, r, d: jax.vmap(lambda s, rr, dd: s.next(rr, dd, alpha))(st, r, d))
    return _NEXT[alpha]


def clause_acc(cases, ctx: Ctx):
    """case: {alpha, depth}: BFS over event histories with the real next(); every reachable state compared with
    the reference accumulator fed the same history (histories are kept per state: first path reaching it)."""
    out = []
    for ci, c in enumerate(cases):
        alpha, depth = c["alpha"], c["depth"]
        st0 = LoggingCallbackStepState.initial()
        frontier = jax.tree.map(lambda x: x[None], st0)
        paths = [[]]
        seen = {tuple(np.asarray(x).tobytes() for x in jax.tree.leaves(st0))}
        n_states, n_trans = 1, 0
        fn = next_fn(alpha)
        for d in range(depth):
            F = len(paths)
            si = np.repeat(np.arange(F), len(EVENTS))
            ev = [EVENTS[i % len(EVENTS)] for i in range(F * len(EVENTS))]
            states = jax.tree.map(lambda x: x[si], frontier)
            nxt = fn(states, jnp.asarray([e[0] for e in ev], float), jnp.asarray([e[1] for e in ev]))
            n_trans += len(si)
            leaves = [np.asarray(x) for x in jax.tree.leaves(nxt)]
            avg_ret, avg_len, step = np.asarray(nxt.average_return), np.asarray(nxt.average_length), np.asarray(nxt.step)
            keep, new_paths = [], []
            for j in range(len(si)):
                path = paths[si[j]] + [ev[j]]
                ref = RefAcc(alpha)
                for r, dn in path:
                    ref.feed(r, dn)
                if not (refs.close(avg_ret[j], ref.avg_ret, 1e-5) and refs.close(avg_len[j], ref.avg_len, 1e-5)):
                    sig = "C19/acc/statistics"
                    # discriminate common slips
                    prev = RefAcc(alpha)
                    for r, dn in path[:-1]:
                        prev.feed(r, dn)
                    if not path[-1][1] and (not refs.close(avg_ret[j], prev.avg_ret, 1e-6) or not refs.close(avg_len[j], prev.avg_len, 1e-6)):
                        sig = "C19/acc/changed-without-episode-end"
                    out.append((ci, sig, f"alpha={alpha} history (reward, done) {path}: average_return={avg_ret[j]} average_length={avg_len[j]}, reference {ref.avg_ret} / {ref.avg_len}"))
                if step[j] != ref.steps:
                    out.append((ci, "C19/acc/step-counter", f"alpha={alpha} history {path}: step={step[j]}, {ref.steps} steps were fed"))
                k = tuple(l[j].tobytes() for l in leaves)
                if k not in seen:
                    seen.add(k)
                    keep.append(j)
                    new_paths.append(path)
            if len(out) > 20:
                break
            keep = np.asarray(keep, dtype=int)
            if len(keep) == 0:
                break
            frontier = jax.tree.map(lambda x: x[keep], nxt)
            paths = new_paths
            n_states += len(keep)
        ctx.states += n_states
        ctx.transitions += n_trans
    return out


# ---------------------------------------------------------------------------------------
# (ii) end to end through the real collectors
# ---------------------------------------------------------------------------------------
def true_streams(tab, obs_idx, acts, s_next_first):
    """environment rewards/dones per stream reconstructed from recorded observations and actions"""
    raise NotImplementedError


_DRV: dict = {}


def clause_collect_log(cases, ctx: Ctx):
    """case: C04-style case + {alpha, n_iter}.  Drives reset + n_iter iterations of the probe algorithm (train returns
    the buffer; the constant scripted policy is put back before the next iteration) with a LoggingCallback +
    recording backend, then compares every record with the reference accumulator driven by the environment."""
    out = []
    for ci, c in enumerate(cases):
        E, Tn, alpha, n_iter = c["num_envs"], c["num_steps"], c["alpha"], c["n_iter"]
        env = collect.build_env(c)
        pol = ScriptedAC(env, np.asarray(c["script"]))
        sk = ("e2e", c["algo"], E, Tn, alpha, c["S"], c["A"], c["act_kind"], c["obs_kind"], bool(c.get("tl")), len(c["script"]), c["gamma"], c["lam"])
        if sk not in _DRV:
            algo = collect.make_algo(c["algo"], E, Tn, c["gamma"], c["lam"])
            be0 = learnx.RecordingBackend()
            cb0 = LoggingCallback(be0, name="c19", alpha=alpha)
            _DRV[sk] = (be0, eqx.filter_jit(lambda e, p, k, algo=algo, cb0=cb0: algo.reset(e, p, key=k, callback=cb0)),
                        eqx.filter_jit(lambda st, k, algo=algo, cb0=cb0: algo.iteration(st, key=k, callback=cb0)))
        be, reset_j, it = _DRV[sk]
        jax.effects_barrier()
        be.records.clear()
        reset = lambda k: reset_j(env, pol, k)
        st = reset(jr.key(c["key"]))
        tb = refs.Tables([c], repeat=E)
        R = reward_table(c["S"], c["A"]).astype(np.float64)
        accs = [RefAcc(alpha) for _ in range(E)]
        exp_records = []
        b = np.arange(E)
        for n in range(n_iter):
            st = it(st, jr.key(c["key"] * 1000 + n))
            buf = jax.tree.map(np.asarray, st.policy)
            st = eqx.tree_at(lambda s: s.policy, st, pol)
            obs = buf.observations.reshape(E, Tn) if E > 1 else buf.observations.reshape(1, Tn)
            acts = buf.actions.reshape((E, Tn) + buf.actions.shape[2 if E > 1 else 1:])
            dones = buf.dones.reshape(E, Tn)
            for e in range(E):
                for t in range(Tn):
                    s = int(obs[e, t])
                    a_clip = refs.clip_np(acts[e, t], c["act_kind"])
                    ai = int(refs.action_index_np(a_clip, c["act_kind"]))
                    s2 = int(tb.T[e, s, ai])
                    r_env = float(R[s, ai, s2] + refs.action_term_np(a_clip, c["act_kind"]))
                    accs[e].feed(r_env, bool(dones[e, t]))
                    ctx.guard("e2e-done-steps", int(dones[e, t]))
            exp_records.append((np.mean([a.avg_ret for a in accs]), np.mean([a.avg_len for a in accs]), (n + 1) * E * Tn))
            ctx.guard("e2e-envs-differ", int(E > 1 and len({(a.avg_ret, a.avg_len) for a in accs}) > 1))
        jax.effects_barrier()
        recs = be.scalars()
        desc = f"{c['algo']} E={E} T={Tn} alpha={alpha} script={c['script']} tl={c.get('tl')} term={c['term']} init={c['init']} key={c['key']}"
        if len(recs) != n_iter:
            out.append((ci, "C19/e2e/record-count", f"{desc}: {len(recs)} records for {n_iter} iterations"))
            continue
        for n, (rec, exp) in enumerate(zip(recs, exp_records)):
            got_ret, got_len, got_step = rec[1]["episode/return"], rec[1]["episode/length"], rec[2]
            if not refs.close(got_ret, exp[0], 1e-5):
                out.append((ci, "C19/e2e/episode-return", f"{desc}: record {n}: episode/return={got_ret}, reference (environment rewards, mean over environments) {exp[0]}"))
            if not refs.close(got_len, exp[1], 1e-5):
                out.append((ci, "C19/e2e/episode-length", f"{desc}: record {n}: episode/length={got_len}, reference {exp[1]}"))
            if got_step != exp[2]:
                out.append((ci, "C19/e2e/step", f"{desc}: record {n}: step={got_step}, cumulative environment steps {exp[2]}"))
        ctx.traces += 1
        ctx.transitions += n_iter * E * Tn
    return out


def deterministic_stream(c, n_steps):
    """(reward, done) stream of ONE environment for a single-initial-state MDP under the scripted policy"""
    T = np.asarray(c["T"])
    R = reward_table(c["S"], c["A"]).astype(np.float64)
    s0 = int(np.argmax(c["init"]))
    s, t, cnt = s0, 0, 0
    out = []
    L = len(c["script"])
    for _ in range(n_steps):
        a = c["script"][cnt % L]
        a_clip = refs.clip_np(np.asarray(a), c["act_kind"])
        ai = int(refs.action_index_np(a_clip, c["act_kind"]))
        s2 = int(T[s, ai])
        r = float(R[s, ai, s2] + refs.action_term_np(a_clip, c["act_kind"]))
        term = bool(c["term"][s2])
        trunc = bool(c.get("tl") and t + 1 >= c["tl"]) or bool(c.get("limit") and t + 1 >= c["limit"])
        out.append((r, term or trunc, term, trunc))
        if term or trunc:
            s, t, cnt = s0, 0, 0
        else:
            s, t, cnt = s2, t + 1, cnt + 1
    return out


def clause_learn_log(cases, ctx: Ctx):
    """case: C04-style case with a single initial state + {alpha, total}: the whole learn() (policy frozen by a zero
    learning rate) with LoggingCallback + recording backend."""
    out = []
    for ci, c in enumerate(cases):
        E, Tn, alpha, total, name = c["num_envs"], c["num_steps"], c["alpha"], c["total"], c["algo"]
        env = collect.build_env(c)
        sk = ("learn", name, E, Tn, alpha, c["gamma"], c.get("learning_starts"))
        if sk not in _DRV:
            if name == "DQN":
                algo0 = learnx.make_algo("DQN", E, Tn, learning_rate=0.0, learning_starts=c["learning_starts"], buffer_size=64, batch_size=1, gamma=c["gamma"])
            elif name == "SAC":
                algo0 = learnx.make_algo("SAC", E, Tn, learning_starts=c["learning_starts"], buffer_size=64, batch_size=1, gamma=c["gamma"], q_width_size=4, q_depth=1)
            else:
                algo0 = learnx.make_algo(name, E, Tn, learning_rate=0.0, gamma=c["gamma"])
            be0 = learnx.RecordingBackend()
            _DRV[sk] = (algo0, be0, LoggingCallback(be0, name="c19", alpha=alpha))
        algo, be, cb = _DRV[sk]
        jax.effects_barrier()
        be.records.clear()
        pol = ScriptedQ(env, np.asarray(c["script"])) if name == "DQN" else (ScriptedSAC(env, c["script"]) if name == "SAC" else ScriptedAC(env, np.asarray(c["script"])))
        warm = c["learning_starts"] if name in ("DQN", "SAC") else 0
        p2 = algo.learn(env, pol, total, key=jr.key(c["key"]), callback=[cb])
        jax.block_until_ready(jax.tree.leaves(eqx.filter(p2, eqx.is_array)))
        jax.effects_barrier()
        recs = be.scalars()
        n_iter = total // (E * Tn)
        stream = deterministic_stream(c, warm + n_iter * Tn)
        acc = RefAcc(alpha)
        exp = []
        for i, (r, d, term, trunc) in enumerate(stream):
            acc.feed(r, d)
            ctx.guard("learn-truncated-episodes", int(trunc and not term))
            ctx.guard("learn-terminated-episodes", int(term))
            if i >= warm and (i - warm + 1) % Tn == 0:
                exp.append((acc.avg_ret, acc.avg_len, E * (i + 1)))
        desc = f"{name} learn(total={total}) E={E} T={Tn} alpha={alpha} gamma={c['gamma']} script={c['script']} tl={c.get('tl')} term={c['term']}"
        if len(recs) != len(exp):
            out.append((ci, "C19/learn/record-count", f"{desc}: {len(recs)} records, expected {len(exp)}"))
            continue
        for n, (rec, e) in enumerate(zip(recs, exp)):
            got_ret, got_len, got_step = rec[1]["episode/return"], rec[1]["episode/length"], rec[2]
            if not refs.close(got_ret, e[0], 1e-5):
                # does it include gamma * V(successor) on truncated episodes?
                sig = "C19/learn/episode-return"
                if name not in ("DQN", "SAC"):
                    acc2 = RefAcc(alpha)
                    V = refs.Tables([c]).V[0]
                    s_track = deterministic_states(c, warm + n_iter * Tn)
                    exp2 = None
                    for i, (r, d, term, trunc) in enumerate(stream[: (n + 1) * Tn]):
                        acc2.feed(r + (c["gamma"] * V[s_track[i]] if (trunc and not term) else 0.0), d)
                    if refs.close(got_ret, acc2.avg_ret, 1e-5):
                        sig = "C19/learn/on-policy/return-includes-bootstrap-value"
                out.append((ci, sig, f"{desc}: record {n}: episode/return={got_ret}, reference (sum of environment rewards per episode, EMA) {e[0]}"))
            if not refs.close(got_len, e[1], 1e-5):
                out.append((ci, "C19/learn/episode-length", f"{desc}: record {n}: episode/length={got_len}, reference {e[1]}"))
            if got_step != e[2]:
                out.append((ci, "C19/learn/step", f"{desc}: record {n}: step={got_step}, cumulative environment steps {e[2]}"))
        steps = [r[2] for r in recs]
        if steps != sorted(steps):
            out.append((ci, "C19/learn/record-order", f"{desc}: records arrived out of iteration order: steps {steps}"))
        ctx.traces += 1
        ctx.transitions += len(stream) * E
    return out


def deterministic_states(c, n_steps):
    """successor state of every step of deterministic_stream (for the bootstrap discriminator)"""
    T = np.asarray(c["T"])
    s0 = int(np.argmax(c["init"]))
    s, t, cnt = s0, 0, 0
    out = []
    L = len(c["script"])
    for _ in range(n_steps):
        a = c["script"][cnt % L]
        ai = int(refs.action_index_np(refs.clip_np(np.asarray(a), c["act_kind"]), c["act_kind"]))
        s2 = int(T[s, ai])
        term = bool(c["term"][s2])
        trunc = bool(c.get("tl") and t + 1 >= c["tl"]) or bool(c.get("limit") and t + 1 >= c["limit"])
        out.append(s2)
        if term or trunc:
            s, t, cnt = s0, 0, 0
        else:
            s, t, cnt = s2, t + 1, cnt + 1
    return out


# ---------------------------------------------------------------------------------------
# (iii) average_reward
# ---------------------------------------------------------------------------------------
_AVG = {}


class KeyedScriptedAC(ScriptedAC):
    """acts from the script when called without a key (greedy / deterministic evaluation) and with the FLIPPED script action when a
    key is given: whether an evaluation really ran deterministically is then visible in the return"""

    def __call__(self, state, observation, *, key=None, action_mask=None):
        st, a = ScriptedAC.__call__(self, state, observation, key=key, action_mask=action_mask)
        return st, (a if key is None else 1 - a)


def clause_average(cases, ctx: Ctx):
    """case: table + {script, num_episodes, max_steps, keys, deterministic}"""
    out = []
    for ci, c in enumerate(cases):
        env = collect.build_env(c)
        pol = (KeyedScriptedAC if c.get("keyed") else ScriptedAC)(env, np.asarray(c["script"]))
        k = (c["S"], c["A"], c["act_kind"], bool(c.get("tl")), len(c["script"]), c["num_episodes"], c["max_steps"], c["deterministic"], bool(c.get("keyed")))
        if k not in _AVG:
            _AVG[k] = eqx.filter_jit(lambda e, p, keys, ne=c["num_episodes"], ms=c["max_steps"], det=c["deterministic"]: jax.vmap(lambda kk: average_reward(e, p, ne, ms, det, key=kk))(keys))
        got = np.asarray(_AVG[k](env, pol, jax.vmap(jr.key)(jnp.asarray(c["keys"]))), dtype=np.float64)
        # reference: per-initial-state undiscounted return until the first terminal/truncated state or the cap
        T = np.asarray(c["T"])
        R = reward_table(c["S"], c["A"]).astype(np.float64)
        G = {}
        for s0 in [i for i in range(c["S"]) if c["init"][i]]:
            s, t, g, n = s0, 0, 0.0, 0
            cap = c["max_steps"] if c["max_steps"] is not None else 10**6
            while n < cap:
                a = c["script"][n % len(c["script"])]
                if c.get("keyed") and not c["deterministic"]:
                    a = 1 - a  # a sampled (keyed) call of the keyed policy plays the flipped action
                ai = int(refs.action_index_np(np.asarray(a), c["act_kind"]))
                s2 = int(T[s, ai])
                g += float(R[s, ai, s2] + refs.action_term_np(np.asarray(a), c["act_kind"]))
                n += 1
                t += 1
                s = s2
                if c["term"][s2] or (c.get("tl") and t >= c["tl"]) or (c.get("limit") and t >= c["limit"]):
                    ctx.guard("avg-episode-ended-by-flag")
                    break
            else:
                ctx.guard("avg-episode-ended-by-cap")
            G[s0] = g
        vals = sorted(G.values())
        n = c["num_episodes"]
        allowed = {round(sum(combo) / n, 6) for combo in itertools.combinations_with_replacement(vals, n)}
        desc = f"S={c['S']} T={c['T']} term={c['term']} init={c['init']} tl={c.get('tl')} script={c['script']} num_episodes={n} max_steps={c['max_steps']} deterministic={c['deterministic']}" + (" [policy whose keyed action differs from its key-less action]" if c.get("keyed") else "")
        for ki, kk in enumerate(c["keys"]):
            if not any(refs.close(got[ki], a, 1e-5) for a in allowed):
                sig = "C19/average-reward/value"
                if any(refs.close(got[ki], a * n, 1e-5) for a in allowed) and n > 1:
                    sig = "C19/average-reward/sum-instead-of-mean"
                out.append((ci, sig, f"{desc} key={kk}: average_reward={got[ki]}, per-initial-state episode returns {G} allow means {sorted(allowed)}"))
                break
        if c.get("independence"):
            # episodes are independent: over many keys, some evaluation must mix different initial states
            pure = {round(v, 6) for v in vals}
            mixed = [float(x) for x in got if not any(abs(float(x) - p) < 1e-4 for p in pure)]
            ctx.guard("avg-independence-cases")
            if not mixed:
                out.append((ci, "C19/average-reward/episodes-not-independent", f"{desc}: over {len(c['keys'])} keys every evaluation equals the return from a single initial state ({sorted(set(np.round(got, 4).tolist()))}); the {n} episodes of one evaluation never start differently"))
        if len(vals) > 1 and vals[0] != vals[-1] and n > 1:
            ctx.guard("avg-multi-init-cases")
            if len({round(float(x), 6) for x in got}) > 1:
                ctx.guard("avg-multi-init-varied")
        ctx.traces += len(c["keys"])
    return out


CLAUSES = {"acc": clause_acc, "collect_log": clause_collect_log, "learn_log": clause_learn_log, "average": clause_average}


def explore(ctx: Ctx):
    from mc.props.c04 import family, scripts_full

    thorough = ctx.tier == "thorough"
    keys = key_ints(ctx.seed, 4 if thorough else 2)
    ctx.rule = (
        "(i) BFS of the real accumulator over all (reward{-1,.5,2}, done) histories to depth 6 (8) for alpha{0,.1,.9,1}; (ii) real "
        "collectors + LoggingCallback on tabular MDPs x all scripts x num_envs{1,2,3} with environment rewards reconstructed from "
        "recorded observations/actions, and whole learn() runs (PPO/A2C/REINFORCE/DQN) on single-initial-state MDPs x time limits; "
        "(iii) average_reward for all 2-state MDPs x scripts x num_episodes{1,2,3} x max_steps{None,1,3,8} x K. non-trivial = a "
        "history / run containing at least one episode end"
    )
    ctx.assumptions = [f"key alphabet K = {keys}", "policies frozen by learning_rate=0 in learn() runs", "average_reward with |init|>1: result must be a mean of per-initial-state returns (key-agnostic)"]
    acc = [dict(alpha=a, depth=8 if thorough else 6) for a in (0.0, 0.1, 0.9, 1.0)]
    ctx.run("acc", acc)
    for a in acc:
        ctx.nontriv(("acc", a["alpha"]))
    # (ii) manual iterations, different initial states per env
    e2e = []
    fam = [t for t in family(3, 2, shaped=True, limits=[(0, 0), (0, 2), (0, 3)]) if sum(t["init"]) >= 2 or t["tl"]]
    fam = fam[:: (3 if thorough else 12)]
    for tab in fam:
        for sc in scripts_full("discrete", 2, 3)[:: (1 if thorough else 2)]:
            for E in (1, 2, 3):
                for algo in (("PPO", "A2C") if thorough else ("PPO",)):
                    e2e.append(dict(tab, algo=algo, script=sc, num_envs=E, num_steps=3, key=keys[0], gamma=0.5, lam=0.25, alpha=0.9 if E != 2 else 0.5, n_iter=3))
    ctx.run_parallel("collect_log", e2e, workers=8, group_key=lambda c: (c["algo"], c["num_envs"], c.get("tl") is not None and bool(c["tl"])), threads=2)
    ctx.nontrivial |= {("e2e", i) for i in range(len(e2e))}
    # learn() on single-initial-state MDPs
    learn = []
    fam1 = [t for t in family(3, 2, shaped=True, limits=[(0, 2), (0, 3), (0, 0)]) if sum(t["init"]) == 1 and (t["tl"] or any(t["term"]))]
    cands = {"term": [], "trunc": [], "both": []}
    for tab in fam1:
        for sc in ([0, 1, 1], [1, 0, 0]):
            st = deterministic_stream(dict(tab, script=sc), 8)
            kind = "both" if any(x[2] for x in st) and any(x[3] and not x[2] for x in st) else ("term" if any(x[2] for x in st) else ("trunc" if any(x[3] for x in st) else None))
            if kind:
                cands[kind].append((tab, sc))
    per = 40 if thorough else 6
    chosen = [x for k in cands for x in cands[k][:: max(1, len(cands[k]) // per)][:per]]
    for tab, sc in chosen:
        for (algo, E, Tn) in (("PPO", 2, 3), ("DQN", 1, 2)) + ((("A2C", 1, 3), ("REINFORCE", 1, 4), ("DQN", 2, 2)) if thorough else (("A2C", 1, 3),)):
            learn.append(dict(tab, algo=algo, script=sc, num_envs=E, num_steps=Tn, key=keys[0], gamma=0.5, lam=0.25, alpha=0.9, total=3 * E * Tn + 1, learning_starts=2))
    # SAC has its own iteration(): Box actions, one-hot observations, scripted actor
    for tab, sc in chosen[:: (1 if thorough else 3)]:
        for (E, Tn) in (((1, 2), (2, 1)) if thorough else ((2, 2),)):
            learn.append(dict(tab, act_kind="box", obs_kind="onehot", algo="SAC", script=[0.5 if a else -0.5 for a in sc], num_envs=E, num_steps=Tn, key=keys[0],
                              gamma=0.5, lam=0.25, alpha=0.9, total=3 * E * Tn + 1, learning_starts=2))
    ctx.run_parallel("learn_log", learn, workers=8, group_key=lambda c: (c["algo"], bool(c.get("tl")), c["num_envs"]), threads=2)
    ctx.nontrivial |= {("learn", i) for i in range(len(learn))}
    # (iii) average_reward
    avg = []
    for tab in family(2, 2, shaped=False, limits=[(0, 0), (0, 2), (0, 3)]):
        if not tab["tl"] and not any(tab["term"]):
            caps = [1, 3, 8]
        else:
            caps = [None, 1, 3, 8]
        for sc in ([0, 1], [1, 1], [0, 0, 1]):
            for n in (1, 2, 3):
                for cap in caps:
                    avg.append(dict(tab, script=sc, num_episodes=n, max_steps=cap, keys=keys + [k + 50 for k in keys], deterministic=(n == 2)))
    if not thorough:
        avg = avg[::3]
    indep_keys = key_ints(ctx.seed, 64, salt=3)
    for Tm in ([[0, 0], [1, 1]], [[1, 1], [0, 0]]):
        avg.append(dict(S=2, A=2, T=Tm, term=[False, False], init=[True, True], limit=0, tl=2, act_kind="discrete", obs_kind="discrete",
                        script=[0, 1], num_episodes=3, max_steps=4, keys=indep_keys, deterministic=False, independence=True))
    # max_steps=None is only explored where the scripted run reaches a TERMINAL state from every initial state, so that an
    # implementation that overlooks truncation yields a wrong number instead of looping forever
    # a policy whose keyed action differs from its key-less action: deterministic=True / False must select the right one on BOTH the
    # capped and the uncapped path
    for tab in list(family(2, 2, shaped=False, limits=[(0, 0), (0, 2)]))[:: (2 if thorough else 5)]:
        for sc in ([0, 1], [1, 1]):
            for cap in (None, 3):
                for det in (True, False):
                    avg.append(dict(tab, script=sc, num_episodes=2, max_steps=cap, keys=keys, deterministic=det, keyed=True))
    for Tm in ([[1, 1], [1, 1]], [[0, 1], [1, 1]], [[1, 0], [1, 1]]):  # terminal state 1 is reached under the script AND under the flipped script
        for sc in ([0, 1], [1, 1], [0, 0, 1]):
            for det in (True, False):
                avg.append(dict(S=2, A=2, T=Tm, term=[False, True], init=[True, False], limit=0, tl=0, act_kind="discrete", obs_kind="discrete",
                                script=sc, num_episodes=2, max_steps=None, keys=keys, deterministic=det, keyed=True))
    avg = [c for c in avg if c["max_steps"] is not None or (_ends(c) and (not c.get("keyed") or _ends(dict(c, script=[1 - a for a in c["script"]]))))]
    ctx.guard("avg-keyed-uncapped-deterministic", sum(1 for c in avg if c.get("keyed") and c["max_steps"] is None and c["deterministic"]))
    ctx.run_parallel("average", avg, workers=8, group_key=lambda c: (bool(c["tl"]), len(c["script"]), c["num_episodes"], c["max_steps"], c["deterministic"], bool(c.get("keyed"))), threads=2)
    ctx.nontrivial |= {("avg", i) for i, c in enumerate(avg) if c["tl"] or any(c["term"])}
    ctx.require("e2e-done-steps", "e2e-envs-differ", "learn-truncated-episodes", "learn-terminated-episodes", "avg-episode-ended-by-flag", "avg-keyed-uncapped-deterministic",
                "avg-episode-ended-by-cap", "avg-multi-init-varied", "avg-independence-cases")


def _ends(c) -> bool:
    """does the scripted run reach a terminal state from every initial state within 50 steps?"""
    T = np.asarray(c["T"])
    for s0 in [i for i in range(c["S"]) if c["init"][i]]:
        s = s0
        for n in range(50):
            s = int(T[s, c["script"][n % len(c["script"])]])
            if c["term"][s]:
                break
        else:
            return False
    return True
