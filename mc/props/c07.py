"""C07 - TD targets bootstrap through truncation, never through termination.

DQN: the real static DQN.dqn_loss / dqn_loss_grad on every batch over a finite alphabet (all four
(done, timeout) combinations per row, all actions, all next observations, rewards, gammas) with
tabular online / target Q policies ranging over all strict action-value orderings (online and
target orderings independent, so Double DQN != vanilla != online-evaluates-itself).
SAC: the real SAC.sac_train on replay buffers holding exactly batch_size rows, linear critics with
weights from an alphabet (qf1 <> qf2 both ways, targets != online), scripted actor, SGD swapped in
for the critic optimiser so the applied critic gradient can be read back exactly.
Oracle: float64 closed forms of the statement; the loss scale kappa (1/2 vs 1) is calibrated once
and then required to be constant.
"""

from __future__ import annotations

import itertools
from typing import ClassVar

import equinox as eqx
import jax
import numpy as np
import optax
from jax import numpy as jnp
from jax import random as jr

from lerax.algorithm import DQN, SAC
from lerax.algorithm.sac import SoftQNetwork
from lerax.buffer import ReplayBuffer
from lerax.policy import AbstractQPolicy
from lerax.space import AbstractSpace, Box, Discrete

from mc import refs
from mc.core import Ctx
from mc.mdp import TabEnv
from mc.policies import CounterState, ScriptedSAC, action_penalty_np

LEVEL = "exploration"


class TabularQ(AbstractQPolicy):
    name: ClassVar[str] = "TabularQ"
    action_space: AbstractSpace
    observation_space: AbstractSpace
    epsilon: float = eqx.field(static=True)
    Q: jax.Array

    def __init__(self, S, A, Q):
        self.action_space = Discrete(A)
        self.observation_space = Discrete(S)
        self.epsilon = 0.0
        self.Q = jnp.asarray(Q, dtype=float)

    def reset(self, *, key):
        return CounterState(jnp.asarray(0, dtype=int))

    def q_values(self, state, observation):
        # the values depend on the policy's own state (factor 1 + c): evaluating a network with the wrong one of the
        # buffer's (states, next_states) is observable
        return state, self.Q[observation] * (1.0 + state.c.astype(float))


def make_batch(S, A, rows):
    """rows: dict of arrays [N, B] -> ReplayBuffer-shaped batch with leading axis N"""
    B = rows["obs"].shape[1]
    tmpl = ReplayBuffer(B, Discrete(S), Discrete(A), CounterState(jnp.asarray(0, dtype=int)))
    N = rows["obs"].shape[0]
    z = jnp.zeros((N, B), dtype=int)
    return eqx.tree_at(
        lambda b: (b.position, b.observations, b.next_observations, b.actions, b.rewards, b.dones, b.timeouts, b.states, b.next_states),
        tmpl,
        (jnp.full((N,), B), jnp.asarray(rows["obs"], dtype=int), jnp.asarray(rows["nobs"], dtype=int), jnp.asarray(rows["act"], dtype=int),
         jnp.asarray(rows["rew"], dtype=float), jnp.asarray(rows["done"], dtype=bool), jnp.asarray(rows["timeout"], dtype=bool),
         CounterState(z), CounterState(z + 1)),  # acting state c = 0, successor state c = 1
    )


_DQN = {}


def dqn_real(S, A, B):
    k = (S, A, B)
    if k not in _DQN:
        @eqx.filter_jit
        def f(Qon, Qtg, batch, gamma):
            def one(qon, qtg, b, g):
                pol, tgt = TabularQ(S, A, qon), TabularQ(S, A, qtg)
                loss, grads = DQN.dqn_loss_grad(pol, b, tgt, g)
                return loss, grads.Q

            return jax.vmap(one)(Qon, Qtg, batch, gamma)

        _DQN[k] = f
    return _DQN[k]


def clause_dqn(cases, ctx: Ctx):
    """case: {S, A, rows: [[obs, act, rew, nobs, done, timeout], ...], Qon, Qtg, gamma}"""
    out = []
    groups = {}
    for i, c in enumerate(cases):
        groups.setdefault((c["S"], c["A"], len(c["rows"])), []).append(i)
    for (S, A, B), idxs in groups.items():
        sub = [cases[i] for i in idxs]
        N = len(sub)
        R = np.asarray([c["rows"] for c in sub], dtype=np.float64)  # [N,B,6]
        rows = dict(obs=R[:, :, 0], act=R[:, :, 1], rew=R[:, :, 2], nobs=R[:, :, 3], done=R[:, :, 4], timeout=R[:, :, 5])
        Qon = np.asarray([c["Qon"] for c in sub], dtype=np.float64)
        Qtg = np.asarray([c["Qtg"] for c in sub], dtype=np.float64)
        gam = np.asarray([c["gamma"] for c in sub], dtype=np.float64)
        loss, g = dqn_real(S, A, B)(jnp.asarray(Qon, float), jnp.asarray(Qtg, float), make_batch(S, A, rows), jnp.asarray(gam, float))
        loss, g = np.asarray(loss, dtype=np.float64), np.asarray(g, dtype=np.float64)
        n = np.arange(N)[:, None]
        obs, act, nobs = rows["obs"].astype(int), rows["act"].astype(int), rows["nobs"].astype(int)
        q_sel = Qon[n, obs, act]
        a_star = Qon[n, nobs].argmax(-1)
        v_next = 2.0 * Qtg[n, nobs, a_star]  # both networks see the successor policy state (c = 1: factor 2)
        v_next_wrong_state = Qtg[n, nobs, a_star]
        terminated = (rows["done"] > 0) & ~(rows["timeout"] > 0)
        y = rows["rew"] + gam[:, None] * (1.0 - terminated) * v_next
        err = q_sel - y
        mse = (err**2).mean(1)
        # discriminating alternatives (for signatures only)
        y_boot_all = rows["rew"] + gam[:, None] * v_next
        y_done = rows["rew"] + gam[:, None] * (1.0 - (rows["done"] > 0)) * v_next
        y_vanilla = rows["rew"] + gam[:, None] * (1.0 - terminated) * 2.0 * Qtg[n, nobs].max(-1)
        y_online = rows["rew"] + gam[:, None] * (1.0 - terminated) * 2.0 * Qon[n, nobs, a_star]
        y_state = rows["rew"] + gam[:, None] * (1.0 - terminated) * v_next_wrong_state
        # the statement does not fix the scale of the loss: 1/2 (lerax today) and 1 are both accepted, per case
        kap = np.where(refs.close(loss, mse, 1e-5) & ~refs.close(loss, 0.5 * mse, 1e-5), 1.0, 0.5)
        KAPPA.setdefault("dqn", set()).update(np.unique(kap[mse > 0]).tolist())
        bad = ~refs.close(loss, kap * mse, 1e-5)
        for k in np.nonzero(bad)[0][:6]:
            alt = {"bootstraps-through-termination": y_boot_all, "no-bootstrap-through-truncation": y_done,
                   "target-argmax-from-target-net": y_vanilla, "evaluated-with-online-net": y_online,
                   "target-evaluated-at-the-acting-policy-state": y_state}
            sig = "C07/dqn/loss"
            for name, ya in alt.items():
                if refs.close(loss[k], kap[k] * ((q_sel[k] - ya[k]) ** 2).mean(), 1e-5):
                    sig = f"C07/dqn/target/{name}"
                    break
            out.append((idxs[k], sig, f"rows [obs,act,rew,nobs,done,timeout]={sub[k]['rows']} gamma={gam[k]} Qon={Qon[k].tolist()} Qtg={Qtg[k].tolist()}: loss {loss[k]}, reference {kap[k] * mse[k]} (targets {y[k].tolist()})"))
        # gradient w.r.t. the online table: (q_sel - y) * 2*kappa/B at taken entries, zero elsewhere (targets are constants)
        eg = np.zeros_like(Qon)
        for b in range(B):
            np.add.at(eg, (np.arange(N), obs[:, b], act[:, b]), 2.0 * kap / B * err[:, b])
        
        badg = ~np.all(refs.close(g, eg, 1e-5).reshape(N, -1), axis=1) & ~bad
        for k in np.nonzero(badg)[0][:6]:
            out.append((idxs[k], "C07/dqn/gradient", f"rows={sub[k]['rows']} gamma={gam[k]}: gradient w.r.t. online Q {g[k].tolist()}, closed form with constant targets {eg[k].tolist()}"))
        ctx.guard("dqn-terminated-rows", int(terminated.sum()))
        ctx.guard("dqn-timeout-rows", int(((rows["done"] > 0) & (rows["timeout"] > 0)).sum()))
        ctx.guard("dqn-double-neq-vanilla", int((~refs.close(y, y_vanilla)).any(1).sum()))
        ctx.guard("dqn-target-neq-online-eval", int((~refs.close(y, y_online)).any(1).sum()))
    return out


KAPPA: dict = {}

# ---------------------------------------------------------------------------------------
# SAC
# ---------------------------------------------------------------------------------------
S_SAC = 2
_SAC = {}


def sac_env():
    return TabEnv(np.zeros((S_SAC, 2), int), [False] * S_SAC, [True] * S_SAC, act_kind="box", obs_kind="onehot")


def sac_real(B, gamma, pf):
    k = (B, gamma, pf)
    if k not in _SAC:
        algo = SAC(buffer_size=B, gamma=gamma, learning_starts=0, num_envs=1, num_steps=1, batch_size=B, policy_frequency=pf,
                   q_width_size=2, q_depth=0, autotune=True)
        object.__setattr__(algo, "q_optimizer", optax.sgd(1.0))  # applied critic update == -gradient

        @eqx.filter_jit
        def f(policy, buffer, qf1, qf2, qf1_t, qf2_t, log_alpha, itc, key):
            opt_state = algo.optimizer.init(eqx.filter(policy, eqx.is_inexact_array))
            q_opt_state = algo.q_optimizer.init((eqx.filter(qf1, eqx.is_inexact_array), eqx.filter(qf2, eqx.is_inexact_array)))
            alpha_opt_state = algo.alpha_optimizer.init(log_alpha)
            return algo.sac_train(policy, opt_state, buffer, qf1, qf2, qf1_t, qf2_t, q_opt_state, log_alpha, alpha_opt_state,
                                  jnp.asarray(-1.0), itc, key=key)

        _SAC[k] = f
    return _SAC[k]


def linear_q(w, b):
    q = SoftQNetwork(S_SAC, 1, width_size=2, depth=0, key=jr.key(0))
    lin = q.mlp.layers[0]
    new = eqx.tree_at(lambda n: (n.mlp.layers[0].weight, n.mlp.layers[0].bias), q,
                      (jnp.asarray(w, dtype=float).reshape(lin.weight.shape), jnp.asarray(b, dtype=float).reshape(lin.bias.shape)))
    return new


def q_lin(w, b, obs_idx, a):
    x = np.concatenate([(np.arange(S_SAC) == obs_idx).astype(np.float64), [a]])
    return float(np.dot(w, x) + b)


def clause_sac(cases, ctx: Ctx):
    """case: {rows: [[obs, act, rew, nobs, done, timeout]...], w1,b1,w2,b2 (online), tw1,tb1,tw2,tb2 (targets), alpha, gamma,
    next_action (the scripted actor's action), key}"""
    out = []
    env = sac_env()
    for ci, c in enumerate(cases):
        B = len(c["rows"])
        rows = np.asarray(c["rows"], dtype=np.float64)
        policy = ScriptedSAC(env, [c["next_action"]])
        buf = ReplayBuffer(B, env.observation_space, env.action_space, None)
        oh = lambda i: (np.arange(S_SAC)[None, :] == i[:, None]).astype(np.float64)
        buf = eqx.tree_at(
            lambda b: (b.position, b.observations, b.next_observations, b.actions, b.rewards, b.dones, b.timeouts),
            buf,
            (jnp.asarray(B), jnp.asarray(oh(rows[:, 0]), float), jnp.asarray(oh(rows[:, 3]), float), jnp.asarray(rows[:, 1], float),
             jnp.asarray(rows[:, 2], float), jnp.asarray(rows[:, 4] > 0), jnp.asarray(rows[:, 5] > 0)),
        )
        qf1, qf2 = linear_q(c["w1"], c["b1"]), linear_q(c["w2"], c["b2"])
        qt1, qt2 = linear_q(c["tw1"], c["tb1"]), linear_q(c["tw2"], c["tb2"])
        la = jnp.log(jnp.asarray(c["alpha"], dtype=float))
        res = {}
        for itc in (0, 1):  # policy_frequency = 2: actor branch runs at count 0, gate closed at count 1
            res[itc] = sac_real(B, c["gamma"], 2)(policy, buf, qf1, qf2, qt1, qt2, la, jnp.asarray(itc), jr.key(c["key"]))
        (pol0, _, n1, n2, _, la0, _, log0) = res[0]
        (pol1, _, m1, m2, _, la1, _, log1) = res[1]
        # reference
        a2 = c["next_action"]
        ys, e1, e2 = [], [], []
        for (o, a, r, no, d, to) in rows:
            o, no = int(o), int(no)
            logp = -0.25 * (no + 1) - action_penalty_np(a2, "box")
            v = min(q_lin(c["tw1"], c["tb1"], no, a2), q_lin(c["tw2"], c["tb2"], no, a2)) - c["alpha"] * logp
            terminated = bool(d) and not bool(to)
            y = r + c["gamma"] * (0.0 if terminated else 1.0) * v
            ys.append(y)
            e1.append(q_lin(c["w1"], c["b1"], o, a) - y)
            e2.append(q_lin(c["w2"], c["b2"], o, a) - y)
        e1, e2 = np.asarray(e1), np.asarray(e2)
        mse = (e1**2).mean() + (e2**2).mean()
        ql = float(log0["q_loss"])
        kap = 1.0 if (refs.close(ql, mse, 1e-4) and not refs.close(ql, 0.5 * mse, 1e-4)) else 0.5
        KAPPA.setdefault("sac", set()).add(kap)
        desc = f"rows [obs,act,rew,nobs,done,timeout]={c['rows']} gamma={c['gamma']} alpha={c['alpha']} next_action={a2}"
        if not refs.close(ql, kap * mse, 1e-4):
            # discriminate
            def alt_loss(term_fn, vfn):
                tot = 0.0
                for q_w, q_b in ((c["w1"], c["b1"]), (c["w2"], c["b2"])):
                    es = []
                    for (o, a, r, no, d, to) in rows:
                        y = r + c["gamma"] * (0.0 if term_fn(d, to) else 1.0) * vfn(int(no))
                        es.append(q_lin(q_w, q_b, int(o), a) - y)
                    tot += (np.asarray(es) ** 2).mean()
                return kap * tot

            lp = lambda no: -0.25 * (no + 1) - action_penalty_np(a2, "box")
            vmin = lambda no: min(q_lin(c["tw1"], c["tb1"], no, a2), q_lin(c["tw2"], c["tb2"], no, a2)) - c["alpha"] * lp(no)
            alts = {
                "bootstraps-through-termination": alt_loss(lambda d, to: False, vmin),
                "no-bootstrap-through-truncation": alt_loss(lambda d, to: bool(d), vmin),
                "max-of-critics": alt_loss(lambda d, to: bool(d) and not bool(to), lambda no: max(q_lin(c["tw1"], c["tb1"], no, a2), q_lin(c["tw2"], c["tb2"], no, a2)) - c["alpha"] * lp(no)),
                "entropy-sign": alt_loss(lambda d, to: bool(d) and not bool(to), lambda no: min(q_lin(c["tw1"], c["tb1"], no, a2), q_lin(c["tw2"], c["tb2"], no, a2)) + c["alpha"] * lp(no)),
                "online-critics-in-target": alt_loss(lambda d, to: bool(d) and not bool(to), lambda no: min(q_lin(c["w1"], c["b1"], no, a2), q_lin(c["w2"], c["b2"], no, a2)) - c["alpha"] * lp(no)),
            }
            sig = "C07/sac/q-loss"
            for name, v in alts.items():
                if refs.close(ql, v, 1e-4):
                    sig = f"C07/sac/target/{name}"
                    break
            out.append((ci, sig, f"{desc}: q_loss {ql}, reference {kap * mse} (targets {ys})"))
        else:
            # applied critic update (SGD, lr 1) == closed-form gradient with constant targets
            for name, new, w, b, e in (("qf1", n1, c["w1"], c["b1"], e1), ("qf2", n2, c["w2"], c["b2"], e2)):
                X = np.stack([np.concatenate([(np.arange(S_SAC) == int(o)).astype(np.float64), [a]]) for (o, a, *_r) in rows])
                gw = 2.0 * kap / B * (e[:, None] * X).sum(0)
                gb = 2.0 * kap / B * e.sum()
                got_w = np.asarray(w, dtype=np.float64) - np.asarray(new.mlp.layers[0].weight, dtype=np.float64).reshape(-1)
                got_b = float(b) - float(np.asarray(new.mlp.layers[0].bias).reshape(-1)[0])
                if not (np.all(refs.close(got_w, gw, 1e-4)) and refs.close(got_b, gb, 1e-4)):
                    out.append((ci, "C07/sac/critic-gradient", f"{desc}: applied {name} update (weight {got_w.tolist()}, bias {got_b}) != gradient of the squared error with constant targets ({gw.tolist()}, {gb})"))
        # the actor branch does not move the critics; a closed gate leaves actor and temperature alone
        same = lambda x, y: all(np.array_equal(np.asarray(p), np.asarray(q)) for p, q in zip(jax.tree.leaves(x), jax.tree.leaves(y)))
        if not (same(n1, m1) and same(n2, m2)):
            out.append((ci, "C07/sac/actor-update-moves-critics", f"{desc}: critics returned with the actor update differ from those returned without it"))
        if not same(pol1, policy):
            out.append((ci, "C07/sac/policy-changed-with-gate-closed", f"{desc}: policy changed on an iteration where the actor gate is closed"))
        if not np.array_equal(np.asarray(la1), np.asarray(la)):
            out.append((ci, "C07/sac/alpha-changed-with-gate-closed", f"{desc}: log_alpha changed with the gate closed"))
        term_rows = int(sum(1 for r in rows if r[4] and not r[5]))
        ctx.guard("sac-terminated-rows", term_rows)
        ctx.guard("sac-timeout-rows", int(sum(1 for r in rows if r[4] and r[5])))
        ctx.guard("sac-q1-lt-q2", int(any(q_lin(c["tw1"], c["tb1"], int(r[3]), a2) < q_lin(c["tw2"], c["tb2"], int(r[3]), a2) for r in rows)))
        ctx.guard("sac-q2-lt-q1", int(any(q_lin(c["tw1"], c["tb1"], int(r[3]), a2) > q_lin(c["tw2"], c["tb2"], int(r[3]), a2) for r in rows)))
    return out


# ---------------------------------------------------------------------------------------
# wiring: the same closed forms, observed through the real reset + iteration
# ---------------------------------------------------------------------------------------
ITER_VARIANTS = {
    # name: (T, term, init, limit) over 2 states; every stored row is the same (obs 0 -> nobs, flags)
    "nonterminal": ([[0, 0], [0, 0]], [False, False], [True, False], 0),
    "terminal": ([[1, 1], [1, 1]], [False, True], [True, False], 0),
    "truncated": ([[0, 0], [0, 0]], [False, False], [True, False], 1),
    "terminal-and-truncated": ([[1, 1], [1, 1]], [False, True], [True, False], 1),
}
_ITER = {}
from lerax.callback import CallbackList  # noqa: E402


def _iter_driver(kind, variant, gamma, E, T):
    k = (kind, variant, gamma, E, T)
    if k not in _ITER:
        Tt, term, init, limit = ITER_VARIANTS[variant]
        cb = CallbackList(callbacks=[])
        if kind == "sac":
            env = TabEnv(np.asarray(Tt), term, init, limit=limit, act_kind="box", obs_kind="onehot")
            algo = SAC(buffer_size=8 * E, gamma=gamma, learning_starts=2, num_envs=E, num_steps=T, batch_size=3, policy_frequency=2,
                       q_width_size=2, q_depth=0, autotune=True, tau=0.5)
            object.__setattr__(algo, "q_optimizer", optax.sgd(1.0))
        else:
            env = TabEnv(np.asarray(Tt), term, init, limit=limit, act_kind="discrete", obs_kind="discrete")
            algo = DQN(buffer_size=8 * E, gamma=gamma, learning_starts=2, num_envs=E, num_steps=T, batch_size=3, target_update_interval=1000)
            object.__setattr__(algo, "optimizer", optax.sgd(1.0))

        @eqx.filter_jit
        def run(policy, nets, key):
            k0, k1 = jr.split(key)
            st = algo.reset(env, policy, key=k0, callback=cb)
            if kind == "sac":
                qf1, qf2, qt1, qt2, la = nets
                st = eqx.tree_at(lambda s: (s.qf1, s.qf2, s.qf1_target, s.qf2_target, s.log_alpha), st, (qf1, qf2, qt1, qt2, la))
            else:
                st = eqx.tree_at(lambda s: s.target_policy, st, nets)
            return algo.iteration(st, key=k1, callback=cb)

        _ITER[k] = (env, run)
    return _ITER[k]


def _rows_of(buffer, E):
    """written rows of the (possibly per-environment) replay buffer as python tuples"""
    rows = []
    f = lambda x: np.asarray(x)
    pos = f(buffer.position).reshape(-1)
    for e in range(E):
        g = (lambda x: f(x)[e]) if E > 1 else f
        for i in range(int(pos[e])):
            rows.append((g(buffer.observations)[i].tolist(), float(g(buffer.actions)[i]), float(g(buffer.rewards)[i]),
                         g(buffer.next_observations)[i].tolist(), bool(g(buffer.dones)[i]), bool(g(buffer.timeouts)[i])))
    return rows


def clause_iter(cases, ctx: Ctx):
    """case: {kind: sac|dqn, variant, num_envs, num_steps, gamma, key, + network alphabets}.  The environment stores one and the same
    row whatever happens, so the minibatch drawn inside the real iteration() is known without knowing its key; the update applied by
    iteration() (SGD lr 1 swapped in) must be the gradient of the squared error against the target built from the state's TARGET networks."""
    out = []
    for ci, c in enumerate(cases):
        kind, variant, E, T, gamma = c["kind"], c["variant"], c["num_envs"], c["num_steps"], c["gamma"]
        env, run = _iter_driver(kind, variant, gamma, E, T)
        desc = f"{kind.upper()}.iteration num_envs={E} num_steps={T} gamma={gamma} environment '{variant}'"
        if kind == "sac":
            a = c["action"]
            policy = ScriptedSAC(env, [a])
            nets = (linear_q(c["w1"], c["b1"]), linear_q(c["w2"], c["b2"]), linear_q(c["tw1"], c["tb1"]), linear_q(c["tw2"], c["tb2"]),
                    jnp.log(jnp.asarray(c["alpha"], dtype=float)))
        else:
            policy = TabularQ(2, 2, c["Qon"])
            nets = TabularQ(2, 2, c["Qtg"])
        st = run(policy, nets, jr.key(c["key"]))
        ctx.transitions += 1
        rows = _rows_of(st.step_state.buffer, E)
        # trace validation: the environment's answers, read back from the buffer
        nob_idx = 1 if variant.startswith("terminal") else 0
        want_done = variant != "nonterminal"
        want_timeout = variant == "truncated"
        if len(rows) != E * (2 + T) or len({(tuple(np.ravel(r[0])), r[1], r[2], tuple(np.ravel(r[3])), r[4], r[5]) for r in rows}) != 1:
            raise AssertionError(f"harness: {desc}: buffer rows not homogeneous: {rows}")
        o, act, rew, no, d, to = rows[0]
        if (d, to) != (want_done, want_timeout):
            out.append((ci, "C07/iter/flags", f"{desc}: stored (done, timeout) = {(d, to)}, the environment produced {(want_done, want_timeout)}"))
            continue
        terminated = d and not to
        ctx.guard(f"iter-{kind}-{'terminated' if terminated else ('truncated' if to else 'running')}")
        if kind == "sac":
            lp = -0.25 * (nob_idx + 1) - action_penalty_np(a, "box")
            qt1, qt2 = q_lin(c["tw1"], c["tb1"], nob_idx, a), q_lin(c["tw2"], c["tb2"], nob_idx, a)
            qo1, qo2 = q_lin(c["w1"], c["b1"], nob_idx, a), q_lin(c["w2"], c["b2"], nob_idx, a)
            ctx.guard("iter-sac-target1-decides", int(qt1 < qt2 and min(qo1, qt2) != qt1))
            ctx.guard("iter-sac-target2-decides", int(qt2 < qt1 and min(qt1, qo2) != qt2))
            boot = 0.0 if terminated else 1.0
            y = rew + gamma * boot * (min(qt1, qt2) - c["alpha"] * lp)
            alts = {
                "online-critic-1-used-as-target": rew + gamma * boot * (min(qo1, qt2) - c["alpha"] * lp),
                "online-critic-2-used-as-target": rew + gamma * boot * (min(qt1, qo2) - c["alpha"] * lp),
                "online-critics-in-target": rew + gamma * boot * (min(qo1, qo2) - c["alpha"] * lp),
                "bootstraps-through-termination": rew + gamma * (min(qt1, qt2) - c["alpha"] * lp),
                "no-bootstrap-through-truncation": rew + gamma * (0.0 if d else 1.0) * (min(qt1, qt2) - c["alpha"] * lp),
            }
            x = np.concatenate([np.asarray(o, dtype=np.float64), [act]])
            got = []
            for (w, b, new) in ((c["w1"], c["b1"], st.qf1), (c["w2"], c["b2"], st.qf2)):
                dw = np.asarray(w, dtype=np.float64) - np.asarray(new.mlp.layers[0].weight, dtype=np.float64).reshape(-1)
                db = float(b) - float(np.asarray(new.mlp.layers[0].bias).reshape(-1)[0])
                got.append(np.concatenate([dw, [db]]))
            got = np.concatenate(got)
            xe = np.concatenate([x, [1.0]])

            def grad(target):
                e1 = q_lin(c["w1"], c["b1"], 0, act) - target
                e2 = q_lin(c["w2"], c["b2"], 0, act) - target
                return np.concatenate([e1 * xe, e2 * xe])

            shown = f"critics w1={c['w1']} b1={c['b1']} w2={c['w2']} b2={c['b2']}, targets tw1={c['tw1']} tb1={c['tb1']} tw2={c['tw2']} tb2={c['tb2']}, alpha={c['alpha']}, actor action {a}"
        else:
            Qon, Qtg = np.asarray(c["Qon"], dtype=np.float64), np.asarray(c["Qtg"], dtype=np.float64)
            act_i = int(act)
            if act_i != int(np.argmax(Qon[0])):
                raise AssertionError(f"harness: {desc}: stored action {act} is not the greedy action of {Qon[0]}")
            a_star = int(np.argmax(Qon[nob_idx]))
            boot = 0.0 if terminated else 1.0
            y = rew + gamma * boot * Qtg[nob_idx, a_star]
            alts = {
                "online-net-used-as-target": rew + gamma * boot * Qon[nob_idx, a_star],
                "target-argmax-from-target-net": rew + gamma * boot * Qtg[nob_idx].max(),
                "bootstraps-through-termination": rew + gamma * Qtg[nob_idx, a_star],
                "no-bootstrap-through-truncation": rew + gamma * (0.0 if d else 1.0) * Qtg[nob_idx, a_star],
            }
            ctx.guard("iter-dqn-target-neq-online", int(Qtg[nob_idx, a_star] != Qon[nob_idx, a_star]))
            got = (Qon - np.asarray(st.policy.Q, dtype=np.float64)).reshape(-1)

            def grad(target):
                g = np.zeros((2, 2))
                g[0, act_i] = Qon[0, act_i] - target
                return g.reshape(-1)

            shown = f"online Q={Qon.tolist()} target Q={Qtg.tolist()}"
        ok = any(np.all(refs.close(got, 2.0 * kap * grad(y), 1e-4)) for kap in (0.5, 1.0))
        if not ok:
            sig = f"C07/iter/{kind}/update"
            for name, ya in alts.items():
                if not refs.close(ya, y, 1e-9) and any(np.all(refs.close(got, 2.0 * kap * grad(ya), 1e-4)) for kap in (0.5, 1.0)):
                    sig = f"C07/iter/{kind}/target/{name}"
                    break
            out.append((ci, sig, f"{desc}: stored row (obs, act, rew, nobs, done, timeout)={rows[0]}, {shown}: update applied by iteration() {got.tolist()} is not the "
                                 f"gradient of the squared error against y = {y} ({(2.0 * 0.5 * grad(y)).tolist()} at scale 1/2)"))
    return out


CLAUSES = {"dqn": clause_dqn, "sac": clause_sac, "iter": clause_iter}


def orderings(A, values):
    return [list(p) for p in itertools.permutations(values[:A])]


def explore(ctx: Ctx):
    thorough = ctx.tier == "thorough"
    ctx.rule = (
        "DQN: every batch of B rows over the alphabet obs x act x reward{-1,0,2} x next-obs x (done,timeout) in all four "
        "combinations x every pair of strict action-value orderings (online, target) per state x gamma{0,.5,1}. SAC: every "
        "batch of B rows over the flag/reward alphabet x critic weight alphabet x alpha x gamma through the real sac_train. "
        "non-trivial = a batch containing a terminated row or a truncated (timeout) row"
    )
    ctx.assumptions = ["loss scale kappa in {1/2, 1} calibrated once then required constant", "SAC critic optimiser replaced by SGD(1.0) in the harness to read gradients back"]
    flags = [(0, 0), (1, 0), (1, 1), (0, 1)]
    dqn = []

    def rows_alpha(S, A, rewards):
        return [[o, a, r, no, d, t] for o in range(S) for a in range(A) for r in rewards for no in range(S) for (d, t) in flags]

    def tables(S, A, vals):
        per_state = orderings(A, vals)
        return [list(t) for t in itertools.product(per_state, repeat=S)]

    # B=1: S=2, A=3, all ordering pairs
    on3, tg3 = tables(2, 3, [1.0, 2.0, 4.0]), tables(2, 3, [10.0, 20.0, 40.0])
    for row in rows_alpha(2, 3, [-1.0, 0.0, 2.0]):
        for qon in on3[:: (1 if thorough else 5)]:
            for qtg in tg3[:: (1 if thorough else 5)]:
                for g in (0.0, 0.5, 1.0):
                    dqn.append(dict(S=2, A=3, rows=[row], Qon=qon, Qtg=qtg, gamma=g))
    # a target (and online) table that marks an action as invalid with -inf: the greedy action's value is finite and so must the target be
    NEG = float("-inf")
    for row in rows_alpha(2, 3, [-1.0, 2.0]):
        for g in (0.5, 1.0):
            if (row[0], row[1]) not in ((0, 2), (1, 0)):  # the action actually taken has a finite online value
                dqn.append(dict(S=2, A=3, rows=[row], Qon=[[1.0, 4.0, NEG], [NEG, 2.0, 1.0]], Qtg=[[10.0, 40.0, NEG], [NEG, 20.0, 10.0]], gamma=g))
            dqn.append(dict(S=2, A=3, rows=[row], Qon=[[1.0, 4.0, 2.0], [4.0, 2.0, 1.0]], Qtg=[[NEG, 40.0, NEG], [20.0, NEG, NEG]], gamma=g))
    # B=2: S=2, A=2
    on2, tg2 = tables(2, 2, [1.0, 2.0]), tables(2, 2, [10.0, 20.0])
    ra = rows_alpha(2, 2, [-1.0, 2.0])
    for r1, r2 in itertools.product(ra, repeat=2):
        for qon in on2:
            for qtg in tg2[:: (1 if thorough else 2)]:
                for g in ((0.0, 0.5, 1.0) if thorough else (0.5,)):
                    dqn.append(dict(S=2, A=2, rows=[r1, r2], Qon=qon, Qtg=qtg, gamma=g))
    if thorough:
        ra3 = [r for r in rows_alpha(2, 2, [2.0]) if r[0] == 0]
        for rs in itertools.product(ra3, repeat=3):
            for qon in on2:
                for qtg in tg2[::2]:
                    dqn.append(dict(S=2, A=2, rows=list(rs), Qon=qon, Qtg=qtg, gamma=0.5))
    for c in dqn:
        if any(r[4] for r in c["rows"]):
            pass
    ctx.run("dqn", dqn, chunk=300000)
    ctx.nontrivial = set(range(sum(1 for c in dqn if any(r[4] for r in c["rows"]))))
    sac = []
    wA = [([1.0, -2.0, 0.5], 0.25), ([-1.0, 3.0, 2.0], -0.5)]
    tA = [(([2.0, 1.0, -1.0], 0.0), ([1.0, 2.0, 1.0], 0.5)), (([0.5, 4.0, 2.0], 1.0), ([3.0, -1.0, -2.0], 0.25))]
    srow = [[o, a, r, no, d, t] for o in (0, 1) for a in (-0.5,) for r in (-1.0, 2.0) for no in (0, 1) for (d, t) in flags]
    batches = [[r] for r in srow] + ([list(p) for p in itertools.product(srow[::3], repeat=2)] if thorough else [list(p) for p in itertools.product(srow[::5], repeat=2)])
    for rows in batches:
        for (w1, b1), (w2, b2) in ((wA[0], wA[1]), (wA[1], wA[0])):
            for (t1, t2) in tA:
                for alpha in ((0.2, 1.0, 0.001) if thorough else (0.2, 1.0)):
                    for g in ((0.5, 1.0, 0.0) if thorough else (0.5,)):
                        for na in (0.5, -1.0):
                            sac.append(dict(rows=rows, w1=w1[:], b1=b1, w2=w2[:], b2=b2, tw1=t1[0], tb1=t1[1], tw2=t2[0], tb2=t2[1],
                                            alpha=alpha, gamma=g, next_action=na, key=ctx.seed))
    ctx.run("sac", sac)
    ctx.nontrivial |= {("sac", i) for i, c in enumerate(sac) if any(r[4] for r in c["rows"])}
    itc = []
    qtabs = [[[1.0, 2.0], [2.0, 1.0]], [[2.0, 1.0], [1.0, 2.0]], [[1.0, 2.0], [1.0, 2.0]]]
    ttabs = [[[10.0, 20.0], [40.0, 30.0]], [[20.0, 10.0], [30.0, 40.0]]]
    for variant in ITER_VARIANTS:
        for (E, T) in (((1, 1), (2, 1), (1, 2), (2, 3)) if thorough else ((1, 1), (2, 2))):
            for g in ((0.5, 1.0) if thorough else (0.5,)):
                for qon in qtabs:
                    for qtg in ttabs:
                        itc.append(dict(kind="dqn", variant=variant, num_envs=E, num_steps=T, gamma=g, Qon=qon, Qtg=qtg, key=ctx.seed))
                for (w1, b1), (w2, b2) in ((wA[0], wA[1]), (wA[1], wA[0])):
                    for (t1, t2) in tA + [(b, a) for (a, b) in tA]:
                        for alpha in ((0.2, 1.0) if thorough else (0.2,)):
                            for na in (0.5, -1.0):
                                itc.append(dict(kind="sac", variant=variant, num_envs=E, num_steps=T, gamma=g, w1=w1[:], b1=b1, w2=w2[:], b2=b2,
                                                tw1=t1[0], tb1=t1[1], tw2=t2[0], tb2=t2[1], alpha=alpha, action=na, key=ctx.seed))
    ctx.run("iter", itc)
    ctx.nontrivial |= {("iter", i) for i, c in enumerate(itc) if c["variant"] != "nonterminal"}
    ctx.notes["iter_cases"] = len(itc)
    ctx.notes["dqn_cases"] = len(dqn)
    ctx.notes["sac_cases"] = len(sac)
    ctx.notes["kappa_seen"] = {k: sorted(v) for k, v in KAPPA.items()}
    ctx.require("dqn-terminated-rows", "dqn-timeout-rows", "dqn-double-neq-vanilla", "dqn-target-neq-online-eval",
                "sac-terminated-rows", "sac-timeout-rows", "sac-q1-lt-q2", "sac-q2-lt-q1",
                "iter-sac-terminated", "iter-sac-truncated", "iter-sac-running", "iter-dqn-terminated", "iter-dqn-truncated", "iter-dqn-running",
                "iter-sac-target1-decides", "iter-sac-target2-decides", "iter-dqn-target-neq-online")
