"""C14 - spaces: exact membership, member samples, coherent equality.

Programs   : every space of nesting depth <= 2 over a leaf alphabet (Discrete, Box of three ranks with
             finite / half-infinite / infinite / mixed / degenerate / huge bounds, MultiBinary,
             MultiDiscrete) combined by Tuple (arity 1-2) and Dict (1-2 keys, both insertion orders).
Inputs     : per space, candidates generated from the structure of the membership predicate: members
             at every bound corner + an interior point, and every *single* way of leaving the set.
Pairs      : all ordered pairs of enumerated spaces for == / hash; every space through the gym round trip.
Oracle     : a pure-Python/numpy membership predicate and structural equality written from the
             property statement (three-valued: conventions the statement leaves open are not judged).

Nothing here is sampled: PRNG keys come from the finite alphabet K (mc.core.key_ints), and the oracle
never depends on how the library derives sub-keys.
"""

from __future__ import annotations

import collections
import itertools
import json
from collections import OrderedDict

import jax
import numpy as np
from jax import numpy as jnp
from jax import random as jr

from lerax.space import Box, Dict, Discrete, MultiBinary, MultiDiscrete, Tuple

from mc.core import Ctx, HarnessError, key_ints, lib_frame

LEVEL = "exploration"

INF = float("inf")
HUGE = 1e37  # |finite bound| above this = "huge-bounded" (float32 arithmetic on the bounds may overflow)
FAR = 1e30  # stand-in for "very far out" on an unbounded side (exactly representable class, finite)


# =============================================================================================
# encoding of specs and values as JSON
# =============================================================================================
def fenc(v):
    v = float(v)
    if v != v:
        return "nan"
    if v == INF:
        return "inf"
    if v == -INF:
        return "-inf"
    return v


def fdec(v):
    if isinstance(v, str):
        return {"nan": float("nan"), "inf": INF, "-inf": -INF}[v]
    return v


def nested_dec(v):
    if isinstance(v, list):
        return [nested_dec(x) for x in v]
    return fdec(v)


def nested_enc(v):
    if isinstance(v, (list, tuple)):
        return [nested_enc(x) for x in v]
    return fenc(v)


def D(n):
    return {"k": "Discrete", "n": n}


def B(low, high, shape=None):
    return {"k": "Box", "low": nested_enc(low), "high": nested_enc(high), "shape": None if shape is None else list(shape)}


def MB(n):
    return {"k": "MultiBinary", "n": n if isinstance(n, int) else list(n)}


def MD(nvec):
    return {"k": "MultiDiscrete", "nvec": list(nvec)}


def T(*spaces):
    return {"k": "Tuple", "spaces": list(spaces)}


def DI(*items):
    return {"k": "Dict", "items": [[k, s] for k, s in items]}


def skey(spec) -> str:
    return json.dumps(spec, sort_keys=True)


def short(spec) -> str:
    k = spec["k"]
    if k == "Discrete":
        return f"Discrete({spec['n']})"
    if k == "Box":
        s = f"Box({spec['low']},{spec['high']}"
        return s + (f",shape={spec['shape']})" if spec["shape"] is not None else ")")
    if k == "MultiBinary":
        return f"MultiBinary({spec['n']})"
    if k == "MultiDiscrete":
        return f"MultiDiscrete({spec['nvec']})"
    if k == "Tuple":
        return "Tuple(" + ", ".join(short(s) for s in spec["spaces"]) + ")"
    return "Dict(" + ", ".join(f"{k_}: {short(s)}" for k_, s in spec["items"]) + ")"


def build(spec):
    """Construct the REAL lerax space from a spec (fresh object every call)."""
    k = spec["k"]
    if k == "Discrete":
        return Discrete(spec["n"])
    if k == "Box":
        shape = None if spec["shape"] is None else tuple(spec["shape"])
        return Box(nested_dec(spec["low"]), nested_dec(spec["high"]), shape=shape)
    if k == "MultiBinary":
        n = spec["n"]
        return MultiBinary(n if isinstance(n, int) else tuple(n))
    if k == "MultiDiscrete":
        return MultiDiscrete(tuple(spec["nvec"]))
    if k == "Tuple":
        return Tuple(tuple(build(s) for s in spec["spaces"]))
    if k == "Dict":
        return Dict(OrderedDict((key, build(s)) for key, s in spec["items"]))
    raise HarnessError(f"unknown spec kind {k}")


def children(spec):
    if spec["k"] == "Tuple":
        return list(spec["spaces"])
    if spec["k"] == "Dict":
        return [s for _, s in spec["items"]]
    return []


def obj_children(space, spec):
    if spec["k"] == "Tuple":
        return list(space.spaces)
    if spec["k"] == "Dict":
        return [space.spaces[k] for k, _ in spec["items"]]
    return []


# ---- values ----------------------------------------------------------------------------------
def varr(a, lib="jnp"):
    a = np.asarray(a)
    return {"t": "arr", "dtype": str(a.dtype), "shape": list(a.shape), "v": [fenc(x) if a.dtype.kind == "f" else (bool(x) if a.dtype.kind == "b" else int(x)) for x in a.ravel().tolist()], "lib": lib}


def vpy(v):
    return {"t": "py", "v": fenc(v) if isinstance(v, float) else v}


VNONE = {"t": "none"}
VSTR = {"t": "str", "v": "abc"}
VOBJ = {"t": "object"}


def vtuple(vs):
    return {"t": "tuple", "v": list(vs)}


def vlist(vs):
    return {"t": "list", "v": list(vs)}


def vodict(items):
    return {"t": "odict", "v": [[k, v] for k, v in items]}


def decode(val):
    t = val["t"]
    if t == "arr":
        a = np.array([fdec(x) for x in val["v"]], dtype=val["dtype"]).reshape(val["shape"])
        return jnp.asarray(a) if val.get("lib", "jnp") == "jnp" else a
    if t == "py":
        return fdec(val["v"])
    if t == "none":
        return None
    if t == "str":
        return val["v"]
    if t == "object":
        return object()
    if t == "tuple":
        return tuple(decode(v) for v in val["v"])
    if t == "list":
        return [decode(v) for v in val["v"]]
    if t == "odict":
        return OrderedDict((k, decode(v)) for k, v in val["v"])
    if t == "dict":
        return {k: decode(v) for k, v in val["v"]}
    raise HarnessError(f"unknown value tag {t}")


def encode_obj(o):
    """Encode a library-produced value (sample / canonical) for messages and injectivity keys."""
    if isinstance(o, tuple):
        return vtuple([encode_obj(x) for x in o])
    if isinstance(o, OrderedDict):
        return vodict([(k, encode_obj(v)) for k, v in o.items()])
    if isinstance(o, dict):
        return {"t": "dict", "v": [[k, encode_obj(v)] for k, v in o.items()]}
    if isinstance(o, list):
        return vlist([encode_obj(x) for x in o])
    if o is None:
        return VNONE
    if isinstance(o, (bool, int, float)):
        return vpy(o)
    return varr(np.asarray(o))


def vshow(val) -> str:
    t = val["t"]
    if t == "arr":
        return f"{val['lib'] if 'lib' in val else 'jnp'}.{val['dtype']}{val['shape']}{val['v']}"
    if t in ("tuple", "list"):
        return ("(" if t == "tuple" else "[") + ", ".join(vshow(v) for v in val["v"]) + (")" if t == "tuple" else "]")
    if t in ("odict", "dict"):
        return t + "{" + ", ".join(f"{k}: {vshow(v)}" for k, v in val["v"]) + "}"
    if t == "py":
        return f"py:{val['v']!r}"
    return t


# =============================================================================================
# the reference model (written from the property statement)
# =============================================================================================
def box_bounds(spec):
    """(low, high) float32 arrays of the Box a spec denotes: with an explicit shape both bounds are
    broadcast to it, without one they are broadcast against each other."""
    low = np.asarray(nested_dec(spec["low"]), dtype=np.float32)
    high = np.asarray(nested_dec(spec["high"]), dtype=np.float32)
    if spec["shape"] is None:
        low, high = np.broadcast_arrays(low, high)
    else:
        low = np.broadcast_to(low, tuple(spec["shape"]))
        high = np.broadcast_to(high, tuple(spec["shape"]))
    return np.array(low), np.array(high)


def bound_class(lo, hi) -> str:
    flo, fhi = np.isfinite(lo), np.isfinite(hi)
    if flo and fhi:
        if lo == hi:
            return "degenerate"
        if abs(lo) > HUGE or abs(hi) > HUGE:
            return "huge-bounded"
        return "bounded"
    if flo:
        return "lower-bounded"
    if fhi:
        return "upper-bounded"
    return "unbounded"


def as_array(o):
    """Numeric view of a candidate, or a string saying why it is not numeric.
    Returns (np.ndarray | None, category): category in {'array','pyscalar','foreign','open'}."""
    if isinstance(o, (jax.Array, np.ndarray, np.generic)):
        a = np.asarray(o)
        if a.dtype.kind in "biuf":
            return a, "array"
        return None, "foreign"
    if isinstance(o, bool):
        return None, "open"  # Python bool as a number: not pinned
    if isinstance(o, (int, float)):
        return np.asarray(o), "pyscalar"
    if isinstance(o, list):
        return None, "open"  # array-likes other than arrays: not pinned
    return None, "foreign"  # None, str, tuple, dict, arbitrary objects


def ref_member(spec, o):
    """Three-valued membership: (True|False|None, reason).  None = the statement leaves it open."""
    k = spec["k"]
    if k == "Tuple":
        if isinstance(o, list):
            return None, "list-for-tuple"
        if not isinstance(o, tuple):
            return False, "wrong-container"
        if len(o) != len(spec["spaces"]):
            return False, "wrong-length"
        return _combine([ref_member(s, x) for s, x in zip(spec["spaces"], o)])
    if k == "Dict":
        if not isinstance(o, collections.abc.Mapping):
            return False, "wrong-container"
        keys = [key for key, _ in spec["items"]]
        if set(o.keys()) != set(keys):
            return False, "wrong-keys"
        v, why = _combine([ref_member(s, o[key]) for key, s in spec["items"]])
        if v is True and (not isinstance(o, OrderedDict) or list(o.keys()) != keys):
            return None, "mapping-type-or-order"
        return v, why
    a, cat = as_array(o)
    if cat == "foreign":
        return False, "foreign-type"
    if cat == "open":
        return None, "array-like"
    if k == "Box":
        low, high = box_bounds(spec)
        if a.shape != low.shape:
            return False, "wrong-shape"
        if a.dtype.kind == "b":
            return None, "bool-for-float"
        x = a.astype(np.float64)
        lo64, hi64 = low.astype(np.float64), high.astype(np.float64)
        open_ = False
        for idx in np.ndindex(x.shape):
            cls = bound_class(low[idx], high[idx])
            if x[idx] != x[idx]:
                return False, f"{cls}/nan"
            if x[idx] < lo64[idx]:
                return False, f"{cls}/below-low"
            if x[idx] > hi64[idx]:
                return False, f"{cls}/above-high"
            if np.isinf(x[idx]):
                open_ = True  # +-inf sitting exactly on an infinite bound: not pinned
        return (None, "inf-on-infinite-bound") if open_ else (True, "")
    if k == "Discrete":
        if a.shape != ():
            return False, "wrong-shape"
        return _index_member(a.reshape(1), [spec["n"]])
    if k == "MultiDiscrete":
        if a.shape != (len(spec["nvec"]),):
            return False, "wrong-shape"
        return _index_member(a, spec["nvec"])
    if k == "MultiBinary":
        shape = (spec["n"],) if isinstance(spec["n"], int) else tuple(spec["n"])
        if a.shape != shape:
            return False, "wrong-shape"
        x = a.astype(np.float64).ravel()
        for v in x:
            if v != v:
                return False, "nan"
            if v != 0 and v != 1:
                return False, "not-binary"
        return (True, "") if a.dtype.kind == "b" else (None, "non-bool-dtype")
    raise HarnessError(f"unknown kind {k}")


def _index_member(a, nvec):
    x = a.astype(np.float64).ravel()
    for v, n in zip(x, nvec):
        if v != v:
            return False, "nan"
        if v < 0:
            return False, "negative-index"
        if v >= n:
            return False, "index-too-large"
        if v != np.floor(v):
            return False, "non-integral"
    if a.dtype.kind in "iu":
        return True, ""
    return None, "integral-value-in-non-integer-dtype"


def _combine(results):
    for v, why in results:
        if v is False:
            return False, why
    for v, why in results:
        if v is None:
            return None, why
    return True, ""


def ref_distinct_key(val) -> str:
    """Identity of an enumerated member as a value (numbers compared numerically, not by dtype)."""
    t = val["t"]
    if t == "arr":
        return json.dumps(["a", val["shape"], [fenc(float(fdec(x))) for x in val["v"]]])
    if t == "py":
        return json.dumps(["a", [], [fenc(float(fdec(val["v"])))]])
    if t in ("tuple", "list"):
        return json.dumps(["t", [ref_distinct_key(v) for v in val["v"]]])
    if t in ("odict", "dict"):
        return json.dumps(["d", sorted([k, ref_distinct_key(v)] for k, v in val["v"])])
    return json.dumps([t])


# ---- structural equality ---------------------------------------------------------------------
def ref_diff(a, b, sort_keys=False):
    """None if a and b denote equal spaces (equal structure and parameters); otherwise
    (kind, difference-class) of the outermost-to-innermost first difference.  The class 'order-only'
    means: equal up to Dict insertion order (left open by the statement unless sort_keys)."""
    if a["k"] != b["k"]:
        return (a["k"], "kind")
    k = a["k"]
    if k == "Discrete":
        return None if a["n"] == b["n"] else (k, "n")
    if k == "MultiBinary":
        na = (a["n"],) if isinstance(a["n"], int) else tuple(a["n"])
        nb = (b["n"],) if isinstance(b["n"], int) else tuple(b["n"])
        return None if na == nb else (k, "n")
    if k == "MultiDiscrete":
        return None if list(a["nvec"]) == list(b["nvec"]) else (k, "nvec")
    if k == "Box":
        la, ha = box_bounds(a)
        lb, hb = box_bounds(b)
        if la.shape != lb.shape:
            return (k, "shape")
        dl, dh = not np.array_equal(la, lb), not np.array_equal(ha, hb)
        if dl and dh:
            return (k, "low+high")
        if dl:
            return (k, "low")
        if dh:
            return (k, "high")
        return None
    if k == "Tuple":
        sa, sb = a["spaces"], b["spaces"]
        common = [ref_diff(x, y, sort_keys) for x, y in zip(sa, sb)]
        if len(sa) != len(sb):
            return (k, "arity")
        hard = [d for d in common if d is not None and d[1] != "order-only"]
        if hard:
            return hard[0] if hard[0][1] != "kind" else (k, "child-kind")
        if any(d is not None for d in common):
            return (k, "order-only")
        return None
    if k == "Dict":
        ia, ib = list(a["items"]), list(b["items"])
        if sort_keys:
            ia, ib = sorted(ia, key=lambda kv: kv[0]), sorted(ib, key=lambda kv: kv[0])
        ka, kb = [x[0] for x in ia], [x[0] for x in ib]
        if len(ka) != len(kb):
            return (k, "arity")
        if set(ka) != set(kb):
            return (k, "keys")
        da, db = dict(ia), dict(ib)
        per_key = [ref_diff(da[key], db[key], sort_keys) for key in ka]
        hard = [d for d in per_key if d is not None and d[1] != "order-only"]
        if hard:
            return hard[0] if hard[0][1] != "kind" else (k, "child-kind")
        if ka != kb or any(d is not None for d in per_key):
            return (k, "order-only")
        return None
    raise HarnessError(f"unknown kind {k}")


def signed_zero_only(a, b) -> bool:
    """a and b are equal Boxes (possibly nested at the same position) whose bounds differ in the sign of a zero."""
    if a["k"] != b["k"]:
        return False
    if a["k"] == "Box":
        la, ha = box_bounds(a)
        lb, hb = box_bounds(b)
        return la.shape == lb.shape and np.array_equal(la, lb) and np.array_equal(ha, hb) and (
            la.tobytes() != lb.tobytes() or ha.tobytes() != hb.tobytes()
        )
    ca, cb = children(a), children(b)
    return len(ca) == len(cb) and len(ca) > 0 and any(signed_zero_only(x, y) for x, y in zip(ca, cb))


def describe(space):
    """Spec of a lerax space read back from its documented attributes (used after the gym round trip)."""
    if isinstance(space, Discrete):
        return D(int(space.n))
    if isinstance(space, Box):
        low, high = np.asarray(space.low), np.asarray(space.high)
        return B(low.tolist(), high.tolist(), shape=low.shape)
    if isinstance(space, MultiBinary):
        return MB([int(x) for x in space.n])
    if isinstance(space, MultiDiscrete):
        return MD([int(x) for x in space.nvec])
    if isinstance(space, Tuple):
        return T(*[describe(s) for s in space.spaces])
    if isinstance(space, Dict):
        return DI(*[(k, describe(s)) for k, s in space.spaces.items()])
    raise HarnessError(f"cannot describe {type(space)}")


def describe_gym(g):
    import gymnasium as gym

    sp = gym.spaces
    if isinstance(g, sp.Discrete):
        if int(g.start) != 0:
            return {"k": "Discrete", "n": int(g.n), "start": int(g.start)}
        return D(int(g.n))
    if isinstance(g, sp.Box):
        return B(np.asarray(g.low, dtype=np.float32).tolist(), np.asarray(g.high, dtype=np.float32).tolist(), shape=g.shape)
    if isinstance(g, sp.MultiBinary):
        return MB([int(x) for x in g.shape])
    if isinstance(g, sp.MultiDiscrete):
        nv = np.asarray(g.nvec)
        if nv.ndim != 1:
            return {"k": "MultiDiscrete", "nvec": nv.tolist(), "ndim": nv.ndim}
        return MD([int(x) for x in nv])
    if isinstance(g, sp.Tuple):
        return T(*[describe_gym(s) for s in g.spaces])
    if isinstance(g, sp.Dict):
        return DI(*[(k, describe_gym(s)) for k, s in g.spaces.items()])
    return {"k": type(g).__name__}


# =============================================================================================
# candidate generation (from the structure of the predicate)
# =============================================================================================
def _f32(x):
    return np.asarray(x, dtype=np.float32)


TINY = np.finfo(np.float32).tiny  # smallest normal float32


def just_below(v):
    """Nearest float32 below v that is not subnormal (XLA CPU flushes subnormals to zero)."""
    w = np.nextafter(_f32(v), _f32(-INF))
    return _f32(-TINY) if (w != 0 and abs(w) < TINY) else w


def just_above(v):
    w = np.nextafter(_f32(v), _f32(INF))
    return _f32(TINY) if (w != 0 and abs(w) < TINY) else w


def leaf_candidates(spec, brief: bool):
    """-> (members [(val, tag)], nonmembers [(val, fault)]).  brief = one representative per fault class."""
    k = spec["k"]
    mem, non = [], []
    if k == "Box":
        low, high = box_bounds(spec)
        shape = low.shape
        lo_f = np.where(np.isfinite(low), low, _f32(-FAR)).astype(np.float32)
        hi_f = np.where(np.isfinite(high), high, _f32(FAR)).astype(np.float32)
        interior = np.empty(shape, dtype=np.float32)
        for idx in np.ndindex(shape):
            cls = bound_class(low[idx], high[idx])
            if cls in ("bounded", "huge-bounded", "degenerate"):
                interior[idx] = np.float32((float(low[idx]) + float(high[idx])) / 2)
            elif cls == "lower-bounded":
                interior[idx] = low[idx] + np.float32(1)
            elif cls == "upper-bounded":
                interior[idx] = high[idx] - np.float32(1)
            else:
                interior[idx] = np.float32(0.25)
        mem.append((varr(interior), "interior"))
        mem.append((varr(lo_f), "all-low"))
        mem.append((varr(hi_f), "all-high"))
        idxs = list(np.ndindex(shape))
        if len(idxs) > 1:
            for idx in idxs[: 1 if brief else None]:
                c = lo_f.copy()
                c[idx] = hi_f[idx]
                mem.append((varr(c), "one-high-corner"))
            if not brief:
                for idx in idxs:
                    c = hi_f.copy()
                    c[idx] = lo_f[idx]
                    mem.append((varr(c), "one-low-corner"))
        if shape == ():
            mem.append((vpy(float(interior)), "python-float"))
        mem.append((varr(interior, lib="np"), "numpy"))
        seen_cls = set()
        for idx in idxs:
            cls = bound_class(low[idx], high[idx])
            if brief and cls in seen_cls:
                continue
            seen_cls.add(cls)

            def put(v, fault):
                c = interior.copy()
                c[idx] = v
                non.append((varr(c), f"{cls}/{fault}"))

            if np.isfinite(low[idx]):
                put(just_below(low[idx]), "below-low")
                if not brief:
                    put(low[idx] - max(np.float32(1), abs(low[idx]) * np.float32(0.5)) if abs(low[idx]) < HUGE else _f32(-INF), "below-low")
                put(-INF, "neg-inf")
            if np.isfinite(high[idx]):
                put(just_above(high[idx]), "above-high")
                if not brief:
                    put(high[idx] + max(np.float32(1), abs(high[idx]) * np.float32(0.5)) if abs(high[idx]) < HUGE else _f32(INF), "above-high")
                put(INF, "pos-inf")
            put(float("nan"), "nan")
        base = interior
        non += _shape_faults(base, brief)
        c = interior.copy()
        c[idxs[0]] = np.nan
        non.append((varr(c, lib="np"), f"{bound_class(low[idxs[0]], high[idxs[0]])}/nan"))
    elif k == "Discrete":
        n = spec["n"]
        for v in range(n):
            mem.append((varr(np.int32(v)), "index"))
        mem.append((vpy(0), "python-int"))
        mem.append((vpy(n - 1), "python-int"))
        mem.append((varr(np.int64(n - 1), lib="np"), "numpy"))
        non.append((varr(np.int32(-1)), "negative-index"))
        non.append((varr(np.int32(n)), "index-n"))
        non.append((varr(np.float32(0.5) if n > 1 else np.float32(0.25)), "non-integral"))
        non.append((varr(np.float32("nan")), "nan"))
        if not brief:
            non.append((varr(np.int32(n + 1)), "index-n"))
            non.append((varr(np.float32(n - 0.5)), "non-integral"))
            non.append((varr(np.float32(-0.5)), "non-integral"))
            non.append((varr(np.float32(INF)), "pos-inf"))
            non.append((varr(np.float32(-INF)), "negative-index"))
            non.append((vpy(-1), "negative-index"))
            non.append((vpy(n), "index-n"))
            non.append((vpy(0.5), "non-integral"))
            non.append((varr(np.int64(n), lib="np"), "index-n"))
            non.append((varr(np.zeros((1, 1), np.int32)), "shape/extra-dims"))
            non.append((varr(np.zeros((2,), np.int32)), "shape/vector"))
        non.append((varr(np.zeros((1,), np.int32)), "shape/scalar-to-vector"))
    elif k == "MultiDiscrete":
        nvec = np.asarray(spec["nvec"], dtype=np.int32)
        L = len(nvec)
        zeros = np.zeros(L, np.int32)
        mem.append((varr(zeros), "zeros"))
        mem.append((varr(nvec - 1), "all-max"))
        for i in range(L if not brief else 1):
            c = zeros.copy()
            c[i] = nvec[i] - 1
            mem.append((varr(c), "one-max-corner"))
        mem.append((varr((nvec - 1).astype(np.int64), lib="np"), "numpy"))
        for i in range(L):
            if brief and i < L - 1:
                continue  # the last component is the one whose bound is not the maximum of nvec in the alphabet

            def puti(v, fault, dtype=np.int32):
                c = zeros.astype(dtype)
                c[i] = v
                non.append((varr(c), fault))

            puti(-1, "negative-index")
            puti(nvec[i], "index-n")
            puti(0.5, "non-integral", np.float32)
            puti(float("nan"), "nan", np.float32)
            if not brief:
                puti(nvec[i] + 1, "index-n")
                puti(-INF, "negative-index", np.float32)
                puti(INF, "pos-inf", np.float32)
                puti(nvec[i] - 0.5, "non-integral", np.float32)
        non += _shape_faults(zeros, brief)
        c = zeros.astype(np.int64)
        c[L - 1] = nvec[L - 1]
        non.append((varr(c, lib="np"), "index-n"))
    elif k == "MultiBinary":
        shape = (spec["n"],) if isinstance(spec["n"], int) else tuple(spec["n"])
        zeros = np.zeros(shape, bool)
        mem.append((varr(zeros), "zeros"))
        mem.append((varr(~zeros), "ones"))
        idxs = list(np.ndindex(shape))
        if len(idxs) > 1:
            for idx in idxs[: 1 if brief else None]:
                c = zeros.copy()
                c[idx] = True
                mem.append((varr(c), "one-hot"))
        mem.append((varr(~zeros, lib="np"), "numpy"))
        for idx in idxs[-1:] if brief else idxs:

            def putb(v, fault, dtype):
                c = zeros.astype(dtype)
                c[idx] = v
                non.append((varr(c), fault))

            putb(2, "two", np.int32)
            putb(-1, "minus-one", np.int32)
            putb(0.5, "non-integral", np.float32)
            putb(float("nan"), "nan", np.float32)
        non += _shape_faults(zeros, brief)
    else:
        raise HarnessError(f"not a leaf: {k}")
    m0 = mem[0][0]
    non.append((VNONE, "None"))
    non.append((VSTR, "str"))
    if not brief:
        non.append((VOBJ, "object"))
        non.append((vtuple([m0]), "wrapped-in-tuple"))
        non.append((vodict([("a", m0)]), "wrapped-in-dict"))
    # dedupe members by value+representation
    out, seen = [], set()
    for v, tag in mem:
        key = json.dumps(v, sort_keys=True)
        if key not in seen:
            seen.add(key)
            out.append((v, tag))
    return out, non


def _shape_faults(base, brief):
    base = np.asarray(base)
    out = [(varr(base[None]), "shape/extra-leading-dim")]
    if not brief:
        out.append((varr(base[..., None]), "shape/extra-trailing-dim"))
    if base.ndim >= 1:
        out.append((varr(base[0]), "shape/dropped-dim"))
        if not brief:
            out.append((varr(np.concatenate([base, base[:1]], axis=0)), "shape/longer"))
            if base.shape[0] > 1:
                out.append((varr(base[:-1]), "shape/shorter"))
            if base.ndim >= 2:
                out.append((varr(base.reshape(-1)), "shape/flattened"))
    return out


def candidates(spec, brief=False):
    """-> members [(val, tag)], nonmembers [(val, fault)]; composites vary one child at a time."""
    k = spec["k"]
    if k not in ("Tuple", "Dict"):
        return leaf_candidates(spec, brief)
    subs = children(spec)
    keys = [key for key, _ in spec["items"]] if k == "Dict" else None
    per = [candidates(s, brief=True) for s in subs]
    base = [p[0][0][0] for p in per]

    def wrap(vals):
        return vtuple(vals) if k == "Tuple" else vodict(list(zip(keys, vals)))

    mem = [(wrap(base), "base")]
    non = []
    for j, (cm, cn) in enumerate(per):
        for v, tag in cm[1:]:
            vals = list(base)
            vals[j] = v
            mem.append((wrap(vals), f"child{j}:{tag}"))
        for v, fault in cn:
            vals = list(base)
            vals[j] = v
            non.append((wrap(vals), fault))
    if k == "Tuple":
        non.append((vtuple(base[:-1]), "too-short"))
        non.append((vtuple(base + [base[0]]), "too-long"))
        non.append((vodict([(str(i), v) for i, v in enumerate(base)]), "dict-instead"))
        non.append((base[0], "bare-child"))
        non.append((VNONE, "None"))
        non.append((VSTR, "str"))
        non.append((varr(np.zeros(len(base), np.float32)), "array-instead"))
    else:
        non.append((vodict(list(zip(keys[:-1], base[:-1]))), "missing-key"))
        non.append((vodict(list(zip(keys, base)) + [("zz", base[0])]), "extra-key"))
        non.append((vodict(list(zip(keys[:-1] + ["zz"], base))), "renamed-key"))
        non.append((vtuple(base), "tuple-instead"))
        non.append((vlist(base), "list-instead"))
        non.append((base[0], "bare-child"))
        non.append((VNONE, "None"))
        non.append((VSTR, "str"))
    return mem, non


# =============================================================================================
# judging library answers
# =============================================================================================
def scalar_bool(r):
    """Is r 'a scalar boolean' (Python/numpy bool or 0-d boolean array)?  -> (ok, value, description)"""
    if isinstance(r, (bool, np.bool_)):
        return True, bool(r), "bool"
    if isinstance(r, (jax.Array, np.ndarray)):
        if r.shape == () and r.dtype == np.bool_:
            return True, bool(r), "0-d bool array"
        return False, None, f"array of shape {tuple(r.shape)} dtype {r.dtype}"
    return False, None, f"{type(r).__name__}"


def judge_contains(space, spec, obj, fault, _depth=0, check_in=True):
    """Call the real contains and compare with the reference.  Returns None or (signature, message);
    on a composite space the blame is pushed down to the innermost child that fails on its own."""
    verdict, why = ref_member(spec, obj)
    problem = None
    try:
        r = space.contains(obj)
    except Exception as e:  # "contains answers": raising is a failure of the property, not of the harness
        problem = (f"raised-{type(e).__name__}@{lib_frame(e.__traceback__)}", f"contains raised {type(e).__name__}: {str(e)[:120]}")
        r = None
    if problem is None:
        ok, val, desc = scalar_bool(r)
        if not ok:
            problem = ("nonscalar-answer", f"contains returned {desc}, not a scalar boolean: {np.asarray(r).tolist() if hasattr(r, 'shape') else r!r}")
        elif verdict is not None and val != verdict:
            problem = ("accepted" if val else "rejected", f"contains answered {val}, reference says {verdict}" + (f" ({why})" if why else ""))
        elif verdict is not None and check_in:
            try:
                via_in = obj in space
            except Exception as e:
                via_in = f"raised {type(e).__name__}"
            if via_in is not val:
                problem = ("in-operator-disagrees", f"`x in space` gave {via_in!r} but contains gave {val}")
    if problem is None:
        return None
    # push the blame down
    subs = children(spec)
    if subs:
        vals = None
        if spec["k"] == "Tuple" and isinstance(obj, tuple) and len(obj) == len(subs):
            vals = list(obj)
        if spec["k"] == "Dict" and isinstance(obj, collections.abc.Mapping) and set(obj.keys()) == {k for k, _ in spec["items"]}:
            vals = [obj[k] for k, _ in spec["items"]]
        if vals is not None:
            for cs, cspec, cv in zip(obj_children(space, spec), subs, vals):
                cverdict, _ = ref_member(cspec, cv)
                sub = judge_contains(cs, cspec, cv, fault if cverdict is False else "member", _depth + 1)
                if sub is not None:
                    return sub
    kind = spec["k"]
    tag, msg = problem
    if tag.startswith("raised-"):
        sig = f"C14/contains/{tag}"  # exception type + innermost lerax frame: one signature per escape route
    elif tag == "nonscalar-answer":
        sig = f"C14/contains/nonscalar-answer/{kind}"
    elif tag == "in-operator-disagrees":
        sig = f"C14/contains/in-operator-disagrees/{kind}"
    else:
        sig = f"C14/contains/{tag}/{kind}/{fault}"
    return sig, f"{short(spec)}.contains({vshow(encode_obj(obj))}): {msg}"


_CACHE: dict = {}


def get_space(spec, cache: bool, slot: str = "a"):
    if not cache:
        return build(spec)
    key = (slot, skey(spec))
    if key not in _CACHE:
        if len(_CACHE) > 20000:
            _CACHE.clear()
        _CACHE[key] = build(spec)
    return _CACHE[key]


# =============================================================================================
# clauses
# =============================================================================================
def clause_contains(cases, ctx: Ctx):
    """case: {space, value, expect (generator's intent), fault}"""
    out = []
    cache = len(cases) > 1
    for i, c in enumerate(cases):
        spec = c["space"]
        space = get_space(spec, cache)
        obj = decode(c["value"])
        verdict, why = ref_member(spec, obj)
        if verdict is not c["expect"]:
            raise HarnessError(
                f"candidate generator and reference predicate disagree on {short(spec)} / {vshow(c['value'])}: "
                f"generator {c['expect']} ({c['fault']}), reference {verdict} ({why})"
            )
        r = judge_contains(space, spec, obj, c["fault"], check_in=(not children(spec)) or bool(c.get("in")))
        if r is not None:
            out.append((i, r[0], r[1]))
    return out


def _unbatch(tree, i):
    return jax.tree.map(lambda x: x[i], tree)


def _member_problem(space, spec, obj, what: str):
    """For a library-produced value: reference membership (blame pushed down), then contains(obj)."""
    verdict, why = ref_member(spec, obj)
    if verdict is False:
        bspec, bobj, bwhy = spec, obj, why
        while True:  # descend to the innermost non-member component
            subs = children(bspec)
            step = None
            if subs:
                vals = None
                if bspec["k"] == "Tuple" and isinstance(bobj, tuple) and len(bobj) == len(subs):
                    vals = list(bobj)
                if bspec["k"] == "Dict" and isinstance(bobj, collections.abc.Mapping) and set(bobj.keys()) == {k for k, _ in bspec["items"]}:
                    vals = [bobj[k] for k, _ in bspec["items"]]
                if vals is not None:
                    for cspec, cv in zip(subs, vals):
                        v2, w2 = ref_member(cspec, cv)
                        if v2 is False:
                            step = (cspec, cv, w2)
                            break
            if step is None:
                break
            bspec, bobj, bwhy = step
        return (
            f"C14/{what}/not-a-member/{bspec['k']}/{bwhy}",
            f"{short(spec)}.{what}: value {vshow(encode_obj(obj))} is not a member: {bwhy} in {short(bspec)} component {vshow(encode_obj(bobj))}",
        )
    if verdict is True:
        r = judge_contains(space, spec, obj, what)
        if r is not None:
            return r[0], f"[contains applied to the library's own {what}] " + r[1]
    return None


def clause_sample(cases, ctx: Ctx):
    """case: {space, keys, mask?: [bool], mask_form?}"""
    out = []
    for i, c in enumerate(cases):
        spec = c["space"]
        space = get_space(spec, len(cases) > 1)
        keys = jax.vmap(jr.key)(jnp.asarray(c["keys"], dtype=jnp.uint32))
        mask = None
        if c.get("mask") is not None:
            form = c.get("mask_form", "jnp-bool")
            if form == "jnp-bool":
                mask = jnp.asarray(c["mask"], dtype=bool)
            elif form == "np-bool":
                mask = np.asarray(c["mask"], dtype=bool)
            elif form == "list":
                mask = [bool(b) for b in c["mask"]]
            elif form == "jnp-int":
                mask = jnp.asarray(c["mask"], dtype=jnp.int32)
            else:
                raise HarnessError(f"mask form {form}")
        if mask is None:
            batched = jax.vmap(lambda k: space.sample(key=k))(keys)
        else:
            batched = jax.vmap(lambda k: space.sample(key=k, mask=mask))(keys)
        batched = jax.tree.map(np.asarray, batched)
        seen = set()
        for j, kint in enumerate(c["keys"]):
            obj = _unbatch(batched, j)
            if j < 2:  # the un-vmapped call, as a user would make it
                eager = space.sample(key=jr.key(kint)) if mask is None else space.sample(key=jr.key(kint), mask=mask)
                objs = [("eager", eager), ("vmapped", obj)]
            else:
                objs = [("vmapped", obj)]
            for mode, o in objs:
                o_j = jax.tree.map(jnp.asarray, o) if (mode == "vmapped" and j < 2) else o  # numpy is enough for the reference
                verdict, why = ref_member(spec, o_j)
                prob = None
                if verdict is False or j < 2:
                    prob = _member_problem(space, spec, o_j, "sample")
                if prob is not None:
                    out.append((i, prob[0], f"key {kint} ({mode}): {prob[1]}"))
                elif c.get("mask") is not None:
                    idx = int(np.asarray(o_j))
                    if not c["mask"][idx]:
                        out.append((i, "C14/sample/masked-index-drawn/Discrete", f"{short(spec)}.sample(key={kint}, mask={c['mask']}) ({mode}) returned the masked index {idx}"))
            seen.add(ref_distinct_key(encode_obj(obj)))
        ctx.outcome("distinct-samples-per-space", (skey(spec), json.dumps(c.get("mask")), len(seen)))
    return out


def clause_canonical(cases, ctx: Ctx):
    """case: {space}"""
    out = []
    for i, c in enumerate(cases):
        spec = c["space"]
        space = get_space(spec, len(cases) > 1)
        obj = space.canonical()
        prob = _member_problem(space, spec, obj, "canonical")
        if prob is not None:
            out.append((i, prob[0], prob[1]))
    return out


def _flatten_problem(space, spec, obj):
    try:
        f = space.flatten_sample(obj)
        n = space.flat_size
    except Exception as e:
        return ("raised", f"{type(e).__name__}: {str(e)[:120]}"), None
    fa = np.asarray(f)
    if not isinstance(n, (int, np.integer)) or isinstance(n, bool):
        return ("flat-size-not-int", f"flat_size = {n!r}"), None
    if fa.ndim != 1 or fa.shape[0] != int(n):
        return ("wrong-length", f"flatten_sample returned shape {fa.shape}, flat_size = {int(n)}"), None
    if fa.dtype.kind not in "fiub":
        return ("not-numbers", f"flatten_sample returned dtype {fa.dtype}"), None
    return None, fa


def _blame_flatten(space, spec, obj, tag):
    """Innermost child whose own flatten shows the same problem class."""
    subs = children(spec)
    if subs:
        vals = list(obj) if spec["k"] == "Tuple" else [obj[k] for k, _ in spec["items"]]
        for cs, cspec, cv in zip(obj_children(space, spec), subs, vals):
            p, _ = _flatten_problem(cs, cspec, cv)
            if p is not None:
                return _blame_flatten(cs, cspec, cv, p[0])
    return spec["k"]


def clause_flatten(cases, ctx: Ctx):
    """case: {space, members: [val], keys}: flat_size numbers each; injective on members + samples."""
    out = []
    for i, c in enumerate(cases):
        spec = c["space"]
        space = get_space(spec, len(cases) > 1)
        items = [(ref_distinct_key(v), decode(v), vshow(v)) for v in c["members"]]
        for kint in c.get("keys", []):
            s = space.sample(key=jr.key(kint))
            if ref_member(spec, s)[0] is True:
                enc = encode_obj(s)
                items.append((ref_distinct_key(enc), s, f"sample(key={kint})={vshow(enc)}"))
        flats = {}
        for ident, obj, shown in items:
            if ref_member(spec, obj)[0] is not True:
                raise HarnessError(f"flatten clause given a non-member {shown} of {short(spec)}")
            p, fa = _flatten_problem(space, spec, obj)
            if p is not None:
                kind = _blame_flatten(space, spec, obj, p[0])
                out.append((i, f"C14/flatten/{p[0]}/{kind}", f"{short(spec)}.flatten_sample({shown}): {p[1]}"))
                continue
            fkey = fa.astype(np.float64).tobytes()
            if fkey in flats and flats[fkey][0] != ident:
                kind = spec["k"]
                # blame: a child that is not injective on the differing component
                subs = children(spec)
                if subs:
                    other = flats[fkey][2]
                    va = list(obj) if spec["k"] == "Tuple" else [obj[k] for k, _ in spec["items"]]
                    vb = list(other) if spec["k"] == "Tuple" else [other[k] for k, _ in spec["items"]]
                    for cs, cspec, x, y in zip(obj_children(space, spec), subs, va, vb):
                        if ref_distinct_key(encode_obj(x)) != ref_distinct_key(encode_obj(y)):
                            px, fx = _flatten_problem(cs, cspec, x)
                            py, fy = _flatten_problem(cs, cspec, y)
                            if fx is not None and fy is not None and np.array_equal(fx, fy):
                                kind = cspec["k"] if not children(cspec) else kind
                out.append((i, f"C14/flatten/not-injective/{kind}", f"{short(spec)}: distinct members {flats[fkey][1]} and {shown} flatten to the same vector {fa.tolist()}"))
            flats.setdefault(fkey, (ident, shown, obj))
    return out


def _eq(a, b):
    """-> (value | None, error text | None); the value must be a real boolean."""
    try:
        r = a == b
    except Exception as e:
        return None, f"raised {type(e).__name__}: {str(e)[:100]}"
    if isinstance(r, (bool, np.bool_)):
        return bool(r), None
    return None, f"returned {type(r).__name__} {r!r}"


def _hash(a):
    try:
        h = hash(a)
    except Exception as e:
        return None, f"{type(e).__name__}: {str(e)[:100]}"
    return h, None


def _blame_eq(A, B, sa, sb, want_equal: bool):
    """Innermost pair of corresponding children on which lerax == is already wrong."""
    if sa["k"] == sb["k"] and sa["k"] in ("Tuple", "Dict"):
        ca, cb = children(sa), children(sb)
        same_layout = len(ca) == len(cb) and (
            sa["k"] == "Tuple" or [k for k, _ in sa["items"]] == [k for k, _ in sb["items"]]
        )
        if same_layout:
            for x, y, xs, ys in zip(obj_children(A, sa), obj_children(B, sb), ca, cb):
                d = ref_diff(xs, ys)
                r, err = _eq(x, y)
                if want_equal and d is None and r is not True:
                    return _blame_eq(x, y, xs, ys, True)
                if not want_equal and d is not None and d[1] != "order-only" and r is True:
                    return _blame_eq(x, y, xs, ys, False)
    return sa, sb


def clause_eq(cases, ctx: Ctx):
    """case: {a, b}: ==, symmetry, agreement with hash."""
    out = []
    cache = len(cases) > 1
    for i, c in enumerate(cases):
        sa, sb = c["a"], c["b"]
        A, Bo = get_space(sa, cache, "a"), get_space(sb, cache, "b")  # two slots: equal specs still give distinct objects
        d = ref_diff(sa, sb)
        r1, e1 = _eq(A, Bo)
        r2, e2 = _eq(Bo, A)
        label = f"{short(sa)} == {short(sb)}"
        if e1 or e2:
            out.append((i, f"C14/eq/not-a-boolean/{sa['k']}-vs-{sb['k']}", f"{label}: {e1 or e2}"))
            continue
        if r1 != r2:
            out.append((i, f"C14/eq/asymmetric/{sa['k']}-vs-{sb['k']}", f"{label} is {r1} but the reverse comparison is {r2}"))
        if d is None and not r1:
            ba, bb = _blame_eq(A, Bo, sa, sb, True)
            out.append((i, f"C14/eq/false-negative/{ba['k']}", f"{label} is False for spaces of equal structure and parameters (innermost unequal pair: {short(ba)} vs {short(bb)})"))
        elif d is not None and d[1] != "order-only" and r1:
            ba, bb = _blame_eq(A, Bo, sa, sb, False)
            dd = ref_diff(ba, bb)
            out.append((i, f"C14/eq/false-positive/{dd[0]}/{dd[1]}", f"{label} is True although they differ ({dd[1]}; innermost pair judged equal: {short(ba)} vs {short(bb)})"))
        if d is None or (d[1] == "order-only" and r1):
            ha, ea = _hash(A)
            hb, eb = _hash(Bo)
            if ea is None and eb is None and ha != hb:
                detail = "signed-zero" if signed_zero_only(sa, sb) else "same-parameters"
                ba, bb = sa, sb
                while children(ba) and len(children(ba)) == len(children(bb)):
                    nxt = None
                    for x, y, xs, ys in zip(obj_children(A, ba) if ba is sa else [build(s) for s in children(ba)],
                                            obj_children(Bo, bb) if bb is sb else [build(s) for s in children(bb)],
                                            children(ba), children(bb)):
                        if _hash(x)[0] != _hash(y)[0]:
                            nxt = (xs, ys)
                            break
                    if nxt is None:
                        break
                    ba, bb = nxt
                out.append((i, f"C14/hash/equal-spaces-different-hash/{ba['k']}/{detail}", f"{label} holds (lerax: {r1}, reference: {d is None}) but hash differs: {ha} vs {hb}"))
    return out


def clause_hash(cases, ctx: Ctx):
    """case: {space}: hash never raises, is an int, and is the same for two separately built copies."""
    out = []
    for i, c in enumerate(cases):
        spec = c["space"]
        s1, s2 = build(spec), build(spec)
        h1, e1 = _hash(s1)
        if e1 is not None:
            bspec, bobj = spec, s1
            while True:
                nxt = None
                for cs, cspec in zip(obj_children(bobj, bspec), children(bspec)):
                    if _hash(cs)[1] is not None:
                        nxt = (cspec, cs)
                        break
                if nxt is None:
                    break
                bspec, bobj = nxt
            out.append((i, f"C14/hash/raised-{e1.split(':')[0]}/{bspec['k']}", f"hash({short(spec)}) raised {e1} (innermost unhashable: {short(bspec)})"))
            continue
        if not isinstance(h1, int):
            out.append((i, f"C14/hash/not-an-int/{spec['k']}", f"hash({short(spec)}) = {h1!r}"))
        h1b, _ = _hash(s1)
        h2, _ = _hash(s2)
        if h1 != h1b or h1 != h2:
            bspec = spec
            b1, b2 = s1, s2
            while True:
                nxt = None
                for x, y, cspec in zip(obj_children(b1, bspec), obj_children(b2, bspec), children(bspec)):
                    if _hash(x)[0] != _hash(y)[0]:
                        nxt = (cspec, x, y)
                        break
                if nxt is None:
                    break
                bspec, b1, b2 = nxt
            out.append((i, f"C14/hash/equal-spaces-different-hash/{bspec['k']}/separately-built-copies", f"two separately built {short(spec)} hash to {h1} and {h2} (same object again: {h1b})"))
    return out


def clause_eq_foreign(cases, ctx: Ctx):
    """case: {space, other}: a space never equals a non-space."""
    out = []
    for i, c in enumerate(cases):
        spec = c["space"]
        s = build(spec)
        tag = c["other"]
        if tag == "None":
            o = None
        elif tag == "int":
            o = spec.get("n", 2) if isinstance(spec.get("n", 2), int) else 2
        elif tag == "str":
            o = short(spec)
        elif tag == "raw-components":  # the raw container of the component spaces / the parameter tuple
            if spec["k"] == "Tuple":
                o = tuple(s.spaces)
            elif spec["k"] == "Dict":
                o = OrderedDict(s.spaces)
            elif spec["k"] == "Box":
                o = (s.low, s.high)
            elif spec["k"] == "Discrete":
                o = (s.n,)
            elif spec["k"] == "MultiBinary":
                o = tuple(s.n)
            else:
                o = tuple(s.nvec)
        elif tag == "plain-dict":
            o = dict(s.spaces) if spec["k"] == "Dict" else {"space": s}
        else:
            raise HarnessError(f"foreign tag {tag}")
        for direction, (x, y) in (("space==other", (s, o)), ("other==space", (o, s))):
            r, err = _eq(x, y)
            if err:
                out.append((i, f"C14/eq/not-a-boolean/{spec['k']}-vs-foreign-{tag}", f"{short(spec)} vs {tag} ({direction}): {err}"))
            elif r:
                out.append((i, f"C14/eq/false-positive/{spec['k']}/foreign-{tag}", f"{short(spec)} compares equal to the non-space {type(o).__name__} ({direction})"))
    return out


def clause_roundtrip(cases, ctx: Ctx):
    """case: {space}: lerax -> gymnasium -> lerax gives an equal space (Dict keys in gymnasium's order)."""
    from lerax.compatibility.gym import gym_space_to_lerax_space, lerax_to_gym_space

    out = []
    for i, c in enumerate(cases):
        spec = c["space"]
        s = build(spec)
        try:
            g = lerax_to_gym_space(s)
            rt = gym_space_to_lerax_space(g)
            g2 = lerax_to_gym_space(rt)
        except Exception as e:
            if lib_frame(e.__traceback__) is None and "gymnasium" not in "".join(__import__("traceback").format_tb(e.__traceback__)):
                raise
            out.append((i, f"C14/roundtrip/raised-{type(e).__name__}/{spec['k']}", f"round trip of {short(spec)} raised {type(e).__name__}: {str(e)[:160]}"))
            continue
        dg = ref_diff(spec, describe_gym(g), sort_keys=True) if _describable(describe_gym(g)) else (spec["k"], "unsupported-gym-space")
        if dg is not None:
            out.append((i, f"C14/roundtrip/gym-space-mismatch/{dg[0]}/{dg[1]}", f"lerax_to_gym_space({short(spec)}) = {g!r} is not the corresponding gymnasium space ({dg[1]})"))
        dr = ref_diff(spec, describe(rt), sort_keys=True)
        if dr is not None:
            out.append((i, f"C14/roundtrip/structure-changed/{dr[0]}/{dr[1]}", f"{short(spec)} came back from gymnasium as {short(describe(rt))} ({dr[1]})"))
        else:
            # lerax's own == must agree, wherever == works at all on a separately built copy and the
            # insertion order is gymnasium's (otherwise the comparison is left open)
            if ref_diff(spec, describe(rt)) is None and _eq(s, build(spec))[0] is True:
                r, err = _eq(rt, s)
                r2, err2 = _eq(s, rt)
                if r is not True or r2 is not True:
                    out.append((i, f"C14/roundtrip/eq-false/{spec['k']}", f"round trip of {short(spec)} has the same structure and parameters but == gives {r if err is None else err} / {r2 if err2 is None else err2}"))
        try:
            same_gym = bool(g2 == g)
        except Exception as e:
            same_gym = False
        if not same_gym and dg is None and dr is None:
            out.append((i, f"C14/roundtrip/gym-side-changed/{spec['k']}", f"gym -> lerax -> gym: {g!r} became {g2!r}"))
    return out


def _describable(spec) -> bool:
    if set(spec) - {"k", "n", "nvec", "low", "high", "shape", "spaces", "items"}:
        return False
    if spec["k"] not in ("Discrete", "Box", "MultiBinary", "MultiDiscrete", "Tuple", "Dict"):
        return False
    return all(_describable(s) for s in children(spec))


CLAUSES = {
    "contains": clause_contains,
    "sample": clause_sample,
    "canonical": clause_canonical,
    "flatten": clause_flatten,
    "eq": clause_eq,
    "hash": clause_hash,
    "eq_foreign": clause_eq_foreign,
    "roundtrip": clause_roundtrip,
}


# =============================================================================================
# the space alphabet
# =============================================================================================
def leaf_alphabet(thorough: bool):
    L = OrderedDict()
    L["D1"], L["D2"], L["D3"] = D(1), D(2), D(3)
    L["bs_fin"] = B(-1.0, 2.0)
    L["bs_lo"] = B(0.0, INF)
    L["bs_hi"] = B(-INF, 1.0)
    L["bs_inf"] = B(-INF, INF)
    L["bs_deg"] = B(1.5, 1.5)
    L["bs_huge"] = B(-3e38, 3e38)
    L["bs_huge1"] = B(1e38, 3e38)
    L["bs_zero"] = B(0.0, 1.0)
    L["bs_negzero"] = B(-0.0, 1.0)
    L["bv_fin"] = B([-1.0, 0.0], [2.0, 0.5])
    L["bv_fin2"] = B([-1.0, -1.0], [2.0, 2.0])
    L["bv_bcast"] = B(-1.0, 2.0, shape=(2,))
    L["bv_mixed"] = B([-1.0, -INF], [INF, 2.0])
    L["bv_inf"] = B(-INF, INF, shape=(2,))
    L["bv_deg"] = B([0.0, 1.0], [0.0, 2.0])
    L["bv_part"] = B(0.0, [1.0, INF])
    L["bm_fin"] = B([[-1.0, -1.0], [0.0, 0.0]], [[1.0, 2.0], [1.0, 3.0]])
    L["bm_mixed"] = B([[-1.0, -INF], [0.0, -INF]], [[1.0, 2.0], [INF, INF]])
    L["MB1"], L["MB3"], L["MB3t"], L["MB22"] = MB(1), MB(3), MB((3,)), MB((2, 2))
    L["MD2"], L["MD32"], L["MD23"] = MD((2,)), MD((3, 2)), MD((2, 3))
    # shapes whose sum and product differ ((2, 2) cannot tell a summed flat_size from a multiplied one)
    L["MB23"], L["bm_23"] = MB((2, 3)), B(-1.0, 2.0, shape=(2, 3))
    # boxes that differ from bs_zero = Box(0, 1) (and from each other) by less than any sensible tolerance: equality is exact
    L["bs_near_hi"] = B(0.0, float(np.nextafter(np.float32(1.0), np.float32(2.0))))
    L["bs_near_lo"] = B(-1e-9, 1.0)
    L["bs_1000"], L["bs_1000b"] = B(0.0, 1000.0), B(0.0, 1000.005)
    # coordinates pinned (low == high) at values with long float32 mantissas: a sampler that interpolates instead of drawing in [low, high)
    # lands an ulp outside
    L["bs_pin"], L["bv_pin"] = B(0.1, 0.1), B([0.1, -0.7, 123.456], [0.1, -0.7, 123.456])
    if thorough:
        L["D4"] = D(4)
        L["bw_fin"] = B([-1.0, 0.0, 1.0], [0.0, 0.0, 4.0])
        L["bm_inf"] = B(-INF, INF, shape=(2, 2))
        L["bm_col"] = B([[0.0], [1.0]], [[1.0], [2.0]])  # shape (2,1)
        L["MB21"] = MB((2, 1))
        L["MB2"] = MB(2)
        L["MD322"] = MD((3, 2, 2))
        L["MD1"] = MD((1,))
    return L


def containers_over(alpha: list, need_container: bool = False, is_container=None, both_orders=None):
    """All Tuples of arity 1-2 and Dicts with 1-2 keys (both insertion orders) over alpha.
    need_container: keep only those with at least one container child (depth-2 spaces).
    both_orders: optional predicate on (x, y); where False only the insertion order (a, b) is built."""
    out = []

    def ok(*xs):
        return (not need_container) or any(is_container(x) for x in xs)

    for x in alpha:
        if ok(x):
            out.append(T(x))
            out.append(DI(("a", x)))
            if not need_container:
                out.append(DI(("b", x)))
    for x, y in itertools.product(alpha, repeat=2):
        if ok(x, y):
            out.append(T(x, y))
            out.append(DI(("a", x), ("b", y)))
            if both_orders is None or both_orders(x, y):
                out.append(DI(("b", y), ("a", x)))
    return out


def space_alphabet(thorough: bool):
    """-> (all spaces, the subset used for the all-pairs equality clause)."""
    L = leaf_alphabet(thorough)
    leaves = list(L.values())
    r1_names = ["D2", "D3", "bs_fin", "bs_inf", "bv_mixed", "MB22", "MD32"]
    r1 = [L[n] for n in r1_names]
    r1_big = leaves if thorough else r1
    r1_keys = {skey(x) for x in r1}
    # thorough: the second insertion order only where the first child is from the representative set
    depth1 = containers_over(r1_big, both_orders=lambda x, y: skey(x) in r1_keys)
    depth1_pairs = containers_over(
        [L[n] for n in r1_names + ["D1", "bs_negzero", "bs_zero", "bv_fin2", "bv_bcast", "MB3", "MD23"]] if thorough else r1
    )
    kids = [L["D2"], L["bs_fin"], L["MD32"]] + ([L["bs_inf"], L["MB22"]] if thorough else [])
    conts = [T(L["D2"]), T(L["D2"], L["bs_fin"]), DI(("a", L["D2"])), DI(("a", L["D2"]), ("b", L["bs_fin"])), DI(("b", L["bs_fin"]), ("a", L["D2"]))]
    if thorough:
        conts += [T(L["D2"], L["D3"]), T(L["MB22"], L["bs_inf"]), DI(("a", L["D2"]), ("b", L["MD32"]))]
    ckeys = {skey(c) for c in conts}
    depth2 = containers_over(kids + conts, need_container=True, is_container=lambda s: skey(s) in ckeys)
    depth2_pairs = depth2
    if thorough:
        kq = [L["D2"], L["bs_fin"], L["MD32"]]
        cq = conts[:5]
        cqk = {skey(c) for c in cq}
        depth2_pairs = containers_over(kq + cq, need_container=True, is_container=lambda s: skey(s) in cqk)

    def uniq(xs):
        seen, out = set(), []
        for x in xs:
            k_ = skey(x)
            if k_ not in seen:
                seen.add(k_)
                out.append(x)
        return out

    return uniq(leaves + depth1 + depth2), uniq(leaves + depth1_pairs + depth2_pairs), len(leaves)


def depth(spec) -> int:
    ch = children(spec)
    return 0 if not ch else 1 + max(depth(c) for c in ch)


def all_masks(n):
    return [list(m) for m in itertools.product([False, True], repeat=n) if any(m)]


# =============================================================================================
# exploration
# =============================================================================================
def explore(ctx: Ctx):
    thorough = ctx.tier == "thorough"
    nkeys = 64 if thorough else 32
    keys = key_ints(ctx.seed, nkeys)
    spaces, pair_spaces, nleaves = space_alphabet(thorough)
    ctx.rule = (
        "spaces = every Tuple (arity 1-2) / Dict (1-2 keys, both insertion orders) of nesting depth <= 2 over the leaf "
        "alphabet (Discrete, Box scalar/(2,)/(2,2) with finite, half-infinite, infinite, mixed, degenerate, huge and "
        "signed-zero bounds, MultiBinary, MultiDiscrete) plus the leaves; contains-candidates = members at the bound "
        "corners + interior, and every single-fault non-member (one component just outside a bound by one float32 ulp, "
        "non-integral, negative, n, NaN, +-inf, each wrong shape, wrong container / length / key set, None, str); "
        "sample/canonical/flatten/hash/round-trip for every space over the key alphabet K, every non-empty mask for "
        "Discrete.sample; == for all ordered pairs of the pair alphabet.  non-trivial = a contains case whose candidate "
        "sits on a bound or leaves the set in exactly one way (all of them), a pair of spaces of the same kind, "
        "a sample/canonical/flatten/hash/round-trip case of a space with an infinite, degenerate or huge bound, a "
        "multi-dimensional MultiBinary, or a container"
    )
    ctx.assumptions = [
        "candidate numbers are exactly representable in JAX's default dtypes (float32/int32/bool): values that jnp.asarray would silently truncate (float64 just outside a bound, int64 >= 2**31) are outside the enumerated alphabet",
        "conventions the statement leaves open are not judged: +-inf lying exactly on an infinite Box bound, integral values in a float dtype, 0/1 in a non-bool dtype for MultiBinary, Python bool/list array-likes, list for a Tuple sample, plain dict or re-ordered OrderedDict for a Dict sample, == between Dict spaces that differ only in insertion order",
        f"PRNG keys limited to the alphabet K of {nkeys} integers derived from VERIF_SEED; membership of samples is judged by the reference predicate, independent of how sub-keys are derived",
        "contains/sample/canonical are exercised eagerly (and sample additionally under vmap); behaviour under jit is not part of this check",
        "spaces with low > high, n <= 0 or list-typed n/nvec are not constructed",
    ]

    import time

    walls: dict = {}

    def run(clause, cs, chunk=None):
        t0 = time.time()
        ctx.run(clause, cs, chunk=chunk)
        walls[clause] = round(walls.get(clause, 0.0) + time.time() - t0, 1)

    # ---- contains ---------------------------------------------------------------------------------
    cases = []
    for spec in spaces:
        mem, non = candidates(spec, brief=False)
        for n_, (v, tag) in enumerate(mem):  # "in": also ask through the `in` operator (all leaf cases do)
            cases.append({"space": spec, "value": v, "expect": True, "fault": "member", "in": n_ == 0})
            ctx.guard("contains/member")
        for n_, (v, fault) in enumerate(non):
            cases.append({"space": spec, "value": v, "expect": False, "fault": fault, "in": n_ == 0})
            ctx.guard("contains/fault:" + fault.split("/")[-1])
    for j in range(len(cases)):
        ctx.nontriv(("contains", j))
    run("contains", cases, chunk=5000)
    ctx.notes["contains_candidates"] = len(cases)

    # ---- sample / canonical / flatten / hash / round trip ----------------------------------------------
    def interesting(spec):
        if children(spec):
            return True
        if spec["k"] == "Box":
            lo, hi = box_bounds(spec)
            return any(bound_class(a, b) != "bounded" for a, b in zip(lo.ravel(), hi.ravel()))
        return spec["k"] == "MultiBinary" and not isinstance(spec["n"], int) and len(spec["n"]) > 1

    for j, spec in enumerate(spaces):
        if interesting(spec):
            ctx.nontriv(("space", j))
    run("sample", [{"space": s, "keys": keys} for s in spaces], chunk=200)
    mask_cases = []
    for n in (1, 2, 3, 4) if thorough else (1, 2, 3):
        for m in all_masks(n):
            forms = ["jnp-bool", "np-bool", "list", "jnp-int"] if (thorough or sum(m) == 1) else ["jnp-bool"]
            for form in forms:
                mask_cases.append({"space": D(n), "keys": keys, "mask": m, "mask_form": form})
                ctx.guard("sample/mask-with-excluded-index" if not all(m) else "sample/full-mask")
                ctx.nontriv(("mask", n, tuple(m), form))
    run("sample", mask_cases)
    run("canonical", [{"space": s} for s in spaces], chunk=500)
    run("hash", [{"space": s} for s in spaces], chunk=500)
    run("roundtrip", [{"space": s} for s in spaces], chunk=500)
    fl = []
    for spec in spaces:
        mem, _ = candidates(spec, brief=False)
        fl.append({"space": spec, "members": [v for v, _ in mem], "keys": keys[:4]})
        ctx.guard("flatten/members", len(mem))
    run("flatten", fl, chunk=200)
    for spec in spaces:
        if spec["k"] == "Box":
            lo, hi = box_bounds(spec)
            for a, b in zip(lo.ravel(), hi.ravel()):
                ctx.guard("space/box-component:" + bound_class(a, b))
        ctx.guard(f"space/depth-{depth(spec)}")
        ctx.guard("space/kind:" + spec["k"])

    # ---- equality ---------------------------------------------------------------------------------------
    pairs = []
    n_same_kind = 0
    for ia, a in enumerate(pair_spaces):
        for ib, b in enumerate(pair_spaces):
            pairs.append({"a": a, "b": b})
            d = ref_diff(a, b)
            if d is None:
                ctx.guard("eq/equal-pair" if ia != ib else "eq/equal-pair-same-spec")
            elif d[1] == "order-only":
                ctx.guard("eq/order-only-pair-not-judged")
            else:
                ctx.guard("eq/unequal:" + d[1])
            if a["k"] == b["k"]:
                ctx.nontriv(("eq", ia, ib))
                n_same_kind += 1
    run("eq", pairs, chunk=20000)
    foreign = []
    for spec in spaces if thorough else [s for s in spaces if depth(s) <= 1]:
        for tag in ("None", "int", "str", "raw-components", "plain-dict"):
            foreign.append({"space": spec, "other": tag})
    run("eq_foreign", foreign, chunk=2000)
    ctx.guard("eq/foreign", len(foreign))

    ctx.require(
        "contains/member", "contains/fault:below-low", "contains/fault:above-high", "contains/fault:nan",
        "contains/fault:negative-index", "contains/fault:index-n", "contains/fault:non-integral",
        "contains/fault:None", "contains/fault:str", "contains/fault:too-short", "contains/fault:too-long",
        "contains/fault:missing-key", "contains/fault:extra-key", "contains/fault:extra-leading-dim",
        "contains/fault:dropped-dim", "contains/fault:pos-inf", "contains/fault:neg-inf",
        "sample/mask-with-excluded-index", "eq/equal-pair", "eq/unequal:arity", "eq/unequal:high",
        "eq/unequal:low", "eq/unequal:n", "eq/unequal:nvec", "eq/unequal:keys", "eq/unequal:kind",
        "eq/order-only-pair-not-judged", "space/box-component:unbounded", "space/box-component:lower-bounded",
        "space/box-component:upper-bounded", "space/box-component:degenerate", "space/box-component:huge-bounded",
        "space/depth-2", "flatten/members", "eq/foreign",
    )
    ctx.notes["wall_s_by_clause"] = walls
    ctx.notes["spaces"] = len(spaces)
    ctx.notes["leaf_spaces"] = nleaves
    ctx.notes["pair_alphabet"] = len(pair_spaces)
    ctx.notes["ordered_pairs"] = len(pairs)
    ctx.notes["same_kind_pairs"] = n_same_kind
    ctx.notes["keys"] = nkeys
    ctx.notes["discrete_masks"] = len(mask_cases)
