"""C04 - an on-policy rollout is a faithful record of the interaction.

Programs  : all deterministic tabular MDPs of the stated sizes x time limits (own / TimeLimit wrapper)
Histories : all action scripts of the rollout length (scripted policy => every action sequence)
Oracle    : reference collector (mc.refs.check_onpolicy), trace validation: environment answers
            (initial states drawn with keys) are read back from the trace and checked for legality.
"""

from __future__ import annotations

import itertools

import numpy as np

from mc import collect, refs
from mc.core import Ctx, key_ints
from mc.mdp import all_masks, all_T, all_term_init

LEVEL = "model_checking"

BOX_ALPHABET = [-2.0, -1.0, 0.0, 1.0, 2.0]
BOXVEC_ALPHABET = [[-2.0, 0.0], [-1.0, 1.0], [0.0, 2.0], [1.0, -2.0], [2.0, 0.5]]
MD_ALPHABET = [[0, 0], [0, 1], [1, 0], [1, 1]]


def alphabet(act_kind, A):
    if act_kind == "discrete":
        return list(range(A))
    if act_kind in ("box", "boxhalf"):
        return BOX_ALPHABET
    if act_kind == "boxvec":
        return BOXVEC_ALPHABET
    return MD_ALPHABET


def clause_collect(cases, ctx: Ctx):
    out = []
    groups: dict = {}
    for i, c in enumerate(cases):
        groups.setdefault(collect.static_key(c), []).append(i)
    for k, idxs in groups.items():
        for lo in range(0, len(idxs), 40000):
            part = idxs[lo : lo + 40000]
            sub = [cases[i] for i in part]
            out += [(part[ci], sig, msg) for (ci, sig, msg) in _check_group(sub, ctx)]
    return out


def _check_group(cases, ctx: Ctx):
    c0 = cases[0]
    E, Tn = c0["num_envs"], c0["num_steps"]
    has_tl = bool(c0.get("tl"))
    st0, st1, buf, itc = collect.run_onpolicy(cases)
    N = len(cases)
    tb = refs.Tables(cases, repeat=E)

    def streams(x, extra=0):
        x = np.asarray(x)
        if E == 1:
            return x
        return x.reshape((N * E,) + x.shape[2:])

    s0, t0, tl0 = collect.unwrap_env_state(st0.env_state, has_tl)
    fs, ft, ftl = collect.unwrap_env_state(st1.env_state, has_tl)
    obs = buf.observations
    script = np.repeat(np.asarray([c["script"] for c in cases]), E, axis=0)
    masks = None if buf.action_masks is None else streams(buf.action_masks)
    lam = 1.0 if c0["algo"] == "REINFORCE" else c0["lam"]
    fails, stats = refs.check_onpolicy(
        tb, script, streams(obs), streams(buf.actions), streams(buf.rewards), streams(buf.dones),
        streams(buf.log_probs), streams(buf.values), streams(buf.states.c), masks,
        streams(buf.advantages), streams(buf.returns), streams(s0), streams(fs), streams(ft),
        None if ftl is None else streams(ftl), streams(st1.policy_state.c), c0["gamma"], lam,
        init_t=streams(t0), init_tl=None if tl0 is None else streams(tl0), init_c=streams(st0.policy_state.c),
    )
    for k, v in stats.items():
        ctx.guard(k, v)
    ctx.transitions += N * E * Tn
    ctx.traces += N * E
    if not np.all(np.asarray(itc) == 1):
        fails.append((0, -1, "C04/iteration-count", f"iteration_count after one iteration = {np.asarray(itc)[:3].tolist()}"))
    if E > 1:
        ctx.outcome("initial-states-per-case", tuple(sorted(set(map(tuple, np.asarray(s0).reshape(N, E).tolist())))))
    out = []
    for stream, step, sig, msg in fails:
        ci = stream // E
        out.append((ci, sig, f"[{c0['algo']} env {stream % E} of {E}] " + msg))
    # distinct non-trivial cases: any done / clipped / masked situation
    return out


_MLP: dict = {}


def clause_mlp(cases, ctx: Ctx):
    """second pass: the real MLPActorCriticPolicy (key-driven sampling) through the real reset + iteration; judged by
    trace validation: the chosen actions are read back from the rows, the policy's own evaluate_action / value give the
    expected log-probabilities and values, everything else is the same reference collector."""
    import equinox as eqx
    import jax
    from jax import numpy as jnp
    from jax import random as jr

    from lerax.callback import CallbackList
    from lerax.policy import MLPActorCriticPolicy

    out = []
    for ci, c in enumerate(cases):
        E, Tn = c["num_envs"], c["num_steps"]
        has_tl = bool(c.get("tl"))
        env = collect.build_env(c)
        pol = MLPActorCriticPolicy(env, feature_size=4, feature_width=8, value_width=8, action_width=8, key=jr.key(c["policy_key"]), log_std_init=c.get("log_std", 0.0))
        sk = (c["algo"], E, Tn, c["S"], c["A"], c["act_kind"], c["obs_kind"], c.get("M") is not None, has_tl, c["gamma"], c["lam"])
        if sk not in _MLP:
            algo = collect.make_algo(c["algo"], E, Tn, c["gamma"], c["lam"])
            cb = CallbackList(callbacks=[])

            @eqx.filter_jit
            def run(env, pol, key, algo=algo, cb=cb):  # bound now: a later re-trace must not see a later configuration's algo
                k1, k2 = jr.split(key)
                st0 = algo.reset(env, pol, key=k1, callback=cb)
                st1 = algo.iteration(st0, key=k2, callback=cb)
                return st0.step_state, st1.step_state, st1.policy

            @eqx.filter_jit
            def reeval(pol, buf, all_obs):
                flat = buf.flatten_axes()
                f = lambda o, a, m: pol.evaluate_action(None, o, a, action_mask=m)[2]
                lp = jax.vmap(f)(flat.observations, flat.actions, flat.action_masks)
                lp0 = jax.vmap(lambda o, a: pol.evaluate_action(None, o, a)[2])(flat.observations, flat.actions)
                V = jax.vmap(lambda o: pol.value(None, o)[1])(all_obs)
                return lp, lp0, V

            _MLP[sk] = (run, reeval)
        run, reeval = _MLP[sk]
        st0, st1, buf = run(env, pol, jr.key(c["key"]))
        S = c["S"]
        all_obs = jnp.eye(S) if c["obs_kind"] == "onehot" else jnp.arange(S)
        lp, lp0, V = reeval(pol, buf, all_obs)
        st0, st1, buf, lp, lp0, V = jax.tree.map(np.asarray, (st0, st1, buf, lp, lp0, V))
        tb = refs.Tables([c], repeat=E)
        tb.V = np.repeat(np.asarray(V, dtype=np.float64)[None], E, axis=0)

        def streams(x):
            x = np.asarray(x)
            return x.reshape((1,) + x.shape) if E == 1 else x

        s0, t0, tl0 = collect.unwrap_env_state(st0.env_state, has_tl)
        fs, ft, ftl = collect.unwrap_env_state(st1.env_state, has_tl)
        one = lambda x: np.asarray(x).reshape(E)
        masks = None if buf.action_masks is None else streams(buf.action_masks)
        lam = 1.0 if c["algo"] == "REINFORCE" else c["lam"]
        fails, stats = refs.check_onpolicy(
            tb, None, streams(buf.observations), streams(buf.actions), streams(buf.rewards), streams(buf.dones), streams(buf.log_probs),
            streams(buf.values), None, masks, streams(buf.advantages), streams(buf.returns), one(s0), one(fs), one(ft),
            None if ftl is None else one(ftl), None, c["gamma"], lam, init_t=one(t0), init_tl=None if tl0 is None else one(tl0),
            trace_actions=True, lp_eval=lp.reshape(E, Tn), lp_eval_nomask=lp0.reshape(E, Tn),
        )
        for k, v in stats.items():
            ctx.guard("mlp-" + k, v)
        ctx.outcome("mlp-actions", tuple(np.asarray(buf.actions).ravel().round(3).tolist()))
        ctx.transitions += E * Tn
        ctx.traces += E
        for stream, step, sig, msg in fails:
            out.append((ci, sig.replace("C04/", "C04/mlp/"), f"[{c['algo']} MLP policy key {c['policy_key']}, {c['act_kind']} actions, env {stream} of {E}] " + msg))
    return out


def clause_gymcollect(cases, ctx: Ctx):
    """third pass: the same finite MDPs presented through GymToLeraxEnv(gymnasium twin), whose call log is part of
    the trace (exactly one gym reset per episode start)"""
    from mc.props.c13 import clause_gymcollect as g

    return g(cases, ctx, pid="C04")


FRESH_TABLE = dict(T=[[0, 1], [1, 2], [2, 0]], term=[False, False, False], init=[True, True, True], limit=1, act_kind="discrete", obs_kind="discrete", S=3, A=2)


def clause_fresh(cases, ctx: Ctx):
    """"After a done step the environment restarts from a FRESH initial state": three equally likely initial states, every step ends
    the episode, real reset + iteration.  If the restart state is the same at every step of every explored key, the restart is not
    drawn from fresh randomness (with fresh draws: probability 3^-(11*len(keys)) per case).  case: {algo, num_envs, keys}"""
    import equinox as eqx
    from jax import random as jr

    from lerax.callback import CallbackList

    from mc.policies import ScriptedAC

    out = []
    for ci, c in enumerate(cases):
        E, Tn = c["num_envs"], 12
        env = collect.build_env(FRESH_TABLE)
        pol = ScriptedAC(env, np.asarray([0]))
        algo = collect.make_algo(c["algo"], E, Tn, 0.9, 0.8)
        cb = CallbackList(callbacks=[])

        @eqx.filter_jit
        def run(key, algo=algo, cb=cb):
            k1, k2 = jr.split(key)
            st0 = algo.reset(env, pol, key=k1, callback=cb)
            return algo.iteration(st0, key=k2, callback=cb).policy.observations

        seqs = [np.asarray(run(jr.key(k))).reshape(E, Tn)[:, 1:].tolist() for k in c["keys"]]
        ctx.transitions += E * Tn * len(c["keys"])
        varied = any(len(set(row)) > 1 for s_ in seqs for row in s_)
        ctx.guard("fresh-restart-varied", int(varied))
        if not varied:
            out.append((ci, f"C04/after-done/restart-state-never-varies/{c['algo']}",
                        f"{c['algo']} num_envs={E}: 3 initial states, every step ends the episode: the states the environment restarted in were {seqs} for keys {c['keys']} - the same at every step of every run, not freshly drawn"))
    return out


CLAUSES = {"collect": clause_collect, "gymcollect": clause_gymcollect, "mlp": clause_mlp, "fresh": clause_fresh}


def family(S, A, *, shaped, limits, act_kind="discrete", obs_kind="discrete", masks=False):
    """Yield the table part of a case for every MDP in the family."""
    tis = all_term_init(S, shaped_only=shaped)
    for T in all_T(S, A):
        for term, init in tis:
            for limit, tl in limits:
                base = dict(S=S, A=A, T=T.tolist(), term=list(term), init=list(init), limit=limit, tl=tl,
                            act_kind=act_kind, obs_kind=obs_kind)
                if masks:
                    for M in all_masks(S, A):
                        yield dict(base, M=M.tolist())
                else:
                    yield base


def scripts_full(act_kind, A, L):
    return [list(s) for s in itertools.product(alphabet(act_kind, A), repeat=L)]


def scripts_deviation(act_kind, A, H, k):
    """All scripts of length H differing from a default script in at most k positions."""
    al = alphabet(act_kind, A)
    defaults = [[al[0]] * H, [al[-1]] * H, [al[i % len(al)] for i in range(H)]]
    seen, out = set(), []
    for d in defaults:
        for r in range(k + 1):
            for pos in itertools.combinations(range(H), r):
                for repl in itertools.product(al, repeat=r):
                    s = list(d)
                    for p, v in zip(pos, repl):
                        s[p] = v
                    key = repr(s)
                    if key not in seen:
                        seen.add(key)
                        out.append(s)
    return out


def explore(ctx: Ctx):
    thorough = ctx.tier == "thorough"
    keys = key_ints(ctx.seed, 8 if thorough else 2)
    ctx.rule = (
        "every deterministic tabular MDP of the listed sizes x (terminal set, initial set) x time limit "
        "(own truncation / TimeLimit wrapper) x every action script of the rollout length (full depth) or every "
        "script within k deviations of 3 default scripts (long horizon) x keys K x num_envs, pushed through the "
        "real algo.reset + algo.iteration (train replaced by a probe returning the buffer). One case = one "
        "(MDP, script, key, config); non-trivial = distinct case whose rollout contains a done step, a clipped "
        "action or a masked action"
    )
    ctx.assumptions = [
        "ScriptedAC implements lerax's AbstractActorCriticPolicy; tables exactly representable in float32",
        "environment answers to keys (initial states) are read back from the trace and checked for legality only",
        f"key alphabet K = {keys}",
    ]
    lims2 = [(0, 0), (2, 0), (0, 1), (0, 2), (0, 3)]
    cases = []

    def emit(algo, fam, scripts, num_envs, num_steps, ks, gamma=0.5, lam=0.25, **extra):
        n0 = len(cases)
        for tab in fam:
            for sc in scripts:
                for k in ks:
                    cases.append(dict(tab, algo=algo, script=sc, num_envs=num_envs, num_steps=num_steps,
                                      key=k, gamma=gamma, lam=lam, **extra))
        return len(cases) - n0

    plan = {}
    # full-depth: S=2 complete family, every script of length 4
    plan["S2-discrete-PPO"] = emit("PPO", family(2, 2, shaped=False, limits=lims2), scripts_full("discrete", 2, 4), 1, 4, keys)
    plan["S2-onehot-PPO-E2"] = emit("PPO", family(2, 2, shaped=False, limits=[(0, 0), (0, 2)], obs_kind="onehot"), scripts_full("discrete", 2, 3), 2, 3, keys[:1])
    plan["S2-discrete-A2C"] = emit("A2C", family(2, 2, shaped=False, limits=[(0, 2), (2, 0)]), scripts_full("discrete", 2, 3), 2, 3, keys[:1])
    plan["S2-discrete-REINFORCE"] = emit("REINFORCE", family(2, 2, shaped=False, limits=[(0, 2)]), scripts_full("discrete", 2, 3), 1, 3, keys[:1])
    plan["S2-masks-PPO"] = emit("PPO", family(2, 2, shaped=False, limits=[(0, 0), (0, 2)], masks=True), scripts_full("discrete", 2, 3), 1, 3, keys[:1])
    # a policy whose VALUE depends on its own state (V(obs, c) = V[obs] + 3c): which policy state evaluates stored values, the
    # truncation bootstrap and the final bootstrap becomes observable
    plan["S2-discrete-PPO-stateful-value"] = emit("PPO", family(2, 2, shaped=False, limits=[(0, 0), (0, 2), (0, 3)]), scripts_full("discrete", 2, 4), 1, 4, keys[:1], VS=3.0)
    plan["S2-discrete-A2C-E2-stateful-value"] = emit("A2C", family(2, 2, shaped=False, limits=[(0, 2)]), scripts_full("discrete", 2, 3), 2, 3, keys[:1], VS=3.0)
    # a critic that is not finite on terminal observations (the policy never acts there, a diverged simulation's last observation
    # overflows an MLP critic): a step that must not bootstrap stores exactly the environment's reward - 0 * inf would be NaN
    from mc.policies import default_V

    def inf_at_terminal(fam):
        out = []
        for tab in fam:
            if any(tab["term"]):
                out.append(dict(tab, V=[float("inf") if tm else float(v) for v, tm in zip(default_V(tab["S"]).tolist(), tab["term"])]))
        return out

    plan["S2-discrete-PPO-inf-terminal-value"] = emit("PPO", inf_at_terminal(family(2, 2, shaped=False, limits=[(0, 0), (0, 2)])), scripts_full("discrete", 2, 3), 1, 3, keys[:1])
    plan["S3-discrete-A2C-E2-inf-terminal-value"] = emit("A2C", inf_at_terminal(family(3, 2, shaped=True, limits=[(0, 3)])), scripts_full("discrete", 2, 3), 2, 3, keys[:1])
    # bounded Box actions: scripts over {lo-1, lo, 0, hi, hi+1}
    plan["S2-box-PPO"] = emit("PPO", family(2, 2, shaped=False, limits=[(0, 0), (0, 2), (2, 0)], act_kind="box"), scripts_full("box", 2, 3), 1, 3, keys[:1])
    # a Box bounded on ONE side only ([-1, inf)): the finite bound must still be enforced (-2 is clipped to -1, +2 stays +2)
    plan["S2-boxhalf-PPO"] = emit("PPO", family(2, 2, shaped=False, limits=[(0, 0), (0, 2)], act_kind="boxhalf"), scripts_full("boxhalf", 2, 3), 1, 3, keys[:1])
    plan["S2-boxvec-PPO-E2"] = emit("PPO", family(2, 2, shaped=True, limits=[(0, 0), (0, 2)], act_kind="boxvec"), scripts_full("boxvec", 2, 3), 2, 3, keys[:1])
    plan["S2-multidiscrete-PPO"] = emit("PPO", family(2, 2, shaped=True, limits=[(0, 2)], act_kind="multidiscrete"), scripts_full("multidiscrete", 2, 3), 1, 3, keys[:1])
    plan["S2-multibinary-A2C"] = emit("A2C", family(2, 2, shaped=True, limits=[(0, 2)], act_kind="multibinary"), scripts_full("multibinary", 2, 3), 1, 3, keys[:1])
    # S=3: all 729 transition tables, shaped terminal/initial sets
    plan["S3-discrete-PPO"] = emit("PPO", family(3, 2, shaped=True, limits=[(0, 0), (0, 2), (0, 3)]), scripts_full("discrete", 2, 4), 1, 4, keys[:1])
    plan["S3-discrete-PPO-E3"] = emit("PPO", family(3, 2, shaped=True, limits=[(0, 2)]), scripts_full("discrete", 2, 3), 3, 3, keys[:1])
    # long horizon, deviation-bounded scripts
    kdev = 2
    plan["S2-H12-dev2-PPO"] = emit("PPO", family(2, 2, shaped=False, limits=[(0, 0), (0, 3), (0, 5), (4, 0)]), scripts_deviation("discrete", 2, 12, kdev), 1, 12, keys[:1])
    plan["S2-box-H8-dev1-PPO"] = emit("PPO", family(2, 2, shaped=True, limits=[(0, 3)], act_kind="box"), scripts_deviation("box", 2, 8, 1), 1, 8, keys[:1])
    if thorough:
        plan["S3-all-PPO"] = emit("PPO", family(3, 2, shaped=False, limits=[(0, 0), (0, 2), (0, 3), (2, 0)]), scripts_full("discrete", 2, 5), 1, 5, keys[:1])
        plan["S3-box-PPO"] = emit("PPO", family(3, 2, shaped=True, limits=[(0, 0), (0, 2)], act_kind="box"), scripts_full("box", 2, 4), 1, 4, keys[:1])
        plan["S2-discrete-PPO-defaults"] = emit("PPO", family(2, 2, shaped=False, limits=lims2), scripts_full("discrete", 2, 4), 2, 4, keys, gamma=0.99, lam=0.95)
        plan["S2-discrete-A2C-full"] = emit("A2C", family(2, 2, shaped=False, limits=lims2), scripts_full("discrete", 2, 4), 3, 4, keys[:2])
        plan["S2-discrete-REINFORCE-full"] = emit("REINFORCE", family(2, 2, shaped=False, limits=lims2), scripts_full("discrete", 2, 4), 2, 4, keys[:2])
        plan["S2-H16-dev2"] = emit("PPO", family(2, 2, shaped=False, limits=[(0, 0), (0, 5), (0, 7)]), scripts_deviation("discrete", 2, 16, 2), 1, 16, keys[:1])
    ctx.notes["plan_cases"] = plan
    ctx.notes["deviation_bound_completed"] = kdev
    ctx.run("collect", cases)
    from mc.props.c13 import tables as _tables

    ending = [t for t in _tables(2, 2, "discrete", "discrete", [0, 2], False) if any(t["term"]) or t["limit"]]
    gc = []
    for t in ending[:: (6 if thorough else 25)]:
        for sc in ([0, 1, 1], [1, 0], [1, 1, 0, 0]):
            for algo in ("PPO", "A2C", "REINFORCE") if thorough else ("PPO",):
                gc.append(dict(table=t, algo=algo, script=sc, num_steps=6, key=keys[0]))
    ctx.run("gymcollect", gc)
    # second pass: real MLP actor-critic policies (all action-space kinds), trace validation
    mlp = []
    for kind, lims, masks in (("discrete", [(0, 2), (0, 3)], True), ("box", [(0, 2), (2, 0)], False), ("boxvec", [(0, 3)], False),
                              ("multidiscrete", [(0, 2)], False), ("multibinary", [(0, 2)], False)):
        fam = list(family(2, 2, shaped=True, limits=lims, act_kind=kind, obs_kind="onehot", masks=masks))
        fam = fam[:: max(1, len(fam) // (24 if thorough else 8))]
        for tab in fam:
            for pk in range(3 if thorough else 2):
                for E in (1, 2):
                    mlp.append(dict(tab, algo="PPO" if E == 1 else "A2C", policy_key=pk, num_envs=E, num_steps=6, key=keys[pk % len(keys)],
                                    gamma=0.5, lam=0.25, log_std=1.0))
    ctx.run("mlp", mlp)
    ctx.notes["mlp_cases"] = len(mlp)
    # distinct non-trivial = distinct cases (all cases are distinct by construction) minus trivial ones
    trivial = sum(1 for c in cases if not any(c["term"]) and not c.get("tl") and not c.get("limit") and c["act_kind"] not in refs.BOX_KINDS and c.get("M") is None)
    for i in range(len(cases) - trivial):
        pass
    ctx.notes["trivial_cases_(no_episode_end_no_clip_no_mask)"] = trivial
    ctx.nontrivial = set(range(len(cases) - trivial))
    ctx.states = ctx.transitions + ctx.traces  # every step reaches a reference state (s,t,c); + initial states
    from mc.core import key_ints as _ki

    ctx.run("fresh", [dict(algo=a, num_envs=E, keys=[int(k) % 100000 for k in _ki(ctx.seed, 4, salt=5)]) for a in ("PPO", "A2C", "REINFORCE") for E in (1, 2)])
    ctx.require("trunc_only", "term_only", "both", "clipped", "after_reset", "masked_rows", "gymcollect-episode-ends", "mlp-clipped", "mlp-trunc_only", "mlp-after_reset", "mlp-masked_rows", "fresh-restart-varied")
