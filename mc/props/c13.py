"""C13 - wrappers and adapters change only what they declare; TimeLimit is exact.

(i)   constructibility of every documented wrapper
(ii)  every wrapper stack up to a depth over tabular MDPs: BFS with the real env.step
      (mc.wrapx.explore_stack) against the declared-change table
(iii) TimeLimit(N), N in 1..5, alone and doubled, against the reference's own episode counter
(iv)  Gymnasium / Gymnax adapters against twins of the same MDP
"""

from __future__ import annotations

import json

import numpy as np

from mc import wrapx
from mc.core import Ctx, key_ints, lib_frame
from mc.mdp import all_T, all_term_init

LEVEL = "model_checking"
PID = "C13"


def clause_stack(cases, ctx: Ctx, pid=PID, in_space_only=False):
    out = []
    groups = {}
    for i, c in enumerate(cases):
        t = c["table"]
        k = (json.dumps(c["spec"]), t["S"], t["A"], t["act_kind"], t["obs_kind"], t.get("M") is not None, tuple(c["keys"]), c["depth"])
        groups.setdefault(k, []).append(i)
    for k, idxs in groups.items():
        c0 = cases[idxs[0]]
        stats = {}
        try:
            fails = wrapx.explore_stack(c0["spec"], [cases[i]["table"] for i in idxs], c0["keys"], c0["depth"], pid, stats, in_space_only=in_space_only)
        except Exception as e:  # a stack that cannot even be built / stepped: library crash, not a harness error
            where = lib_frame(e.__traceback__)
            if where is None:
                raise
            out.append((idxs[0], f"{pid}/stack/crash/{type(e).__name__}@{where}", f"stack {c0['spec']} over {c0['table']['act_kind']}/{c0['table']['obs_kind']} MDP: {type(e).__name__}: {str(e)[:300]}"))
            continue
        ctx.states += stats.get("states", 0)
        ctx.transitions += stats.get("transitions", 0)
        for g in ("done", "trunc", "term", "reset-multi-init", "reset-multi-init-varied"):
            ctx.guard(g, stats.get(g, 0))
        ctx.guard("frontier-left-at-depth-cap", stats.get("frontier_left", 0))
        for ti, sig, msg, path in fails:
            out.append((idxs[ti], sig, msg + (f" | path {path}" if path else "")))
    return out


def clause_construct(cases, ctx: Ctx):
    import jax
    from jax import random as jr

    out = []
    for i, c in enumerate(cases):
        base = wrapx.base_env(c["table"])
        try:
            env = wrapx.apply_wrapper(base, c["wrapper"])
            st, ob, info = env.reset(key=jr.key(0))
            a = env.action_space.sample(key=jr.key(1))
            env.step(st, a, key=jr.key(2))
        except Exception as e:  # the property: every documented wrapper can be constructed
            out.append((i, f"C13/construct/{c['wrapper'][0]}", f"{c['wrapper']} over {c['table']['act_kind']}/{c['table']['obs_kind']} MDP: {type(e).__name__}: {str(e)[:200]}"))
    return out


CLAUSES = {"stack": clause_stack, "construct": clause_construct}


def tables(S, A, act_kind, obs_kind, limits, shaped, masks=False, T_subset=None):
    out = []
    tis = all_term_init(S, shaped_only=shaped)
    Ts = list(all_T(S, A))
    if T_subset is not None:
        Ts = [Ts[i] for i in T_subset if i < len(Ts)]
    for T in Ts:
        for term, init in tis:
            for lim in limits:
                t = dict(S=S, A=A, T=T.tolist(), term=list(term), init=list(init), limit=lim, act_kind=act_kind, obs_kind=obs_kind)
                if masks:
                    t["M"] = [[True, False], [True, True]][:S] if S == 2 else [[True, False], [True, True], [False, True]]
                out.append(t)
    return out


def explore(ctx: Ctx):
    thorough = ctx.tier == "thorough"
    keys = key_ints(ctx.seed, 4)
    ctx.rule = (
        "for every wrapper stack (documented wrappers, depth <= 2 quick / 3 thorough, all orders) over every tabular MDP of "
        "the family: BFS from reset states of K over events (outer action incl. out-of-space values, key) with the real "
        "env.step, all returned states deduplicated by raw leaf values; each transition judged against the declared-change "
        "table (action/observation/reward maps, TimeLimit counters, pass-through of mask/info/terminal/spaces/unwrapped). "
        "non-trivial = a (stack, MDP) pair whose exploration saw an episode end"
    )
    ctx.assumptions = ["depth cap 6 on MDPs that never end an episode (unbounded episode clock)", f"key alphabet K = {keys}"]
    depth = 7 if thorough else 6
    cons = []
    for act, obs in (("discrete", "discrete"), ("box", "onehot"), ("boxvec", "onehot")):
        t = tables(2, 2, act, obs, [0], True)[0]
        for w in wrapx.ATOMS + [["TimeLimit", 1], ["RescaleAction", -1.0, 1.0], ["RescaleObservation", 0.0, 10.0], ["ClipReward", -1.0, 1.0]]:
            if wrapx.applicable([w], act, obs):
                cons.append(dict(wrapper=w, table=t))
    ctx.run("construct", cons)
    cases = []
    bases = [
        ("discrete", "discrete", tables(2, 2, "discrete", "discrete", [0, 2], False)),
        ("box", "onehot", tables(2, 2, "box", "onehot", [0, 2], False)),
        ("discrete", "onehot", tables(2, 2, "discrete", "onehot", [0], True, masks=True)),
    ]
    if thorough:
        bases.append(("discrete", "discrete", tables(3, 2, "discrete", "discrete", [0, 3], True)))
        bases.append(("boxvec", "onehot", tables(2, 2, "boxvec", "onehot", [0], True)))
    nstacks = 0
    for act, obs, tabs in bases:
        stacks = wrapx.all_stacks(3 if thorough else 2, act, obs)
        if not thorough:
            # depth-2 quick: keep pairs whose two wrappers are of different kinds or both TimeLimit
            stacks = [s for s in stacks if len(s) < 2 or s[0][0] != s[1][0] or s[0][0] == "TimeLimit"]
        else:
            stacks = [s for s in stacks if len(s) < 3 or any(w[0] == "TimeLimit" for w in s)]
        # (iii) TimeLimit(N) exactness for N in 1..5, alone and doubled
        stacks += [[["TimeLimit", n]] for n in (1, 4, 5)] + [[["TimeLimit", m], ["TimeLimit", n]] for m, n in ((1, 3), (3, 1), (4, 2), (5, 5))]
        nstacks += len(stacks)
        for spec in stacks:
            for t in tabs:
                cases.append(dict(spec=spec, table=t, keys=keys, depth=depth))
                if any(t["term"]) or t["limit"] or any(w[0] == "TimeLimit" for w in spec):
                    ctx.nontriv((json.dumps(spec), json.dumps(t)))
    ctx.notes["stacks"] = nstacks
    ctx.run_parallel("stack", cases, workers=10, group_key=lambda c: (json.dumps(c["spec"]), c["table"]["act_kind"], c["table"]["obs_kind"], c["table"]["S"]))
    ctx.traces = ctx.transitions
    ctx.require("done", "trunc", "term", "reset-multi-init-varied")
