"""C13 - wrappers and adapters change only what they declare; TimeLimit is exact.

(i)   constructibility of every documented wrapper
(ii)  every wrapper stack up to a depth over tabular MDPs: BFS with the real env.step
      (mc.wrapx.explore_stack) against the declared-change table
(iii) TimeLimit(N), N in 1..5, alone and doubled, against the reference's own episode counter
(iv)  Gymnasium / Gymnax adapters against twins of the same MDP
"""

from __future__ import annotations

import json

import numpy as np

from mc import wrapx
from mc.core import Ctx, key_ints, lib_frame
from mc.mdp import all_T, all_term_init

LEVEL = "model_checking"
PID = "C13"


def clause_stack(cases, ctx: Ctx, pid=PID, in_space_only=False):
    out = []
    groups = {}
    for i, c in enumerate(cases):
        t = c["table"]
        k = (json.dumps(c["spec"]), t["S"], t["A"], t["act_kind"], t["obs_kind"], t.get("M") is not None, tuple(c["keys"]), c["depth"])
        groups.setdefault(k, []).append(i)
    for k, idxs in groups.items():
        c0 = cases[idxs[0]]
        stats = {}
        try:
            fails = wrapx.explore_stack(c0["spec"], [cases[i]["table"] for i in idxs], c0["keys"], c0["depth"], pid, stats, in_space_only=in_space_only)
        except Exception as e:  # a stack that cannot even be built / stepped: library crash, not a harness error
            where = lib_frame(e.__traceback__)
            if where is None:
                raise
            out.append((idxs[0], f"{pid}/stack/crash/{type(e).__name__}@{where}", f"stack {c0['spec']} over {c0['table']['act_kind']}/{c0['table']['obs_kind']} MDP: {type(e).__name__}: {str(e)[:300]}"))
            continue
        ctx.states += stats.get("states", 0)
        ctx.transitions += stats.get("transitions", 0)
        for g in ("done", "trunc", "term", "reset-multi-init", "reset-multi-init-varied"):
            ctx.guard(g, stats.get(g, 0))
        ctx.guard("frontier-left-at-depth-cap", stats.get("frontier_left", 0))
        for ti, sig, msg, path in fails:
            out.append((idxs[ti], sig, msg + (f" | path {path}" if path else "")))
    return out


def clause_construct(cases, ctx: Ctx):
    import jax
    from jax import random as jr

    out = []
    for i, c in enumerate(cases):
        base = wrapx.base_env(c["table"])
        try:
            env = wrapx.apply_wrapper(base, c["wrapper"])
            st, ob, info = env.reset(key=jr.key(0))
            a = env.action_space.sample(key=jr.key(1))
            env.step(st, a, key=jr.key(2))
        except Exception as e:  # the property: every documented wrapper can be constructed
            out.append((i, f"C13/construct/{c['wrapper'][0]}", f"{c['wrapper']} over {c['table']['act_kind']}/{c['table']['obs_kind']} MDP: {type(e).__name__}: {str(e)[:200]}"))
    return out


CLAUSES = {"stack": clause_stack, "construct": clause_construct}


def tables(S, A, act_kind, obs_kind, limits, shaped, masks=False, T_subset=None):
    out = []
    tis = all_term_init(S, shaped_only=shaped)
    Ts = list(all_T(S, A))
    if T_subset is not None:
        Ts = [Ts[i] for i in T_subset if i < len(Ts)]
    for T in Ts:
        for term, init in tis:
            for lim in limits:
                t = dict(S=S, A=A, T=T.tolist(), term=list(term), init=list(init), limit=lim, act_kind=act_kind, obs_kind=obs_kind)
                if masks:
                    t["M"] = [[True, False], [True, True]][:S] if S == 2 else [[True, False], [True, True], [False, True]]
                out.append(t)
    return out


def explore(ctx: Ctx):
    thorough = ctx.tier == "thorough"
    keys = key_ints(ctx.seed, 4)
    ctx.rule = (
        "for every wrapper stack (documented wrappers, depth <= 2 quick / 3 thorough, all orders) over every tabular MDP of "
        "the family: BFS from reset states of K over events (outer action incl. out-of-space values, key) with the real "
        "env.step, all returned states deduplicated by raw leaf values; each transition judged against the declared-change "
        "table (action/observation/reward maps, TimeLimit counters, pass-through of mask/info/terminal/spaces/unwrapped). "
        "non-trivial = a (stack, MDP) pair whose exploration saw an episode end"
    )
    ctx.assumptions = ["depth cap 6 on MDPs that never end an episode (unbounded episode clock)", f"key alphabet K = {keys}"]
    depth = 7 if thorough else 6
    cons = []
    for act, obs in (("discrete", "discrete"), ("box", "onehot"), ("boxvec", "onehot")):
        t = tables(2, 2, act, obs, [0], True)[0]
        for w in wrapx.ATOMS + [["TimeLimit", 1], ["RescaleAction", -1.0, 1.0], ["RescaleObservation", 0.0, 10.0], ["ClipReward", -1.0, 1.0]]:
            if wrapx.applicable([w], act, obs):
                cons.append(dict(wrapper=w, table=t))
    ctx.run("construct", cons)
    cases = []
    bases = [
        ("discrete", "discrete", tables(2, 2, "discrete", "discrete", [0, 2], False)),
        ("box", "onehot", tables(2, 2, "box", "onehot", [0, 2], False)),
        ("discrete", "onehot", tables(2, 2, "discrete", "onehot", [0], True, masks=True)),
    ]
    if thorough:
        bases.append(("discrete", "discrete", tables(3, 2, "discrete", "discrete", [0, 3], True)))
        bases.append(("boxvec", "onehot", tables(2, 2, "boxvec", "onehot", [0], True)))
    nstacks = 0
    for act, obs, tabs in bases:
        stacks = wrapx.all_stacks(3 if thorough else 2, act, obs)
        if not thorough:
            # depth-2 quick: keep pairs whose two wrappers are of different kinds or both TimeLimit
            stacks = [s for s in stacks if len(s) < 2 or s[0][0] != s[1][0] or s[0][0] == "TimeLimit"]
        else:
            stacks = [s for s in stacks if len(s) < 3 or any(w[0] == "TimeLimit" for w in s)]
        # (iii) TimeLimit(N) exactness for N in 1..5, alone and doubled
        stacks += [[["TimeLimit", n]] for n in (1, 4, 5)] + [[["TimeLimit", m], ["TimeLimit", n]] for m, n in ((1, 3), (3, 1), (4, 2), (5, 5))]
        nstacks += len(stacks)
        for spec in stacks:
            for t in tabs:
                cases.append(dict(spec=spec, table=t, keys=keys, depth=depth))
                if any(t["term"]) or t["limit"] or any(w[0] == "TimeLimit" for w in spec):
                    ctx.nontriv((json.dumps(spec), json.dumps(t)))
    ctx.notes["stacks"] = nstacks
    ctx.run_parallel("stack", cases, workers=10, group_key=lambda c: (json.dumps(c["spec"]), c["table"]["act_kind"], c["table"]["obs_kind"], c["table"]["S"]))
    ctx.traces = ctx.transitions
    g2l, gx, gc = adapter_cases(ctx, thorough, keys)
    tk = lambda c: json.dumps(c["table"], sort_keys=True)
    ctx.run_parallel("gym2lerax", g2l, workers=6, group_key=tk, threads=2)
    ctx.run_parallel("gymnax", gx, workers=6, group_key=lambda c: (c["direction"], tk(c)), threads=2)
    ctx.run_parallel("gymcollect", gc, workers=6, group_key=lambda c: (c["algo"], tk(c)), threads=2)
    import itertools as _it

    l2g = []
    for spec in ([], [["TimeLimit", 2]], [["ClipReward", -2.0, 3.0], ["TimeLimit", 3]]):
        for t in tables(2, 2, "discrete", "discrete", [0], True)[:: (1 if thorough else 3)]:
            for seq in _it.product([0, 1], repeat=4):
                l2g.append(dict(table=t, spec=spec, seed=int(keys[0]) % 1000 + 1, actions=list(seq)))
    ctx.run_parallel("lerax2gym", l2g, workers=6, group_key=lambda c: (json.dumps(c["spec"]), tk(c)), threads=2)
    ctx.require("gym2lerax-done", "gymnax-done", "gymcollect-episode-ends", "gymadapter-done")
    ctx.require("done", "trunc", "term", "reset-multi-init-varied")


# ---------------------------------------------------------------------------------------
# (iv) adapters
# ---------------------------------------------------------------------------------------
def _expected_log(seq_events):
    return seq_events


_G2L: dict = {}


def clause_gym2lerax(cases, ctx: Ctx):
    """case: {table, key, actions}.  GymToLeraxEnv over the logging gymnasium twin, driven through lerax's own
    reset/step; a second twin instance replays the seeds the first one received."""
    import jax
    from jax import numpy as jnp
    from jax import random as jr

    from lerax.compatibility.gym import GymToLeraxEnv
    from mc.twins import TabGymEnv

    out = []
    for ci, c in enumerate(cases):
        t = c["table"]
        tk = json.dumps(t, sort_keys=True)
        if tk not in _G2L:  # one adapter (one compilation of reset/step) per table; the twin's log is cleared per case
            tw = TabGymEnv(t)
            _G2L[tk] = (tw, GymToLeraxEnv(tw))
        twin, env = _G2L[tk]
        jax.effects_barrier()
        twin.log.clear()
        desc = f"GymToLeraxEnv T={t['T']} term={t['term']} init={t['init']} limit={t.get('limit', 0)} actions={c['actions']}"
        st, obs, info = env.reset(key=jr.key(c["key"]))
        jax.effects_barrier()
        ref = TabGymEnv(t)
        if len(twin.log) != 1 or twin.log[0][0] != "reset":
            out.append((ci, "C13/adapter/gym2lerax/reset-calls", f"{desc}: reset() produced gym calls {twin.log}"))
            continue
        r_obs, _ = ref.reset(seed=twin.log[0][1])
        if not np.array_equal(np.asarray(obs), r_obs):
            out.append((ci, "C13/adapter/gym2lerax/reset-observation", f"{desc}: reset observation {np.asarray(obs).tolist()}, gym env returned {np.asarray(r_obs).tolist()}"))
        expected_log = [twin.log[0]]
        for j, a in enumerate(c["actions"]):
            n0 = len(twin.log)
            st, obs, rew, term, trunc, info = env.step(st, jnp.asarray(a), key=jr.fold_in(jr.key(c["key"]), j))
            jax.effects_barrier()
            new_calls = twin.log[n0:]
            g_obs, g_r, g_term, g_trunc, _ = ref.step(a)
            done = g_term or g_trunc
            want_calls = [("step", a)] + ([("reset",)] if done else [])
            if [x[0] for x in new_calls] != [x[0] for x in want_calls] or new_calls[0] != ("step", a):
                out.append((ci, "C13/adapter/gym2lerax/call-sequence", f"{desc}: step {j} (action {a}, episode {'ends' if done else 'continues'}) made the gym calls {new_calls}; expected {want_calls}"))
                break
            if done:
                ctx.guard("gym2lerax-done")
                g_obs, _ = ref.reset(seed=new_calls[1][1])
            if float(rew) != g_r or bool(term) != g_term or bool(trunc) != g_trunc:
                out.append((ci, "C13/adapter/gym2lerax/signals", f"{desc}: step {j}: (reward, terminal, truncated)=({float(rew)}, {bool(term)}, {bool(trunc)}), gym env gave ({g_r}, {g_term}, {g_trunc})"))
            if not np.array_equal(np.asarray(obs), g_obs):
                out.append((ci, "C13/adapter/gym2lerax/observation", f"{desc}: step {j}: observation {np.asarray(obs).tolist()}, gym env {'after its reset ' if done else ''}gave {np.asarray(g_obs).tolist()}"))
            ctx.transitions += 1
        ctx.traces += 1
    return out


def clause_gymnax(cases, ctx: Ctx):
    """case: {table, key, actions, direction: 'gymnax2lerax'|'lerax2gymnax'}"""
    import jax
    from jax import numpy as jnp
    from jax import random as jr

    from lerax.compatibility.gymnax import GymnaxToLeraxEnv, LeraxToGymnaxEnv
    from mc.mdp import reward_table
    from mc.twins import make_gymnax_twin

    out = []
    for ci, c in enumerate(cases):
        t = c["table"]
        T = np.asarray(t["T"])
        R = reward_table(t["S"], t["A"])
        lim = t.get("limit", 0)
        desc = f"{c['direction']} T={t['T']} term={t['term']} init={t['init']} limit={lim} actions={c['actions']}"
        tk = (c["direction"], json.dumps(t, sort_keys=True))
        if c["direction"] == "gymnax2lerax":
            if tk not in _G2L:
                genv, params = make_gymnax_twin(t)
                _G2L[tk] = GymnaxToLeraxEnv(genv, params)
            env = _G2L[tk]
            st, obs, info = env.reset(key=jr.key(c["key"]))
            get = lambda st: (int(st.env_state.s), int(st.env_state.time))
            s, clock = get(st)
            if not t["init"][s] or clock != 0 or int(obs) != s:
                out.append((ci, "C13/adapter/gymnax2lerax/reset", f"{desc}: reset state {s} time {clock} obs {int(obs)}"))
            for j, a in enumerate(c["actions"]):
                st, obs, rew, term, trunc, info = env.step(st, jnp.asarray(a), key=jr.fold_in(jr.key(c["key"]), j))
                s2 = int(T[s, a])
                done = bool(t["term"][s2]) or bool(lim and clock + 1 >= lim)
                ns, nclock = get(st)
                if float(rew) != float(R[s, a, s2]) or (bool(term) or bool(trunc)) != done:
                    out.append((ci, "C13/adapter/gymnax2lerax/signals", f"{desc}: step {j}: reward {float(rew)} terminal {bool(term)} truncated {bool(trunc)}; gymnax env gives reward {float(R[s, a, s2])} done {done}"))
                if done:
                    ctx.guard("gymnax-done")
                    if not t["init"][ns] or nclock != 0:
                        out.append((ci, "C13/adapter/gymnax2lerax/no-restart", f"{desc}: step {j} ended the episode; adapter state {ns} time {nclock}"))
                elif (ns, nclock) != (s2, clock + 1):
                    out.append((ci, "C13/adapter/gymnax2lerax/successor", f"{desc}: step {j}: adapter state {(ns, nclock)}, gymnax env {(s2, clock + 1)}"))
                if int(obs) != ns:
                    out.append((ci, "C13/adapter/gymnax2lerax/observation", f"{desc}: step {j}: observation {int(obs)} is not that of the adapter state {ns}"))
                s, clock = ns, nclock
                ctx.transitions += 1
        else:
            if tk not in _G2L:
                _G2L[tk] = LeraxToGymnaxEnv(wrapx.base_env(dict(t, act_kind="discrete", obs_kind="discrete")))
            g = _G2L[tk]
            params = g.default_params
            obs, gst = g.reset(jr.key(c["key"]), params)
            s, clock = int(gst.env_state.s), int(gst.env_state.t)
            if not t["init"][s] or clock != 0 or int(obs) != s or int(gst.time) != 0:
                out.append((ci, "C13/adapter/lerax2gymnax/reset", f"{desc}: reset state {s} clock {clock} obs {int(obs)} time {int(gst.time)}"))
            for j, a in enumerate(c["actions"]):
                obs, gst, rew, done_f, info = g.step_env(jr.fold_in(jr.key(c["key"]), j), gst, jnp.asarray(a), params)
                s2 = int(T[s, a])
                done = bool(t["term"][s2]) or bool(lim and clock + 1 >= lim)
                ns, nclock = int(gst.env_state.s), int(gst.env_state.t)
                if float(rew) != float(R[s, a, s2]) or bool(done_f) != done:
                    out.append((ci, "C13/adapter/lerax2gymnax/signals", f"{desc}: step {j}: reward {float(rew)} done {bool(done_f)}; lerax env gives reward {float(R[s, a, s2])}, terminal-or-truncated {done}"))
                if done:
                    ctx.guard("gymnax-done")
                    if not t["init"][ns] or nclock != 0:
                        out.append((ci, "C13/adapter/lerax2gymnax/no-restart", f"{desc}: step {j} ended the episode; state {ns} clock {nclock}"))
                elif (ns, nclock) != (s2, clock + 1):
                    out.append((ci, "C13/adapter/lerax2gymnax/successor", f"{desc}: step {j}: state {(ns, nclock)}, lerax env {(s2, clock + 1)}"))
                if int(obs) != ns:
                    out.append((ci, "C13/adapter/lerax2gymnax/observation", f"{desc}: step {j}: observation {int(obs)} is not that of the state {ns}"))
                s, clock = ns, nclock
                ctx.transitions += 1
        ctx.traces += 1
    return out


class _Shim:
    """what ScriptedAC/ScriptedQ read from an environment"""

    def __init__(self, env, S, A):
        self.action_space, self.observation_space = env.action_space, env.observation_space
        self.act_kind, self.obs_kind, self.S, self.A = "discrete", "discrete", S, A

    @property
    def unwrapped(self):
        return self


def gymcollect_failures(c, pid: str, ctx: Ctx):
    """on-/off-policy collection over GymToLeraxEnv(logging twin): exactly one gym reset per episode start"""
    import equinox as eqx
    import jax
    from jax import random as jr

    from lerax.callback import CallbackList
    from lerax.compatibility.gym import GymToLeraxEnv
    from mc import collect, learnx
    from mc.policies import ScriptedAC, ScriptedQ
    from mc.twins import TabGymEnv

    t = c["table"]
    twin = TabGymEnv(t)
    env = GymToLeraxEnv(twin)
    shim = _Shim(env, t["S"], t["A"])
    cb = CallbackList(callbacks=[])
    n = c["num_steps"]
    if c["algo"] == "DQN":
        algo = learnx.make_algo("DQN", 1, n, learning_starts=c["learning_starts"], buffer_size=32, batch_size=1, learning_rate=0.0)
        pol = ScriptedQ(shim, np.asarray(c["script"]))
        total = c["learning_starts"] + n
    else:
        algo = collect.PROBES[c["algo"]](num_envs=1, num_steps=n) if c["algo"] != "PPO" else collect.PROBES["PPO"](num_envs=1, num_steps=n, num_batches=1, num_epochs=1)
        pol = ScriptedAC(shim, np.asarray(c["script"]))
        total = n
    st = eqx.filter_jit(lambda k: algo.reset(env, pol, key=k, callback=cb))(jr.key(c["key"]))
    st = eqx.filter_jit(lambda s, k: algo.iteration(s, key=k, callback=cb))(st, jr.key(c["key"] + 1))
    jax.block_until_ready(jax.tree.leaves(eqx.filter(st.step_state, eqx.is_array)))
    jax.effects_barrier()
    # reference call log: the scripted policy restarts its script at every episode start
    ref = TabGymEnv(t)
    log = list(twin.log)
    desc = f"{c['algo']} collection over GymToLeraxEnv, T={t['T']} term={t['term']} init={t['init']} limit={t.get('limit', 0)} script={c['script']} steps={total}"
    fails = []
    if not log or log[0][0] != "reset":
        return [(f"{pid}/gym/call-sequence", f"{desc}: first gym call is {log[:1]}")]
    ref.reset(seed=log[0][1])
    want = ["R"]
    cnt = 0
    i = 1
    for step in range(total):
        a = c["script"][cnt % len(c["script"])]
        _, _, term, trunc, _ = ref.step(a)
        want.append(f"S{a}")
        if term or trunc:
            ctx.guard("gymcollect-episode-ends")
            want.append("R")
            cnt = 0
            # follow the implementation's own seed for the new episode, if it did reset here
            k = len(want) - 1
            seed = log[k][1] if k < len(log) and log[k][0] == "reset" else 0
            ref.reset(seed=seed)
        else:
            cnt += 1
    got = ["R" if x[0] == "reset" else f"S{x[1]}" for x in log]
    if got != want:
        extra_resets = got.count("R") - want.count("R")
        sig = f"{pid}/gym/environment-reset-when-episode-did-not-end" if extra_resets > 0 else f"{pid}/gym/call-sequence"
        fails.append((sig, f"{desc}: gym call log {' '.join(got)}; one reset per episode start would be {' '.join(want)}"))
    return fails


def clause_gymcollect(cases, ctx: Ctx, pid="C13"):
    out = []
    for ci, c in enumerate(cases):
        for sig, msg in gymcollect_failures(c, pid, ctx):
            out.append((ci, sig, msg))
        ctx.traces += 1
    return out


def clause_lerax2gym(cases, ctx: Ctx):
    """LeraxToGymEnv over tabular MDPs / stacks (same clause as C01's, reported under C13: the adapter reproduces the
    trajectory of the environment it adapts)"""
    from mc.props.c01 import clause_gymadapter

    return [(i, s_.replace("C01/gymadapter/", "C13/adapter/lerax2gym/"), m) for (i, s_, m) in clause_gymadapter(cases, ctx)]


CLAUSES.update({"gym2lerax": clause_gym2lerax, "gymnax": clause_gymnax, "gymcollect": clause_gymcollect, "lerax2gym": clause_lerax2gym})


def adapter_cases(ctx: Ctx, thorough: bool, keys):
    import itertools

    tabs = [t for t in tables(2, 2, "discrete", "discrete", [0, 2], False)]
    tabs = tabs[:: (2 if thorough else 9)]
    L = 5 if thorough else 4
    g2l, gx, gc = [], [], []
    for t in tabs:
        for seq in itertools.product([0, 1], repeat=L):
            g2l.append(dict(table=t, key=keys[0], actions=list(seq)))
            if any(t["term"]) or t["limit"]:
                ctx.nontriv(("g2l", json.dumps(t), seq))
    for t in tabs:
        for seq in itertools.product([0, 1], repeat=4):
            for d in ("gymnax2lerax", "lerax2gymnax"):
                gx.append(dict(table=t, key=keys[1 % len(keys)], actions=list(seq), direction=d))
    ending = [t for t in tables(2, 2, "discrete", "discrete", [0, 2], False) if any(t["term"]) or t["limit"]]
    for t in ending[:: (8 if thorough else 30)]:
        for sc in ([0, 1, 1], [1, 0]):
            gc.append(dict(table=t, algo="PPO", script=sc, num_steps=6, key=keys[0]))
            gc.append(dict(table=t, algo="DQN", script=sc, num_steps=3, learning_starts=3, key=keys[0]))
            if thorough:
                gc.append(dict(table=t, algo="A2C", script=sc, num_steps=5, key=keys[0]))
    return g2l, gx, gc
