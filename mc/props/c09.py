"""C09 - each epoch partitions the rollout into disjoint, intact minibatches.

API part  : every (num_envs, num_steps) in {1..4}^2, every batch_size in 1..N, every key of K and
            key=None, through the real flatten_axes / batch_indices / gather / batches / sample on a
            buffer whose every field (nested dict+tuple observation, vector action, advantage, return,
            log-prob, value, done, mask, policy state) carries the sample's unique tag.
End to end: the real PPO.train with a tabular critic that has ONE entry per sample, plain SGD swapped
            in, value loss only: after training entry i equals 0.75^(visits_i), which recovers the exact
            per-sample visit counts of all epochs (state = the value table).
"""

from __future__ import annotations

import itertools
from collections import OrderedDict

import equinox as eqx
import jax
import numpy as np
import optax
from jax import numpy as jnp
from jax import random as jr

from lerax.algorithm import PPO
from lerax.buffer import RolloutBuffer

from mc.core import Ctx, key_ints
from mc.policies import CounterState
from mc.props.c08 import TabularAC

LEVEL = "model_checking"


def tagged_buffer(E, T):
    tag = jnp.arange(E * T).reshape(E, T)
    f = tag.astype(float)
    obs = OrderedDict({"a": f + 0.5, "b": (jnp.stack([f, -f], axis=-1), tag * 3)})
    act = jnp.stack([f * 2.0, f * 2.0 + 1.0], axis=-1)
    mask = jnp.stack([(tag % 2) == 1, ((tag // 2) % 2) == 1, ((tag // 4) % 2) == 1], axis=-1)
    return RolloutBuffer(
        observations=obs, actions=act, rewards=f * 0.25, dones=(tag % 3) == 0, log_probs=-f, values=f + 100.0,
        states=CounterState(tag + 7), action_masks=mask, returns=f * 10.0, advantages=f - 1000.0,
    )


def row_tags(buf) -> dict[str, np.ndarray]:
    """tag recovered from every field separately (any leading shape)"""
    o = buf.observations
    t = {
        "obs.a": np.asarray(o["a"]) - 0.5,
        "obs.b0+": np.asarray(o["b"][0])[..., 0],
        "obs.b0-": -np.asarray(o["b"][0])[..., 1],
        "obs.b1": np.asarray(o["b"][1]) / 3.0,
        "action0": np.asarray(buf.actions)[..., 0] / 2.0,
        "action1": (np.asarray(buf.actions)[..., 1] - 1.0) / 2.0,
        "reward": np.asarray(buf.rewards) * 4.0,
        "log_prob": -np.asarray(buf.log_probs),
        "value": np.asarray(buf.values) - 100.0,
        "return": np.asarray(buf.returns) / 10.0,
        "advantage": np.asarray(buf.advantages) + 1000.0,
        "state": np.asarray(buf.states.c) - 7,
    }
    m = np.asarray(buf.action_masks).astype(int)
    t["mask(mod 8)"] = m[..., 0] + 2 * m[..., 1] + 4 * m[..., 2]
    t["done(mod 3)"] = np.asarray(buf.dones)
    return t


def alignment_failures(buf, what, sigbase):
    try:
        tags = row_tags(buf)
    except Exception as e:  # fields of different leading shapes cannot even be read as rows
        shapes = {f: tuple(np.shape(getattr(buf, f))) for f in ("rewards", "observations", "actions", "action_masks") if getattr(buf, f, None) is not None and not isinstance(getattr(buf, f), dict)}
        return np.zeros((0,), dtype=int), [(f"{sigbase}/fields-have-different-row-shapes", f"{what}: the fields no longer share their leading (row) axes: {shapes} ({type(e).__name__}: {str(e)[:120]})")]
    ref = np.rint(np.nan_to_num(tags["reward"], nan=-1.0)).astype(int)
    out = []
    lead = {k: np.shape(v)[: np.ndim(ref)] for k, v in tags.items()}
    if len(set(lead.values())) > 1:
        return ref, [(f"{sigbase}/fields-have-different-row-shapes", f"{what}: the fields no longer share their leading (row) axes: {lead}")]
    for k, v in tags.items():
        if k == "mask(mod 8)":
            ok = np.array_equal(v, ref % 8)
        elif k == "done(mod 3)":
            ok = np.array_equal(v, ref % 3 == 0)
        else:
            ok = np.array_equal(np.rint(v).astype(int), ref) and np.allclose(v, ref)
        if not ok:
            out.append((f"{sigbase}/misaligned/{k.split('(')[0]}", f"{what}: field {k} does not carry the same sample tags as the reward field ({np.asarray(v).ravel()[:8].tolist()} vs {ref.ravel()[:8].tolist()})"))
    return ref, out


def clause_large(cases, ctx: Ctx):
    """case: {N, B, key}: batch_indices on a flattened buffer of N rows for N around the 16-bit boundaries: every index in range, none twice,
    exactly floor(N/B)*B used, and gather(row) returns exactly those rows."""
    out = []
    for ci, c in enumerate(cases):
        N, B = c["N"], c["B"]
        z = jnp.zeros((N,))
        tag = jnp.arange(N)
        buf = RolloutBuffer(observations=tag, actions=jnp.zeros((N,), int), rewards=tag.astype(float), dones=jnp.zeros((N,), bool), log_probs=z, values=z,
                            states=CounterState(tag), returns=z, advantages=z)
        idx = np.asarray(buf.batch_indices(B, key=jr.key(c["key"])), dtype=np.int64)
        nb = N // B
        fl = idx.ravel()
        ctx.guard("large-buffers")
        if idx.shape != (nb, B) or fl.min() < 0 or fl.max() >= N or len(np.unique(fl)) != nb * B:
            out.append((ci, "C09/large/indices", f"N={N} B={B}: batch_indices shape {idx.shape}, range [{fl.min()}, {fl.max()}], {len(np.unique(fl))} distinct of {nb * B} expected"))
            continue
        g = buf.gather(buf.batch_indices(B, key=jr.key(c["key"]))[0])
        if not (np.array_equal(np.asarray(g.observations), idx[0]) and np.array_equal(np.asarray(g.states.c), idx[0]) and np.array_equal(np.rint(np.asarray(g.rewards)).astype(np.int64), idx[0])):
            out.append((ci, "C09/large/gather", f"N={N} B={B}: gather(first index row) does not return those rows in every field"))
    return out


def clause_api(cases, ctx: Ctx):
    """case: {E, T, B, key (int or None)}"""
    out = []
    for ci, c in enumerate(cases):
        E, T, B = c["E"], c["T"], c["B"]
        N = E * T
        key = None if c["key"] is None else jr.key(c["key"])
        buf = tagged_buffer(E, T)
        desc = f"E={E} T={T} B={B} key={c['key']}"
        add = lambda sig, msg: out.append((ci, sig, f"{desc}: {msg}"))
        # flatten_axes in every axis order
        for axes in (None, (0, 1), (1, 0)):
            flat = buf.flatten_axes(axes)
            ref, fl = alignment_failures(flat, f"flatten_axes({axes})", "C09/flatten")
            for s, m in fl:
                add(s, m)
            if sorted(ref.ravel().tolist()) != list(range(N)) or ref.shape != (N,):
                add("C09/flatten/lost-or-duplicated", f"flatten_axes({axes}) yields tags {ref.ravel().tolist()}, expected each of 0..{N - 1} once")
            want = np.arange(N).reshape(E, T)
            want = want.ravel() if axes != (1, 0) else want.T.ravel()
            if ref.shape == (N,) and not np.array_equal(ref, want):
                add("C09/flatten/order", f"flatten_axes({axes}) order {ref.tolist()}, expected {want.tolist()}")
        flat = buf.flatten_axes()
        idx = np.asarray(flat.batch_indices(B, key=key))
        nb = N // B
        if idx.shape != (nb, B):
            add("C09/indices/shape", f"batch_indices shape {idx.shape}, expected {(nb, B)}")
        fl_idx = idx.ravel().tolist()
        if len(set(fl_idx)) != len(fl_idx):
            add("C09/indices/duplicate", f"an index appears in two minibatch slots: {idx.tolist()}")
        if any(i < 0 or i >= N for i in fl_idx):
            add("C09/indices/out-of-range", f"indices {idx.tolist()} outside 0..{N - 1}")
        if len(set(fl_idx)) != nb * B:
            add("C09/indices/count", f"{len(set(fl_idx))} distinct samples used, expected floor(N/B)*B = {nb * B}")
        ctx.outcome("permutation", tuple(fl_idx))
        for r in range(idx.shape[0]):
            g = flat.gather(jnp.asarray(idx[r]))
            ref, fl = alignment_failures(g, f"gather(row {r})", "C09/gather")
            for s, m in fl:
                add(s, m)
            if ref.tolist() != idx[r].tolist():
                add("C09/gather/wrong-rows", f"gather({idx[r].tolist()}) returned samples {ref.tolist()}")
        for axes in (None, (1, 0)):
            bs = buf.batches(B, key=key, batch_axes=axes)
            ref, fl = alignment_failures(bs, f"batches(batch_axes={axes})", "C09/batches")
            for s, m in fl:
                add(s, m)
            r = ref.ravel().tolist()
            if ref.shape != (nb, B) or len(set(r)) != len(r) or any(i < 0 or i >= N for i in r):
                add("C09/batches/not-a-partition", f"batches(batch_axes={axes}) rows {ref.tolist()}")
        # a strict subset of the batch axes: rows are whole trajectories (axis 0) or whole time slices (axis 1)
        grid = np.arange(N).reshape(E, T)
        for axes, lines in ((0, [tuple(grid[e].tolist()) for e in range(E)]), (1, [tuple(grid[:, t].tolist()) for t in range(T)]),
                            ((0,), [tuple(grid[e].tolist()) for e in range(E)]), (-1, [tuple(grid[:, t].tolist()) for t in range(T)])):
            part = buf.flatten_axes(axes)
            ref, fl = alignment_failures(part, f"flatten_axes({axes})", "C09/flatten-partial")
            for s_, m in fl:
                add(s_, m)
            rows = [tuple(np.asarray(r).ravel().tolist()) for r in np.asarray(ref)]
            if rows != lines:
                add("C09/flatten-partial/rows", f"flatten_axes({axes}) yields rows {rows}, expected {lines}")
            if key is not None:
                for b in sorted({1, len(lines)}):
                    sm = buf.sample(b, key=key, batch_axes=axes)
                    ref, fl = alignment_failures(sm, f"sample({b}, batch_axes={axes})", "C09/sample-partial")
                    for s_, m in fl:
                        add(s_, m)
                    got = [tuple(np.asarray(r).ravel().tolist()) for r in np.asarray(ref)]
                    if len(got) != b or len(set(got)) != b or any(g not in lines for g in got):
                        add("C09/sample-partial/not-distinct-stored-rows", f"sample({b}, batch_axes={axes}) returned rows {got}; the stored rows along these axes are {lines}")
                try:
                    buf.sample(len(lines) + 1, key=key, batch_axes=axes)
                    add("C09/sample-partial/oversized-batch-accepted", f"sample({len(lines) + 1}, batch_axes={axes}) did not refuse a batch larger than the {len(lines)} stored rows")
                except ValueError:
                    pass
        if key is not None:
            sm = buf.sample(B, key=key)
            ref, fl = alignment_failures(sm, "sample", "C09/sample")
            for s, m in fl:
                add(s, m)
            r = ref.ravel().tolist()
            if len(r) != B or len(set(r)) != B or any(i < 0 or i >= N for i in r):
                add("C09/sample/not-distinct-stored-rows", f"sample({B}) returned samples {r}")
    return out


_TRAIN = {}


def trainer(E, T, nb, epochs):
    k = (E, T, nb, epochs)
    if k not in _TRAIN:
        algo = PPO(num_envs=E, num_steps=T, num_batches=nb, num_epochs=epochs, normalize_advantages=False, clip_value_loss=False,
                   entropy_loss_coefficient=0.0, value_loss_coefficient=1.0, max_grad_norm=1e9)
        B = algo.batch_size
        # plain SGD: V_i <- V_i - eta * dL/dV_i ; L = kappa*mean_B (V-R)^2, R=0  => factor (1 - 2*kappa*eta/B) per visit
        object.__setattr__(algo, "optimizer", optax.sgd(0.5 * B))
        N = E * T

        @eqx.filter_jit
        def run(keys):
            def one(key):
                pol = TabularAC(jnp.zeros((N, 2)), jnp.ones(N))
                tag = jnp.arange(N).reshape(E, T)
                z = jnp.zeros((E, T))
                buf = RolloutBuffer(observations=tag, actions=jnp.zeros((E, T), int), rewards=z, dones=jnp.zeros((E, T), bool),
                                    log_probs=jnp.full((E, T), jnp.log(0.5)), values=jnp.ones((E, T)), states=CounterState(jnp.zeros((E, T), int)),
                                    returns=z, advantages=z)
                opt_state = algo.optimizer.init(eqx.filter(pol, eqx.is_inexact_array))
                new_pol, _, log = algo.train(pol, opt_state, buf, key=key)
                return new_pol.values, new_pol.logits

            return jax.vmap(one)(keys)

        _TRAIN[k] = (run, B)
    return _TRAIN[k]


def clause_train(cases, ctx: Ctx):
    """case: {E, T, nb, epochs, keys: [...]}: visit counts recovered through the real PPO.train"""
    out = []
    for ci, c in enumerate(cases):
        E, T, nb, ep = c["E"], c["T"], c["nb"], c["epochs"]
        N = E * T
        run, B = trainer(E, T, nb, ep)
        vals, logits = run(jax.vmap(jr.key)(jnp.asarray(c["keys"])))
        vals = np.asarray(vals, dtype=np.float64)
        desc = f"E={E} T={T} num_batches={nb} (batch_size={B}) epochs={ep}"
        per_epoch = (N // B) * B
        # factor per visit is 0.75 with kappa = 1/2 (lerax today) or 0.5 with kappa = 1: accept either, consistently
        ok_any = False
        for fac in (0.75, 0.5):
            with np.errstate(divide="ignore", invalid="ignore"):
                v = np.log(vals) / np.log(fac)
            vi = np.rint(v)
            if np.all(np.isfinite(v)) and np.all(np.abs(v - vi) < 1e-3):
                ok_any = True
                break
        if not ok_any:
            out.append((ci, "C09/train/sample-used-twice-in-a-minibatch-or-partial-row", f"{desc}: value table after training {vals[0].tolist()} is not of the form f^visits (a sample entered one minibatch more than once, or rows were torn)"))
            continue
        vi = vi.astype(int)
        ctx.transitions += int(vi.sum())
        for ki, k in enumerate(c["keys"]):
            if vi[ki].max() > ep:
                out.append((ci, "C09/train/sample-visited-more-than-once-per-epoch", f"{desc} key={k}: visit counts {vi[ki].tolist()} exceed the number of epochs"))
            if vi[ki].sum() != ep * per_epoch:
                out.append((ci, "C09/train/visit-total", f"{desc} key={k}: {int(vi[ki].sum())} sample visits, expected epochs*floor(N/B)*B = {ep * per_epoch}; counts {vi[ki].tolist()}"))
            if per_epoch == N and np.any(vi[ki] != ep):
                out.append((ci, "C09/train/epoch-does-not-visit-all", f"{desc} key={k}: B divides N but visit counts are {vi[ki].tolist()}"))
        if not np.array_equal(np.asarray(logits), np.zeros_like(np.asarray(logits))):
            out.append((ci, "C09/train/harness-policy-gradient-nonzero", f"{desc}: logits moved although all advantages are zero"))
        if per_epoch < N and ep >= 2:
            mixed = bool(np.any((vi > 0) & (vi < ep)))
            ctx.guard("fresh-shuffle-configs")
            if not mixed:
                out.append((ci, "C09/train/same-shuffle-every-epoch", f"{desc}: over keys {c['keys']} every sample was visited either in all epochs or in none ({vi.tolist()}): epochs do not reshuffle"))
        ctx.outcome("visit-vector", tuple(map(tuple, vi.tolist())))
        ctx.states += len(c["keys"])
    return out


CLAUSES = {"large": clause_large, "api": clause_api, "train": clause_train}


def explore(ctx: Ctx):
    thorough = ctx.tier == "thorough"
    keys = key_ints(ctx.seed, 8 if thorough else 4)
    ctx.rule = (
        "API: every (num_envs, num_steps) in {1..4}^2 x every batch_size 1..N x every key of K and key=None through "
        "flatten_axes (all axis orders) / batch_indices / gather / batches / sample on a fully tagged buffer. End to end: the real "
        "PPO.train for every (num_envs,num_steps) in {1,2,3}x{2,3,4} x num_batches{1,2,3} x epochs{1,2,3} x K with one critic entry "
        "per sample and SGD, visit counts read back from the trained table. non-trivial = a configuration where batch_size does not "
        "divide N (samples are dropped) or more than one minibatch exists"
    )
    ctx.assumptions = [f"key alphabet K = {keys}", "value-loss scale kappa in {1/2,1} accepted (per-visit factor 0.75 or 0.5)"]
    R = range(1, 5)
    api = []
    for E, T in itertools.product(R, R):
        N = E * T
        for B in range(1, N + 1):
            for k in [None] + keys:
                api.append(dict(E=E, T=T, B=B, key=k))
                if N % B or N // B > 1:
                    ctx.nontriv(("api", E, T, B, k))
    ctx.run("api", api)
    # sizes around the 8-, 15- and 16-bit boundaries (an index table narrowed to a small integer type)
    ctx.run("large", [dict(N=N, B=B, key=keys[0]) for (N, B) in ((300, 7), (33000, 1000), (40000, 999), (65535, 4096), (70000, 1000))])
    train = []
    for E, T in itertools.product((1, 2, 3), (2, 3, 4) if not thorough else (2, 3, 4, 5)):
        for nb in (1, 2, 3) if not thorough else (1, 2, 3, 4):
            for ep in (1, 2, 3):
                train.append(dict(E=E, T=T, nb=nb, epochs=ep, keys=keys))
                N, B = E * T, (E * T) // nb
                if B and (N % B or N // B > 1):
                    ctx.nontriv(("train", E, T, nb, ep))
    train = [c for c in train if (c["E"] * c["T"]) // c["nb"] >= 1]
    ctx.run_parallel("train", train, workers=6, group_key=lambda c: (c["E"], c["T"], c["nb"]))
    ctx.traces = len(train) * len(keys)
    ctx.require("fresh-shuffle-configs")
