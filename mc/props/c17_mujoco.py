"""C17 (MuJoCo half) - the 11 MJX environments realise their Gymnasium v5 reference MDPs.

Reference = gymnasium 1.3.0's own `*-v5` environment classes, constructed with **lerax's XML file**
(identical physical model) and driven through their unmodified `reset`-path (`mj_resetData`,
`set_state`, `_get_obs`) and `step()`.  Nothing of the reference is re-implemented here.

Three layers (DESIGN.md, C17), every case is ONE point of a finite tree:
    tree  = initial(key(k)) for k in K, expanded by every sequence of the 4 corner actions to the
            stated depth; every tree state is judged with all 6 actions (4 corners + 2 interior).

  reset       lerax `observation(initial(k))` vs gymnasium's observation after
              `mj_resetData; set_state(qpos, qvel)` of the very same qpos/qvel (1e-4).  Action bounds.
  semantic    gymnasium's own `step()` is run with `do_simulation` replaced by an injector that writes
              lerax's post-step arrays into gymnasium's MjData, so observation, reward, every info
              entry and `terminated` are computed by gymnasium's code on exactly the physical state
              lerax reached; lerax's observation / reward / terminal / transition_info must match at
              1e-4 * max(1, |ref|) (reward and reward terms: 1e-4 * max(min(1, sum |reference terms|), |ref|)
              + 2e-5; pure action costs: 1e-4 relative).  The pre-step data is gymnasium's reading of the true pre-state
              (after a reset: its own `set_state`; later: the arrays lerax holds after the previous
              step, which is what gymnasium would hold as well).  The injected contact-force array is
              `mjx.rne_postconstraint(model, data).cfrc_ext` of lerax's post-step state (the MJX
              counterpart of the `mj_rnePostConstraint` call gymnasium makes after stepping).
              "Poked" cases overwrite ONE coordinate of the post-step arrays identically on both sides
              to straddle every documented threshold (health ranges, velocity / force clips).
  transition  from reset and depth-1 states only: `set_state` + gymnasium's real `step()` vs lerax
              `transition`: post-step qpos / qvel and every derived array the semantic functions read
              (xpos, xipos, xmat, cinert, cvel, site_xpos, tendons, qfrc_actuator) at
              (1e-3 + 20 x sens) * max(1, |ref|), qfrc_constraint at 5e-2 of its largest entry, and the
              control interval; sens = how far the reference's own result moves under a 1e-6
              perturbation of the start state.  Skipped and counted: starts with sens > 1e-2, and
              impacts = steps during which the reference's set of active constraints (contacts, joint
              limits) changes AND whose result moves by > 3e-4 when the reference's physics step is
              halved (MJX and MuJoCo-C legitimately diverge by 0.1 and more in joint velocities there,
              e.g. when an Ant leg hits its joint limit or the Ant lands; measured: on all other steps
              they agree to < 2e-4).

Signatures: C17/mujoco/<Env>/<layer>/<quantity>/<class>.  The class of a mismatch is found by
re-judging lerax's functions on *completed* states (pre-state with the reference's forward
kinematics, post-state with cfrc_ext filled in): for a mismatch of the plain evaluation it only names
the cause.  In addition lerax's functions must agree with the reference on the state with contact
forces supplied (class `with-contact-forces-supplied`), so that contact-force semantics (clips,
weights) are compared although lerax itself never computes cfrc_ext.
"""

from __future__ import annotations

import inspect
import itertools
import math
import os
import warnings

import numpy as np

from mc.core import Ctx, HarnessError, key_ints

warnings.filterwarnings("ignore", category=DeprecationWarning)
warnings.filterwarnings("ignore", message="Explicitly requested dtype")

import equinox as eqx  # noqa: E402
import jax  # noqa: E402
from jax import numpy as jnp  # noqa: E402
from jax import random as jr  # noqa: E402

LEVEL = "exploration"
P = "C17/mujoco"
ENVS = (
    "Ant", "HalfCheetah", "Hopper", "Humanoid", "HumanoidStandup", "InvertedDoublePendulum",
    "InvertedPendulum", "Pusher", "Reacher", "Swimmer", "Walker2d",
)
GYM = {
    "Ant": ("ant_v5", "AntEnv"),
    "HalfCheetah": ("half_cheetah_v5", "HalfCheetahEnv"),
    "Hopper": ("hopper_v5", "HopperEnv"),
    "Humanoid": ("humanoid_v5", "HumanoidEnv"),
    "HumanoidStandup": ("humanoidstandup_v5", "HumanoidStandupEnv"),
    "InvertedDoublePendulum": ("inverted_double_pendulum_v5", "InvertedDoublePendulumEnv"),
    "InvertedPendulum": ("inverted_pendulum_v5", "InvertedPendulumEnv"),
    "Pusher": ("pusher_v5", "PusherEnv"),
    "Reacher": ("reacher_v5", "ReacherEnv"),
    "Swimmer": ("swimmer_v5", "SwimmerEnv"),
    "Walker2d": ("walker2d_v5", "Walker2dEnv"),
}
CONTACT_ENVS = ("Ant", "Humanoid", "HumanoidStandup")  # cfrc_ext enters observation / reward
B = 64  # fixed vmap width: one compilation per (environment, options)
TREE_ACTIONS = 4  # alphabet indices 0..3 expand the tree, 4..5 are interior actions
N_ACTIONS = 6

# observation layout of the environments whose reference has no `observation_structure`
MANUAL_LAYOUT = {
    "Reacher": [("cos_theta", 2), ("sin_theta", 2), ("target_qpos", 2), ("qvel", 2), ("fingertip_minus_target", 2)],
    "Pusher": [("qpos", 7), ("qvel", 7), ("tips_arm", 3), ("object", 3), ("goal", 3)],
    "InvertedDoublePendulum": [("cart_x", 1), ("sin_angles", 2), ("cos_angles", 2), ("qvel", 3), ("qfrc_constraint", 1)],
}
# lerax info key -> (gymnasium info key, sign): naming / sign convention of info entries is not pinned
INFO_ALIAS = {
    "InvertedDoublePendulum": {
        "alive_bonus": ("reward_survive", 1.0),
        "dist_penalty": ("distance_penalty", -1.0),
        "vel_penalty": ("velocity_penalty", -1.0),
    }
}
# arrays of the MJX data that are written into the reference's MjData (name -> lives in d._impl?)
INJECT = ("qpos", "qvel", "ctrl", "xpos", "xipos", "xmat", "cinert", "cvel", "qfrc_actuator", "qfrc_constraint",
          "site_xpos", "ten_length", "ten_velocity")
ACTION_COST_KEYS = ("reward_ctrl", "reward_quadctrl")
REWARD_TERM_KEYS = ("reward_forward", "reward_ctrl", "reward_contact", "reward_survive", "reward_linup", "reward_quadctrl", "reward_impact",
                    "reward_dist", "reward_near", "distance_penalty", "velocity_penalty")
IMPL = ("cinert", "ten_velocity", "cfrc_ext")
KINEMATIC = ("xpos", "xipos", "xmat", "cinert", "cvel", "site_xpos", "ten_length", "ten_velocity", "qfrc_actuator")
DERIVED = ("xpos", "xipos", "cinert", "cvel", "site_xpos")  # what forward kinematics fills in


def _opts_key(opts):
    return tuple(sorted((k, tuple(v) if isinstance(v, list) else v) for k, v in (opts or {}).items()))


def _opts_kwargs(opts):
    return {k: (tuple(v) if isinstance(v, list) else v) for k, v in (opts or {}).items()}


def dget(d, name):
    """Array `name` of an mjx.Data (public field or JAX-implementation field)."""
    return getattr(d._impl, name) if name in IMPL else getattr(d, name)


def dset(state, name, value):
    if name in IMPL:
        return eqx.tree_at(lambda s: getattr(s.sim_state._impl, name), state, value)
    return eqx.tree_at(lambda s: getattr(s.sim_state, name), state, value)


# =====================================================================================
# lerax side
# =====================================================================================
class Lx:
    """One (environment, options): the real lerax environment with jitted entry points of fixed width."""

    def __init__(self, name, opts):
        from lerax.env import mujoco as lm
        from mujoco import mjx

        cls = getattr(lm, name)
        env = self.env = cls(**_opts_kwargs(opts))
        self.name = name
        self.xml = os.path.join(os.path.dirname(os.path.abspath(lm.__file__)), "assets",
                                inspect.signature(cls.__init__).parameters["xml_file"].default)
        k0 = jr.key(0)
        self.init = jax.jit(lambda ki: env.initial(key=jr.key(ki)))
        self.trans = jax.jit(jax.vmap(lambda s, a: env.transition(s, a, key=k0)))

        def judge(s, a, s1):
            return dict(
                obs=env.observation(s1, key=k0), reward=env.reward(s, a, s1, key=k0), terminal=env.terminal(s1, key=k0),
                truncate=env.truncate(s1), info=env.transition_info(s, a, s1), dt=s1.t - s.t,
            )

        self.judge = jax.jit(jax.vmap(judge))
        self.obs1 = jax.jit(lambda s: env.observation(s, key=k0))
        if name in CONTACT_ENVS:
            self.rne = jax.jit(jax.vmap(lambda s: mjx.rne_postconstraint(env.model, s.sim_state)._impl.cfrc_ext))
        else:
            self.rne = None

    # ---- batching helpers (states are pure-array pytrees, kept un-batched as numpy on the host) -----
    @staticmethod
    def stack(states):
        n = len(states)
        pad = states + [states[0]] * (B - n)
        return jax.tree.map(lambda *xs: np.stack(xs), *pad)

    @staticmethod
    def unstack(batched, n):
        leaves, treedef = jax.tree.flatten(batched)
        leaves = [np.asarray(l) for l in leaves]
        return [jax.tree.unflatten(treedef, [l[i] for l in leaves]) for i in range(n)]

    def run_trans(self, pres, acts):
        out = []
        for i in range(0, len(pres), B):
            ps, as_ = pres[i : i + B], acts[i : i + B]
            a = np.stack(list(as_) + [as_[0]] * (B - len(as_))).astype(np.float32)
            out += self.unstack(self.trans(self.stack(ps), jnp.asarray(a)), len(ps))
        return out

    def run_judge(self, pres, acts, posts):
        out = []
        for i in range(0, len(pres), B):
            ps, as_, qs = pres[i : i + B], acts[i : i + B], posts[i : i + B]
            a = np.stack(list(as_) + [as_[0]] * (B - len(as_))).astype(np.float32)
            out += self.unstack(self.judge(self.stack(ps), jnp.asarray(a), self.stack(qs)), len(ps))
        return out

    def run_rne(self, posts):
        out = []
        for i in range(0, len(posts), B):
            qs = posts[i : i + B]
            r = np.asarray(self.rne(self.stack(qs)))
            out += [r[j] for j in range(len(qs))]
        return out


_LX: dict = {}


def lx_of(name, opts=None) -> Lx:
    k = (name, _opts_key(opts))
    if k not in _LX:
        _LX[k] = Lx(name, opts)
    return _LX[k]


# =====================================================================================
# reference side
# =====================================================================================
class Ref:
    """gymnasium `*-v5` environment built from lerax's XML; unmodified code, driven by set_state / step."""

    def __init__(self, name, opts, xml):
        import importlib

        import mujoco

        self.mujoco = mujoco
        mod = importlib.import_module(f"gymnasium.envs.mujoco.{GYM[name][0]}")
        with warnings.catch_warnings():
            warnings.simplefilter("ignore")
            self.g = getattr(mod, GYM[name][1])(xml_file=xml, **_opts_kwargs(opts))
        self.name = name
        g = self.g
        self.low = np.asarray(g.action_space.low, dtype=np.float64)
        self.high = np.asarray(g.action_space.high, dtype=np.float64)
        n_obs = int(g.observation_space.shape[0])
        st = getattr(g, "observation_structure", None)
        if name in MANUAL_LAYOUT:
            lay = MANUAL_LAYOUT[name]
        elif st is not None:
            lay = [(k, int(st[k])) for k in ("qpos", "qvel", "cinert", "cvel", "qfrc_actuator", "cfrc_ext") if int(st.get(k, 0)) > 0]
        else:
            raise HarnessError(f"no observation layout for {name}")
        if sum(n for _, n in lay) != n_obs:
            raise HarnessError(f"observation layout of {name} sums to {sum(n for _, n in lay)}, reference observation has {n_obs}")
        self.layout, o = [], 0
        for k, n in lay:
            self.layout.append((k, o, o + n))
            o += n

    # ---- action alphabet (from the reference's action space) -----------------------------------------
    def actions(self):
        lo, hi = self.low, self.high
        n = len(lo)
        alt = np.arange(n) % 2 == 0
        frac = (np.arange(n) * 0.37 + 0.21) % 1.0
        acts = [lo.copy(), hi.copy(), np.where(alt, hi, lo), np.where(alt, lo, hi), np.zeros(n), lo + (hi - lo) * frac]
        return [np.asarray(np.clip(a, lo, hi), dtype=np.float32) for a in acts]

    # ---- driving the reference ---------------------------------------------------------------------------
    def reset_to(self, qpos, qvel):
        g = self.g
        self.mujoco.mj_resetData(g.model, g.data)
        g.set_state(np.asarray(qpos, dtype=np.float64), np.asarray(qvel, dtype=np.float64))

    def write(self, arrays):
        d = self.g.data
        for k, v in arrays.items():
            tgt = getattr(d, k)
            v = np.asarray(v, dtype=np.float64)
            if tgt.size != v.size:
                raise HarnessError(f"array {k}: MJX size {v.shape}, MuJoCo {tgt.shape}")
            if tgt.size:
                tgt[...] = v.reshape(tgt.shape)

    def derived(self):
        d = self.g.data
        return {k: np.array(getattr(d, k), dtype=np.float32) for k in DERIVED}

    def semantic_step(self, action, post_arrays):
        """gymnasium's own step() with the physics replaced by `post_arrays`."""
        g = self.g
        called = []

        def injector(ctrl, n_frames):
            called.append(n_frames)
            self.write(post_arrays)

        g.do_simulation = injector
        try:
            with warnings.catch_warnings():
                warnings.simplefilter("ignore")
                obs, r, term, trunc, info = g.step(np.asarray(action, dtype=np.float64))
        finally:
            del g.do_simulation
        if len(called) != 1:
            raise HarnessError("gymnasium step() did not call do_simulation exactly once")
        info = {k: np.array(v, dtype=np.float64) for k, v in info.items()}  # copies: some entries are live views of MjData
        return np.array(obs, dtype=np.float64), float(r), bool(term), bool(trunc), info

    def conditioning(self, qpos, qvel, action):
        """(does the set of active constraints change during the control step?, how far does the result move when the
        physics step is halved?) - computed on copies / replays of the reference, used only to decide skipping."""
        import copy

        mj, g = self.mujoco, self.g
        if not hasattr(self, "_half"):
            mh = copy.copy(g.model)
            mh.opt.timestep = g.model.opt.timestep / 2
            self._half = (mh, mj.MjData(mh))
        self.reset_to(qpos, qvel)
        d = g.data
        d.ctrl[:] = np.asarray(action, dtype=np.float64)
        active = lambda: tuple(zip(d.efc_type[: d.nefc].tolist(), d.efc_id[: d.nefc].tolist()))
        sets = {active()}
        for _ in range(g.frame_skip):
            mj.mj_step(g.model, d)
            sets.add(active())
        q1, v1 = np.array(d.qpos), np.array(d.qvel)
        mh, dh = self._half
        mj.mj_resetData(mh, dh)
        dh.qpos[:] = qpos
        dh.qvel[:] = qvel
        dh.ctrl[:] = np.asarray(action, dtype=np.float64)
        mj.mj_step(mh, dh, nstep=2 * g.frame_skip)
        rel = lambda x, y: float(np.max(np.abs(x - y) / np.maximum(1.0, np.abs(y))))
        return len(sets) > 1, max(rel(dh.qpos, q1), rel(dh.qvel, v1))

    def real_step(self, action):
        g = self.g
        with warnings.catch_warnings():
            warnings.simplefilter("ignore")
            g.step(np.asarray(action, dtype=np.float64))
        return np.array(g.data.qpos, dtype=np.float64), np.array(g.data.qvel, dtype=np.float64)


_REF: dict = {}


def ref_of(name, opts, xml) -> Ref:
    k = (name, _opts_key(opts), xml)
    if k not in _REF:
        _REF[k] = Ref(name, opts, xml)
    return _REF[k]


def arrays_of(state, cfrc=None):
    d = state.sim_state
    out = {k: np.asarray(dget(d, k)) for k in INJECT}
    if cfrc is not None:
        out["cfrc_ext"] = np.asarray(cfrc)
    return out


# =====================================================================================
# the tree of states
# =====================================================================================
def groups(cases):
    out = {}
    for i, c in enumerate(cases):
        out.setdefault((c["env"], _opts_key(c.get("opts"))), []).append(i)
    return out


def build_states(lx: Lx, acts, need):
    """need: set of (key, seq tuple).  Returns {(key, seq): state} for every needed node (prefixes included)."""
    nodes = set()
    for key, seq in need:
        for j in range(len(seq) + 1):
            nodes.add((key, tuple(seq[:j])))
    states = {}
    for key in sorted({k for k, _ in nodes}):
        states[(key, ())] = jax.tree.map(np.asarray, lx.init(jnp.asarray(key, dtype=jnp.uint32)))
    depth = max(len(s) for _, s in nodes)
    for L in range(1, depth + 1):
        todo = sorted(n for n in nodes if len(n[1]) == L)
        if not todo:
            continue
        pres = [states[(k, s[:-1])] for k, s in todo]
        outs = lx.run_trans(pres, [acts[s[-1]] for _, s in todo])
        for n, st in zip(todo, outs):
            states[n] = st
    return states


def apply_poke(state, poke):
    """poke = [[array name, index list, value], ...] written into the (post-step) state."""
    for name, idx, val in poke or ():
        arr = np.array(dget(state.sim_state, name))
        arr[tuple(idx)] = np.float32(val)
        state = dset(state, name, arr)
    return state


def complete_pre(state, derived):
    for k, v in derived.items():
        cur = np.asarray(dget(state.sim_state, k))
        if cur.size:
            state = dset(state, k, np.asarray(v, dtype=np.float32).reshape(cur.shape))
    return state


def close(got, ref, tol=1e-4, floor=1.0, absolute=0.0):
    """|got - ref| <= tol * max(floor, |ref|) + absolute, elementwise (equal infinities / NaNs agree)."""
    got = np.asarray(got, dtype=np.float64)
    ref = np.asarray(ref, dtype=np.float64)
    if got.shape != ref.shape:
        return False
    with np.errstate(invalid="ignore"):
        ok = (np.abs(got - ref) <= tol * np.maximum(floor, np.abs(ref)) + absolute) | (got == ref) | (np.isnan(got) & np.isnan(ref))
    return bool(np.all(ok))


def worst(got, ref):
    got = np.asarray(got, dtype=np.float64).reshape(-1)
    ref = np.asarray(ref, dtype=np.float64).reshape(-1)
    if got.shape != ref.shape:
        return f"shapes {got.shape} vs {ref.shape}"
    with np.errstate(invalid="ignore"):
        d = np.where(got == ref, 0.0, np.abs(got - ref))
    j = int(np.nanargmax(d)) if d.size else 0
    return f"entry {j}: lerax {got[j]:.7g} reference {ref[j]:.7g}" if d.size else "empty"


def case_label(c):
    o = c.get("opts")
    return f"{c['env']}{'(' + ', '.join(f'{k}={v}' for k, v in sorted(o.items())) + ')' if o else ''} key({c['key']}) actions {list(c.get('seq', []))}"


def cov_key(c):
    return (c["env"], str(_opts_key(c.get("opts"))), c["key"], tuple(c.get("seq", ())), c.get("a", -1), str(c.get("poke", "")))


# =====================================================================================
# clause: reset layer
# =====================================================================================
def clause_reset(cases, ctx: Ctx):
    """case {env, opts, key}: observation of the reset state vs the reference's observation of the same qpos/qvel."""
    out = []
    for (name, ok), idx in groups(cases).items():
        opts = dict(ok)
        lx = lx_of(name, opts)
        rf = ref_of(name, opts, lx.xml)
        lo, hi = np.asarray(lx.env.action_space.low, dtype=np.float64), np.asarray(lx.env.action_space.high, dtype=np.float64)
        if lo.shape != rf.low.shape or np.any(lo != rf.low) or np.any(hi != rf.high):
            out.append((idx[0], f"{P}/{name}/reset/action-space/bounds", f"{name} action bounds lerax [{lo.tolist()}, {hi.tolist()}], reference [{rf.low.tolist()}, {rf.high.tolist()}]"))
        for i in idx:
            c = cases[i]
            s = jax.tree.map(np.asarray, lx.init(jnp.asarray(c["key"], dtype=jnp.uint32)))
            d = s.sim_state
            got = np.asarray(lx.obs1(s), dtype=np.float64)
            rf.reset_to(d.qpos, d.qvel)
            ref = np.asarray(rf.g._get_obs(), dtype=np.float64)
            if float(np.asarray(s.t)) != 0.0:
                out.append((i, f"{P}/{name}/reset/clock-not-zero", f"{case_label(c)}: t = {float(np.asarray(s.t))}"))
            if got.shape != ref.shape:
                out.append((i, f"{P}/{name}/reset/observation/shape", f"{case_label(c)}: lerax observation shape {got.shape}, reference {ref.shape}"))
                continue
            ctx.outcome(f"mujoco:reset:{name}", c["key"])
            fwd = None
            for sl, a, b in rf.layout:
                if close(got[a:b], ref[a:b]):
                    continue
                if fwd is None:  # classification only: lerax's observation of the state completed by the reference's kinematics
                    fwd = np.asarray(lx.obs1(complete_pre(s, rf.derived())), dtype=np.float64)
                cls = "stale-kinematics-at-reset" if close(fwd[a:b], ref[a:b]) else "differs"
                out.append((i, f"{P}/{name}/reset/observation/{sl}/{cls}",
                            f"{case_label(c)}: reset observation slice '{sl}' [{a}:{b}] {worst(got[a:b], ref[a:b])} "
                            f"(lerax slice {np.round(got[a:b], 5).tolist()[:6]}.., reference {np.round(ref[a:b], 5).tolist()[:6]}..)"
                            + ("; equal once forward kinematics is applied to the reset state" if cls.startswith("stale") else "")))
    return out


# =====================================================================================
# clause: semantic layer
# =====================================================================================
def _info_items(name, info):
    """(lerax key, reference key, sign) for every lerax info entry; reference key None if unknown there."""
    alias = INFO_ALIAS.get(name, {})
    return [(k,) + tuple(alias.get(k, (k, 1.0))) for k in sorted(info)]


def clause_semantic(cases, ctx: Ctx):
    """case {env, opts, key, seq, a, poke?}: the transition (state after seq) --a--> judged by gymnasium's step()."""
    out = []
    for (name, ok), idx in groups(cases).items():
        opts = dict(ok)
        lx = lx_of(name, opts)
        rf = ref_of(name, opts, lx.xml)
        acts = rf.actions()
        need = {(cases[i]["key"], tuple(cases[i]["seq"]) + (cases[i]["a"],)) for i in idx}
        states = build_states(lx, acts, need)
        pres = [states[(cases[i]["key"], tuple(cases[i]["seq"]))] for i in idx]
        posts = [apply_poke(states[(cases[i]["key"], tuple(cases[i]["seq"]) + (cases[i]["a"],))], cases[i].get("poke")) for i in idx]
        avec = [acts[cases[i]["a"]] for i in idx]
        v0 = lx.run_judge(pres, avec, posts)
        cfrc = lx.run_rne(posts) if lx.rne is not None else [None] * len(idx)
        # reference verdicts + completed pre-states (reset cases only)
        refs, pres_c = [], []
        for r, i in enumerate(idx):
            c = cases[i]
            pre = pres[r]
            if len(c["seq"]) == 0:
                rf.reset_to(pre.sim_state.qpos, pre.sim_state.qvel)
                pres_c.append(complete_pre(pre, rf.derived()))
            else:
                rf.mujoco.mj_resetData(rf.g.model, rf.g.data)
                rf.write(arrays_of(pre))
                pres_c.append(pre)
            refs.append(rf.semantic_step(avec[r], arrays_of(posts[r], cfrc[r])))
        # classification variants: V1 = completed pre-state, V2 = V1 + cfrc_ext filled in
        posts_c = [dset(p, "cfrc_ext", np.asarray(f, dtype=np.float32)) if f is not None else p for p, f in zip(posts, cfrc)]
        reset_rows = [r for r, i in enumerate(idx) if len(cases[i]["seq"]) == 0]
        v1 = list(v0)
        if reset_rows:
            for r, v in zip(reset_rows, lx.run_judge([pres_c[r] for r in reset_rows], [avec[r] for r in reset_rows], [posts[r] for r in reset_rows])):
                v1[r] = v
        v2 = lx.run_judge(pres_c, avec, posts_c) if lx.rne is not None else v1
        for r, i in enumerate(idx):
            out += _judge_semantic(ctx, name, rf, cases[i], i, v0[r], v1[r], v2[r], refs[r], cfrc[r], posts[r])
    return out


def _judge_semantic(ctx, name, rf, c, i, v0, v1, v2, ref, cfrc, post):
    out = []
    obs_ref, r_ref, term_ref, trunc_ref, info_ref = ref
    lab = case_label(c) + f" then action #{c['a']}" + (f" poke {c['poke']}" if c.get("poke") else "")
    k = cov_key(c)
    first = len(c["seq"]) == 0
    ctx.outcome(f"mujoco:semantic:{name}", k)
    if first:
        ctx.outcome(f"mujoco:first-step:{name}", k)
    if cfrc is not None and float(np.max(np.abs(cfrc))) > 1e-3:
        ctx.outcome(f"mujoco:in-contact:{name}", k)
    if term_ref:
        ctx.outcome(f"mujoco:terminated:{name}", k)
    if "reward_survive" in info_ref and float(info_ref["reward_survive"]) == 0.0:
        ctx.outcome(f"mujoco:unhealthy:{name}", k)
    qv = np.asarray(post.sim_state.qvel)
    if name in ("Hopper", "Walker2d", "InvertedDoublePendulum") and np.any(np.abs(qv) > 10.0):
        ctx.outcome(f"mujoco:velocity-clip-active:{name}", k)

    def classify(ok0, ok1, ok2, pre_mattered, cfrc_mattered):
        # names the cause of a mismatch of the un-completed evaluation V0; V1 / V2 never decide pass or fail of V0
        if ok0:
            return None if ok2 else "with-contact-forces-supplied"
        if first and ok1:
            return "stale-kinematics-at-reset"
        if ok2:
            return "stale-kinematics-at-reset+cfrc_ext-not-computed" if (first and pre_mattered) else "cfrc_ext-not-computed"
        return "differs-even-with-contact-forces-supplied" if cfrc_mattered else "differs"

    def report(quantity, get, refval, what, floor=1.0, absolute=0.0):
        g0, g1, g2 = get(v0), get(v1), get(v2)
        ok0, ok2 = close(g0, refval, 1e-4, floor, absolute), close(g2, refval, 1e-4, floor, absolute)
        ok1 = True
        if not ok0:  # "does the completion repair it" is asked strictly, so that a class never hinges on the pass/fail tolerance
            ok1, ok2 = (close(g, refval, 1e-5, floor, absolute / 10) for g in (g1, g2))
        cls = classify(ok0, ok1, ok2, not close(g1, g0, 1e-7), not close(g2, g1, 1e-7))
        if cls is None:
            return False
        shown = g2 if cls == "with-contact-forces-supplied" else g0
        out.append((i, f"{P}/{name}/step/{quantity}/{cls}", f"{lab}: {what} {worst(shown, refval)}"
                    + {"stale-kinematics-at-reset": "; equal once the reset state carries forward kinematics",
                       "cfrc_ext-not-computed": "; equal once cfrc_ext = mjx.rne_postconstraint(...) is supplied",
                       "differs-even-with-contact-forces-supplied": f"; with cfrc_ext = mjx.rne_postconstraint(...) supplied still {worst(g2, refval)}",
                       "with-contact-forces-supplied": " (lerax evaluated on its own state with cfrc_ext = mjx.rne_postconstraint(...) supplied)"}.get(cls, "")))
        return True

    # observation, slice by slice
    if np.asarray(v0["obs"]).shape != obs_ref.shape:
        out.append((i, f"{P}/{name}/step/observation/shape", f"{lab}: lerax observation shape {np.asarray(v0['obs']).shape}, reference {obs_ref.shape}"))
    else:
        for sl, a, b in rf.layout:
            report(f"observation/{sl}", lambda v, a=a, b=b: np.asarray(v["obs"])[a:b], obs_ref[a:b], f"observation slice '{sl}' [{a}:{b}]")
    # reward and reward terms: tolerance relative to the size of the reference's own reward terms (a reward made of small
    # terms is judged finely), plus 2e-5 absolute for float32 centre-of-mass differences divided by dt
    terms = [abs(float(v)) for kk, v in info_ref.items() if kk in REWARD_TERM_KEYS and np.ndim(v) == 0]
    rfloor = min(1.0, sum(terms)) if terms else 1.0
    # info entries present on both sides
    comp_bad = False
    for lk, gk, sign in _info_items(name, v0["info"]):
        if gk not in info_ref:
            ctx.outcome(f"mujoco:info-only-in-lerax:{name}:{lk}", 1)
            continue
        # pure action costs are judged relatively (their weights are as small as 1e-4); reward terms like the reward itself; the rest at max(1, |ref|)
        fl, ab = (0.0, 1e-7) if gk in ACTION_COST_KEYS else (rfloor, 2e-5) if gk in REWARD_TERM_KEYS else (1.0, 0.0)
        bad = report(f"info/{lk}", lambda v, lk=lk: np.asarray(v["info"][lk]), sign * np.asarray(info_ref[gk], dtype=np.float64), f"info['{lk}'] (reference info['{gk}'])", fl, ab)
        comp_bad = comp_bad or bad
    for gk in info_ref:
        if gk not in {g for _, g, _ in _info_items(name, v0["info"])}:
            ctx.outcome(f"mujoco:info-only-in-reference:{name}:{gk}", 1)
    # reward: reported on its own only when no info entry already explains it
    n_before = len(out)
    if report("reward", lambda v: np.asarray(v["reward"]), r_ref, "reward", rfloor, 2e-5) and comp_bad:
        del out[n_before:]
    # termination / truncation
    for v, cls in ((v0, None), (v2, "with-contact-forces-supplied")):
        if bool(np.asarray(v["terminal"])) != term_ref:
            side = "reference-terminates-lerax-does-not" if term_ref else "lerax-terminates-reference-does-not"
            out.append((i, f"{P}/{name}/step/terminated/{side}" + (f"/{cls}" if cls else ""), f"{lab}: gymnasium terminated={term_ref}, lerax terminal={bool(np.asarray(v['terminal']))}"))
            break
    if bool(np.asarray(v0["truncate"])) != trunc_ref:
        out.append((i, f"{P}/{name}/step/truncated", f"{lab}: gymnasium truncated={trunc_ref}, lerax truncate={bool(np.asarray(v0['truncate']))}"))
    return out


# =====================================================================================
# clause: transition layer
# =====================================================================================
def clause_transition(cases, ctx: Ctx):
    """case {env, opts, key, seq (len <= 1), a}: one real control step on both sides from the same qpos/qvel."""
    out = []
    for (name, ok), idx in groups(cases).items():
        opts = dict(ok)
        lx = lx_of(name, opts)
        rf = ref_of(name, opts, lx.xml)
        acts = rf.actions()
        need = {(cases[i]["key"], tuple(cases[i]["seq"]) + (cases[i]["a"],)) for i in idx}
        states = build_states(lx, acts, need)
        for i in idx:
            c = cases[i]
            if len(c["seq"]) > 1:
                raise HarnessError("transition layer is defined from reset and depth-1 states only")
            pre = states[(c["key"], tuple(c["seq"]))]
            post = states[(c["key"], tuple(c["seq"]) + (c["a"],))]
            a = acts[c["a"]]
            q0, v0 = np.asarray(pre.sim_state.qpos, dtype=np.float64), np.asarray(pre.sim_state.qvel, dtype=np.float64)
            changed, disc = rf.conditioning(q0, v0, a)  # harness-side analysis of the reference only (decides skipping, never a verdict)
            pert = 1e-6 * np.where(np.arange(len(q0)) % 2 == 0, 1.0, -1.0)
            rf.reset_to(q0 + pert, v0)
            q_p, v_p = rf.real_step(a)
            rf.reset_to(q0, v0)
            q_ref, v_ref = rf.real_step(a)  # last, so that the reference's MjData holds the unperturbed result below
            k = cov_key(c)
            sens = max(float(np.max(np.abs(q_p - q_ref) / np.maximum(1.0, np.abs(q_ref)))), float(np.max(np.abs(v_p - v_ref) / np.maximum(1.0, np.abs(v_ref)))))
            tol = 1e-3 + 20.0 * sens  # the reference's own conditioning widens the tolerance, deterministically
            if not (sens <= 1e-2):
                ctx.outcome(f"mujoco:transition-skipped-ill-conditioned:{name}", k)
                continue
            if changed and disc > 3e-4:
                # a constraint (contact, joint limit) switches on or off inside this control step AND the reference's own result
                # depends on its step size there: an impact.  MJX and MuJoCo-C legitimately diverge on such steps.
                ctx.outcome(f"mujoco:transition-skipped-impact:{name}", k)
                continue
            ctx.outcome(f"mujoco:transition:{name}", k)
            lab = case_label(c) + f" then action #{c['a']}"
            q1, v1 = np.asarray(post.sim_state.qpos, dtype=np.float64), np.asarray(post.sim_state.qvel, dtype=np.float64)
            if not close(q1, q_ref, tol):
                out.append((i, f"{P}/{name}/transition/qpos", f"{lab}: post-step qpos {worst(q1, q_ref)} (tolerance {tol:.2e} relative)"))
            if not close(v1, v_ref, tol):
                out.append((i, f"{P}/{name}/transition/qvel", f"{lab}: post-step qvel {worst(v1, v_ref)} (tolerance {tol:.2e} relative)"))
            # every derived array the semantic functions read, as left behind by the real step on both sides
            for arr in KINEMATIC:
                refa = np.asarray(getattr(rf.g.data, arr), dtype=np.float64).reshape(-1)
                if refa.size and not close(np.asarray(dget(post.sim_state, arr), dtype=np.float64).reshape(-1), refa, tol):
                    out.append((i, f"{P}/{name}/transition/{arr}", f"{lab}: post-step {arr} {worst(np.asarray(dget(post.sim_state, arr)), refa)} (tolerance {tol:.2e} relative)"))
            refa = np.asarray(rf.g.data.qfrc_constraint, dtype=np.float64)
            if refa.size and not close(np.asarray(post.sim_state.qfrc_constraint, dtype=np.float64), refa, 5e-2 + 20.0 * sens, max(1.0, float(np.max(np.abs(refa))))):
                out.append((i, f"{P}/{name}/transition/qfrc_constraint", f"{lab}: post-step qfrc_constraint {worst(post.sim_state.qfrc_constraint, refa)} (5e-2 of the largest entry)"))
            if lx.rne is not None:  # premise of the semantic layer, recorded, never judged: MJX's rne_postconstraint vs mj_rnePostConstraint
                refa = np.asarray(rf.g.data.cfrc_ext, dtype=np.float64)
                if float(np.max(np.abs(refa))) > 1e-3:
                    agree = close(lx.run_rne([post])[0], refa, 5e-2, max(1.0, float(np.max(np.abs(refa)))))
                    ctx.outcome(f"mujoco:rne_postconstraint-{'agrees-with' if agree else 'DIFFERS-from'}-mj_rnePostConstraint:{name}", k)
            dt = float(np.asarray(post.t)) - float(np.asarray(pre.t))
            if abs(dt - rf.g.dt) > 1e-6:
                out.append((i, f"{P}/{name}/transition/control-interval", f"{lab}: lerax clock advanced by {dt}, reference dt = {rf.g.dt}"))
            if abs(float(np.asarray(lx.env.dt)) - rf.g.dt) > 1e-7:
                out.append((i, f"{P}/{name}/transition/dt-attribute", f"{name}: env.dt = {float(np.asarray(lx.env.dt))}, reference dt = {rf.g.dt}"))
    return out


def clause_layers(cases, ctx: Ctx):
    """dispatcher: case['layer'] in {reset, semantic, transition}; one worker handles one environment completely."""
    out = []
    for layer, fn in (("reset", clause_reset), ("semantic", clause_semantic), ("transition", clause_transition)):
        idx = [i for i, c in enumerate(cases) if c["layer"] == layer]
        if idx:
            out += [(idx[j], s, m) for (j, s, m) in fn([cases[i] for i in idx], ctx)]
    bad = [c["layer"] for c in cases if c["layer"] not in ("reset", "semantic", "transition")]
    if bad:
        raise HarnessError(f"unknown layer {bad[0]}")
    return out


CLAUSES = {
    "mujoco_reset": clause_reset,
    "mujoco_semantic": clause_semantic,
    "mujoco_transition": clause_transition,
    "mujoco_layers": clause_layers,
}


# =====================================================================================
# enumeration
# =====================================================================================
def f32v(x):
    return float(np.float32(x))


def threshold_pokes(name, opts, xml):
    """Pokes straddling every documented threshold of the reference (read from its public parameters):
    offsets +-1e-3, +-1e-2 around each finite threshold, the threshold itself when it is exactly
    representable in float32 (otherwise equality is a rounding question, not a semantic one)."""
    g = ref_of(name, opts, xml).g
    offs = (-1e-2, -1e-3, 1e-3, 1e-2)

    def around(arr, idx, th):
        if not math.isfinite(th):
            return []
        vals = [th + o for o in offs] + ([th] if f32v(th) == th else [])
        return [[[arr, list(idx), f32v(v)]] for v in vals]

    pokes = []
    if name == "Ant":
        for th in g._healthy_z_range:
            pokes += around("qpos", (2,), th)
        pokes += [[["qvel", [3], "inf"]]]
    elif name == "Humanoid":
        for th in g._healthy_z_range:
            pokes += around("qpos", (2,), th)
    elif name in ("Hopper", "Walker2d"):
        for th in g._healthy_z_range:
            pokes += around("qpos", (1,), th)
        for th in g._healthy_angle_range:
            pokes += around("qpos", (2,), th)
        if name == "Hopper":
            for th in g._healthy_state_range:
                pokes += around("qvel", (4,), th) + around("qpos", (3,), th)
        for v in (9.99, 10.01, -10.01, 50.0):
            pokes += [[["qvel", [3], f32v(v)]]]
    elif name == "InvertedPendulum":
        for th in (-0.2, 0.2):
            pokes += around("qpos", (1,), th)
        pokes += [[["qvel", [1], "inf"]]]
    elif name == "InvertedDoublePendulum":
        pokes += around("site_xpos", (0, 2), 1.0)
        for v in (9.99, 10.01, -10.01, 50.0):
            pokes += [[["qvel", [1], f32v(v)]]]
        for v in (9.5, 10.5, -12.0):
            pokes += [[["qfrc_constraint", [0], f32v(v)]]]
    return pokes


def configs_for(name, thorough):
    cfgs = [None]
    if not thorough:
        return cfgs
    if name in ("Ant", "HalfCheetah", "Hopper", "Humanoid", "HumanoidStandup", "Swimmer", "Walker2d"):
        cfgs.append({"exclude_current_positions_from_observation": False})
    if name in ("Ant", "Hopper", "Humanoid", "Walker2d"):
        cfgs.append({"terminate_when_unhealthy": False})
    if name == "Ant":
        cfgs.append({"include_cfrc_ext_in_observation": False})
        cfgs.append({"healthy_z_range": [0.25, 0.75], "contact_force_range": [-0.5, 2.0]})
    if name in ("Humanoid", "HumanoidStandup"):
        for o in ("include_cinert_in_observation", "include_cvel_in_observation", "include_qfrc_actuator_in_observation", "include_cfrc_ext_in_observation"):
            cfgs.append({o: False})
    if name == "Humanoid":
        cfgs.append({"healthy_z_range": [1.25, 1.5], "contact_cost_range": [-1.0, 0.5]})
    if name == "HumanoidStandup":
        cfgs.append({"impact_cost_range": [-1.0, 0.0625]})
    if name == "Hopper":
        cfgs.append({"healthy_z_range": [0.75, 1.5], "healthy_angle_range": [-0.25, 0.125], "healthy_state_range": [-50.0, 64.0]})
    if name == "Walker2d":
        cfgs.append({"healthy_z_range": [0.75, 1.5], "healthy_angle_range": [-0.5, 0.25]})
    return cfgs


def cases_for(name, opts, keys, depth, xml):
    def mk(layer, **kw):
        c = {"layer": layer, "env": name, **kw}
        if opts:
            c["opts"] = opts
        return c

    cases = [mk("reset", key=k) for k in keys]
    seqs = [s for L in range(depth + 1) for s in itertools.product(range(TREE_ACTIONS), repeat=L)]
    for k in keys:
        for s in seqs:
            for a in range(N_ACTIONS):
                cases.append(mk("semantic", key=k, seq=list(s), a=a))
                if len(s) <= 1:
                    cases.append(mk("transition", key=k, seq=list(s), a=a))
    pokes = threshold_pokes(name, opts, xml)
    for k in keys[:2]:
        for s, a in (((), 5), ((0,), 4), ((1, 2), 5)):
            for p in pokes:
                cases.append(mk("semantic", key=k, seq=list(s), a=a, poke=p))
    return cases


def lerax_xml(name):
    from lerax.env import mujoco as lm

    return os.path.join(os.path.dirname(os.path.abspath(lm.__file__)), "assets",
                        inspect.signature(getattr(lm, name).__init__).parameters["xml_file"].default)


def explore_mujoco(ctx: Ctx):
    thorough = ctx.tier == "thorough"
    nk = 6 if thorough else 2
    depth = 3
    keys = key_ints(ctx.seed, nk)
    only = [e for e in os.environ.get("VERIF_C17_ENVS", "").split(",") if e]
    envs = [e for e in ENVS if not only or e in only]
    cases, counts = [], {}
    for name in envs:
        xml = lerax_xml(name)
        for opts in configs_for(name, thorough):
            cs = cases_for(name, opts, keys, depth, xml)
            counts[f"{name}{_opts_key(opts) if opts else ''}"] = len(cs)
            cases += cs
        if not thorough:
            # quick tier: every documented non-default option is still compared at the reset layer (observation layout /
            # size against gymnasium built with the same option) - one key, no stepping, so it stays cheap
            for opts in configs_for(name, True)[1:]:
                cs = [c for c in cases_for(name, opts, keys[:1], 0, xml) if c["layer"] == "reset"]
                counts[f"{name}{_opts_key(opts)}(reset only)"] = len(cs)
                cases += cs
    gk = (lambda c: c["env"] + str(_opts_key(c.get("opts")))) if thorough else (lambda c: c["env"])
    ctx.run_parallel("mujoco_layers", cases, workers=8, group_key=gk, threads=2)
    for c in cases:
        ctx.nontriv(("mujoco",) + cov_key(c) + (c["layer"],))
    ctx.states += len({(c["env"], str(_opts_key(c.get("opts"))), c["key"], tuple(c.get("seq", ()))) for c in cases})
    ctx.transitions += sum(1 for c in cases if c["layer"] != "reset")
    for cat, vals in sorted(ctx.outcomes.items()):
        if cat.startswith("mujoco:"):
            ctx.guard(cat, len(vals))
    req = []
    for name in envs:
        att = sum(len(v) for cat, v in ctx.outcomes.items() if cat in (f"mujoco:transition:{name}", f"mujoco:transition-skipped-impact:{name}", f"mujoco:transition-skipped-ill-conditioned:{name}"))
        ctx.guard(f"mujoco:transition-attempted:{name}", att)
        # HumanoidStandup lies on the ground: nearly every control step changes its contact set, so only "attempted" is demanded there
        req += [f"mujoco:reset:{name}", f"mujoco:semantic:{name}", f"mujoco:first-step:{name}",
                f"mujoco:transition-attempted:{name}" if name == "HumanoidStandup" else f"mujoco:transition:{name}"]
    for name in envs:
        if name in CONTACT_ENVS:
            req.append(f"mujoco:in-contact:{name}")
        if name in ("Ant", "Hopper", "Humanoid", "Walker2d", "InvertedPendulum", "InvertedDoublePendulum"):
            req += [f"mujoco:terminated:{name}"]
        if name in ("Ant", "Hopper", "Humanoid", "Walker2d"):
            req += [f"mujoco:unhealthy:{name}"]
        if name in ("Hopper", "Walker2d", "InvertedDoublePendulum"):
            req.append(f"mujoco:velocity-clip-active:{name}")
    ctx.require(*req)
    ctx.notes["mujoco_case_counts"] = counts
    ctx.notes["mujoco_keys"] = nk
    ctx.notes["mujoco_tree"] = {"depth": depth, "tree_actions": TREE_ACTIONS, "judged_actions": N_ACTIONS}
    rule = (
        f"MuJoCo: for each of the 11 MJX environments and each option set, the tree of states initial(key(k)), k in K (|K|={nk}), "
        f"expanded by every sequence of the 4 corner actions (all-low, all-high, two alternating) to depth {depth}; every tree state is "
        "judged with all 6 actions (corners, zero, one fixed interior vector) in the semantic layer, reset states in the reset layer, "
        "reset and depth-1 states in the transition layer; plus poked post-step states straddling every documented threshold. "
        "non-trivial = every such (environment, options, key, action sequence, action[, poke]) point (each is one real lerax transition "
        "judged by gymnasium's own step())"
    )
    ctx.rule = (ctx.rule + " || " if ctx.rule else "") + rule
    ctx.assumptions += [
        "mujoco: the reference is gymnasium 1.3.0's *-v5 class constructed with lerax's XML file (same physical model); its step()/_get_obs() run unmodified, only do_simulation is replaced per instance by an injector of lerax's post-step arrays (semantic layer)",
        "mujoco: injected contact forces are mjx.rne_postconstraint(model, data).cfrc_ext of lerax's own post-step state, not lerax's stored cfrc_ext",
        "mujoco: before a step the reference holds what gymnasium would hold: its own mj_forward of qpos/qvel after a reset, lerax's post-step arrays (kinematics lagging one physics step, as in mj_step) afterwards",
        "mujoco: poked states overwrite one coordinate of the post-step arrays identically on both sides; they straddle thresholds at +-1e-3, +-1e-2 and hit a threshold exactly only when it is float32-representable",
        "mujoco: info entries are compared when both sides report them (InvertedDoublePendulum: alive_bonus/dist_penalty/vel_penalty vs reward_survive/-distance_penalty/-velocity_penalty; names and sign convention are not pinned); entries only one side reports are listed in the evidence, not judged",
        "mujoco: full step-vs-step comparison (transition layer) only from reset and depth-1 states at (1e-3 + 20 x the reference's own movement under a 1e-6 perturbation) relative, on qpos/qvel and the derived arrays; MJX and MuJoCo-C legitimately diverge when contacts form, so impacts (the reference's active-constraint set changes inside the control step and its result moves > 3e-4 when its physics step is halved) and starts with sensitivity > 1e-2 are skipped and counted (HumanoidStandup: nearly every step changes the contact set, only a handful of its steps are judged in this layer); deeper physics is not compared",
        "mujoco: semantic tolerances: 1e-4 * max(1, |ref|) for observations and info entries; reward and reward terms 1e-4 * max(min(1, sum of |reference reward terms|), |ref|) + 2e-5; pure action costs 1e-4 relative",
        "mujoco: only in-range actions; reset distributions of the MuJoCo environments are not compared (the statement asks for equal observation/reward/termination from the same state)",
        f"mujoco: decided on the key alphabet K of {nk} integers and action trees of depth {depth}; float32 (MJX) vs float64 (reference) at 1e-4 relative",
    ]
