"""C17 - built-in environments realise their Gymnasium reference MDPs.

Combined module: the classic-control half (mc/props/c17_classic.py, signatures C17/classic/...) and the
MuJoCo half (mc/props/c17_mujoco.py, signatures C17/mujoco/<Env>/...).  Both halves append to
ctx.rule / ctx.assumptions / ctx.notes and register their own vacuity guards; worker processes of the
MuJoCo half import this module and look their clause up in CLAUSES.
"""

from __future__ import annotations

from mc.core import Ctx
from mc.props import c17_classic, c17_mujoco

LEVEL = "exploration"
CLAUSES = {**c17_classic.CLAUSES, **c17_mujoco.CLAUSES}


def explore(ctx: Ctx):
    import os

    half = os.environ.get("VERIF_C17_HALF", "")  # development switch only: "classic" | "mujoco"; default runs both
    if half not in ("", "classic", "mujoco"):
        raise ValueError(f"VERIF_C17_HALF={half!r}")
    if half in ("", "classic"):
        c17_classic.explore_classic(ctx)
    if half in ("", "mujoco"):
        c17_mujoco.explore_mujoco(ctx)
    if half:
        ctx.notes["half_only"] = half
        ctx.exhaustive = False
