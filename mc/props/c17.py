from mc.props.c17_classic import CLAUSES; LEVEL="exploration"; from mc.props.c17_classic import explore_classic as explore
