"""C01 - Gym-style step/reset honours episode boundaries (auto-reset contract).

(a) tabular MDPs x wrapper stacks: explicit-state BFS with the real env.step (mc.wrapx), in-space
    actions only, reference MDP with auto-reset;
(b) the five classic-control environments, bare and under TimeLimit(3): complete action trees from
    reset states and from hand-placed near-terminal states; oracle = the functional decomposition
    (transition/reward/terminal/truncate called separately) + initial-state predicates;
(c) the same tabular MDPs seen through LeraxToGymEnv (all action sequences to a depth).
"""

from __future__ import annotations

import itertools
import json

import equinox as eqx
import jax
import numpy as np
from jax import numpy as jnp
from jax import random as jr

from mc import wrapx
from mc.core import Ctx, key_ints
from mc.props.c13 import clause_stack as _stack_c13
from mc.props.c13 import tables

LEVEL = "model_checking"


def clause_stack(cases, ctx: Ctx):
    return _stack_c13(cases, ctx, pid="C01", in_space_only=True)


# ---------------------------------------------------------------------------------------
# (b) classic control
# ---------------------------------------------------------------------------------------
def make_classic(name: str, tl: int | None):
    from lerax.env import classic_control as cc
    from lerax.wrapper import TimeLimit

    env = getattr(cc, name)()
    if tl:
        env = TimeLimit(env, tl)
    return env


RESET_BOX = {  # documented reset boxes (lerax docs / gymnasium), used only as "is an initial state" predicate
    "CartPole": ([-0.05] * 4, [0.05] * 4),
    "MountainCar": ([-0.6, 0.0], [-0.4, 0.0]),
    "ContinuousMountainCar": ([-0.6, 0.0], [-0.4, 0.0]),
    "Acrobot": ([-0.1] * 4, [0.1] * 4),
    "Pendulum": ([-np.pi, -1.0], [np.pi, 1.0]),
}

NEAR_TERMINAL = {  # hand-placed states one step away from a true termination
    "CartPole": [[0.0, 0.0, 0.205, 0.5], [2.39, 1.0, 0.0, 0.0], [0.0, 0.0, -0.208, -0.3]],
    "MountainCar": [[0.49, 0.05], [0.44, 0.06]],
    "ContinuousMountainCar": [[0.49, 0.05], [0.44, 0.06]],
    "Acrobot": [[2.0, 0.5, 2.0, 1.0], [-2.4, 0.2, -1.0, -2.0]],
    "Pendulum": [],
}


def classic_actions(name):
    if name in ("CartPole",):
        return [0, 1]
    if name in ("MountainCar", "Acrobot"):
        return [0, 1, 2]
    if name == "Pendulum":
        return [-2.0, 0.0, 2.0]
    return [-1.0, 0.0, 1.0]


_CL = {}


def classic_runner(name, tl):
    k = (name, tl)
    if k not in _CL:
        env = make_classic(name, tl)

        @eqx.filter_jit
        def reset(keys):
            return jax.vmap(lambda kk: env.reset(key=kk))(keys)

        @eqx.filter_jit
        def step(states, actions, keys):
            def one(st, a, kk):
                out = env.step(st, a, key=kk)
                k2 = jr.fold_in(kk, 99)
                nxt = env.transition(st, a, key=kk)
                nxt2 = env.transition(st, a, key=k2)
                parts = dict(
                    next=nxt, next_other_key=nxt2, reward=env.reward(st, a, nxt, key=kk), reward_other_key=env.reward(st, a, nxt, key=k2),
                    terminal=env.terminal(nxt, key=kk), truncate=env.truncate(nxt), obs_next=env.observation(nxt, key=kk),
                )
                obs_of_returned = env.observation(out[0], key=k2)
                return out, parts, obs_of_returned

            return jax.vmap(one)(states, actions, keys)

        _CL[k] = (env, reset, step)
    return _CL[k]


def clause_classic(cases, ctx: Ctx):
    """case: {env, tl, key, start: None | y-list, depth}; explores the complete action tree."""
    out = []
    for ci, c in enumerate(cases):
        name, tl, depth = c["env"], c.get("tl"), c["depth"]
        env, reset, step = classic_runner(name, tl)
        acts = classic_actions(name)
        fl = isinstance(acts[0], float)
        lo, hi = (np.asarray(v) for v in RESET_BOX[name])

        def is_initial(st):
            base = st.env_state if tl else st
            y = np.asarray(base.y)
            ok = np.all(y >= lo - 1e-6, axis=1) & np.all(y <= hi + 1e-6, axis=1) & (np.asarray(base.t) == 0)
            if tl:
                ok = ok & (np.asarray(st.step_count) == 0)
            return ok

        st, ob, info = reset(jax.vmap(jr.key)(jnp.asarray([c["key"]])))
        if not is_initial(st)[0]:
            out.append((ci, "C01/classic/reset/state-not-initial", f"{name} tl={tl}: reset state {jax.tree.map(np.asarray, st)}"))
        if c.get("start") is not None:
            base = st.env_state if tl else st
            nb = eqx.tree_at(lambda b: b.y, base, jnp.asarray([c["start"]], dtype=float))
            st = eqx.tree_at(lambda s: s.env_state, st, nb) if tl else nb
        frontier = st
        nodes = 1
        for d in range(depth):
            F = jax.tree.leaves(frontier)[0].shape[0]
            si = np.repeat(np.arange(F), len(acts))
            a = jnp.asarray(np.tile(np.asarray(acts), F), dtype=float if fl else int)
            states = jax.tree.map(lambda x: x[si], frontier)
            keys = jax.vmap(lambda i: jr.fold_in(jr.key(c["key"]), i))(jnp.arange(d * 100000, d * 100000 + len(si)))
            (nst, nob, rew, term, trunc, info), parts, obs_ret = step(states, a, keys)
            n = len(si)
            ctx.transitions += n
            term, trunc = np.asarray(term), np.asarray(trunc)
            done = term | trunc
            ctx.guard("classic-term", int(term.sum()))
            ctx.guard("classic-trunc", int(trunc.sum()))

            def leaves_eq(x, y):
                return np.all(np.stack([np.all((np.asarray(p) == np.asarray(q)).reshape(n, -1), axis=1) for p, q in zip(jax.tree.leaves(x), jax.tree.leaves(y))]), axis=0)

            def first(mask, sig, fmt):
                idx = np.nonzero(mask)[0]
                if len(idx):
                    i = int(idx[0])
                    out.append((ci, f"C01/classic/{sig}", f"{name} tl={tl} depth {d} from y={np.asarray((states.env_state if tl else states).y)[i].tolist()} action {np.asarray(a)[i].tolist()}: " + fmt(i)))

            first(np.asarray(rew) != np.asarray(parts["reward"]), "step/reward", lambda i: f"step reward {np.asarray(rew)[i]} != reward(state, action, successor) {np.asarray(parts['reward'])[i]}")
            first(term != np.asarray(parts["terminal"]), "step/terminal", lambda i: f"terminal flag {term[i]} != terminal(successor) {np.asarray(parts['terminal'])[i]}")
            first(trunc != np.asarray(parts["truncate"]), "step/truncated", lambda i: f"truncated flag {trunc[i]} != truncate(successor) {np.asarray(parts['truncate'])[i]}")
            first(~done & ~leaves_eq(nst, parts["next"]), "step/successor", lambda i: "returned state is not the successor")
            first(done & ~is_initial(nst), "step/done-state-not-initial", lambda i: f"episode ended (term={term[i]}, trunc={trunc[i]}) but returned state {np.asarray((nst.env_state if tl else nst).y)[i].tolist()} t={np.asarray((nst.env_state if tl else nst).t)[i]} is not a fresh initial state")
            first(~leaves_eq(nob, obs_ret), "step/observation-not-of-returned-state", lambda i: f"returned observation {np.asarray(nob)[i].tolist()} != observation(returned state) {np.asarray(obs_ret)[i].tolist()}")
            first(~leaves_eq(parts["next"], parts["next_other_key"]) | (np.asarray(parts["reward"]) != np.asarray(parts["reward_other_key"])), "key-dependence", lambda i: "transition/reward depend on the key (the decomposition oracle assumes they do not)")
            if tl:
                sc0, sc1 = np.asarray(states.step_count), np.asarray(nst.step_count)
                first(~done & (sc1 != sc0 + 1), "step/counter", lambda i: f"TimeLimit step_count {sc0[i]} -> {sc1[i]}")
                first((sc0 + 1 >= tl) != trunc, "step/timelimit", lambda i: f"truncated={trunc[i]} at episode step {sc0[i] + 1} with TimeLimit({tl})")
            frontier = nst
            nodes += n
        ctx.states += nodes
    return out


# ---------------------------------------------------------------------------------------
# (c) LeraxToGymEnv
# ---------------------------------------------------------------------------------------
def clause_gymadapter(cases, ctx: Ctx):
    """case: {table, spec, seed, actions: [...]}: LeraxToGymEnv.reset(seed) then the action sequence;
    every gym step must report exactly what the functional components give for adapter.state."""
    from lerax.compatibility.gym import LeraxToGymEnv

    out = []
    for ci, c in enumerate(cases):
        env = wrapx.build_stack(wrapx.base_env(c["table"]), c["spec"])
        ref = wrapx.StackRef(c["spec"], c["table"]["act_kind"], c["table"]["obs_kind"], c["table"]["S"], c["table"]["A"])
        g = LeraxToGymEnv(env)
        obs, info = g.reset(seed=c["seed"])
        t = c["table"]
        T = np.asarray(t["T"])
        R = wrapx.reward_table(t["S"], t["A"])
        d = wrapx.decode_state(g.state)
        s, clock = int(d["s"]), int(d["t"])
        cnt = [int(x) for x in d["counts"]]
        if not t["init"][s] or clock != 0 or any(cnt):
            out.append((ci, "C01/gymadapter/reset-state", f"reset(seed={c['seed']}): state {s}, clock {clock}, counters {cnt}"))
        eo = ref.outer_obs(np.asarray(s) if t["obs_kind"] == "discrete" else (np.arange(t["S"]) == s).astype(float))
        if not np.allclose(np.asarray(obs, dtype=float), np.asarray(eo, dtype=float)):
            out.append((ci, "C01/gymadapter/reset-observation", f"reset observation {np.asarray(obs).tolist()} is not that of state {s}"))
        for j, a in enumerate(c["actions"]):
            obs, rew, term, trunc, info = g.step(np.asarray(a))
            ctx.transitions += 1
            a_in = ref.inner_action(np.asarray([a]))
            idx, s2 = wrapx.tab_successor(T[None], np.asarray([s]), a_in, t["act_kind"], t["S"])
            s2, idx = int(s2[0]), int(idx[0])
            from mc.refs import action_term_np

            r = float(ref.outer_reward(R[s, idx, s2] + action_term_np(a_in, t["act_kind"])[0]))
            e_term = bool(t["term"][s2])
            e_trunc = bool(t.get("limit", 0) and clock + 1 >= t["limit"]) or any(cn + 1 >= N for cn, N in zip(cnt, ref.limits))
            done = e_term or e_trunc
            where = f"step {j} action {a} from state {s}"
            if abs(rew - r) > 1e-6 or not isinstance(rew, float):
                out.append((ci, "C01/gymadapter/reward", f"{where}: reward {rew!r}, reference {r}"))
            if term != e_term or trunc != e_trunc or not isinstance(term, bool) or not isinstance(trunc, bool):
                out.append((ci, "C01/gymadapter/flags", f"{where}: (terminated, truncated)=({term}, {trunc}), reference ({e_term}, {e_trunc})"))
            d = wrapx.decode_state(g.state)
            ns, nclock, ncnt = int(d["s"]), int(d["t"]), [int(x) for x in d["counts"]]
            if done:
                ctx.guard("gymadapter-done")
                if not t["init"][ns] or nclock != 0 or any(ncnt):
                    out.append((ci, "C01/gymadapter/done-state-not-initial", f"{where}: episode ended; adapter state {ns} clock {nclock} counters {ncnt}"))
            elif ns != s2 or nclock != clock + 1:
                out.append((ci, "C01/gymadapter/successor", f"{where}: adapter state {ns} clock {nclock}, reference {s2} clock {clock + 1}"))
            eo = ref.outer_obs(np.asarray(ns) if t["obs_kind"] == "discrete" else (np.arange(t["S"]) == ns).astype(float))
            if not np.allclose(np.asarray(obs, dtype=float), np.asarray(eo, dtype=float)):
                out.append((ci, "C01/gymadapter/observation", f"{where}: returned observation {np.asarray(obs).tolist()} is not that of the adapter's state {ns}" + (" (pre-reset observation?)" if done else "")))
            s, clock, cnt = ns, nclock, ncnt
        # re-seeding an adapter that has already been used must restart the same episode (seed 0 included):
        # reset(seed) twice -> identical state, observation and following trajectory
        for seed in (0, c["seed"]):
            runs = []
            for _ in range(2):
                o, _i = g.reset(seed=seed)
                tr = [np.asarray(o).tolist(), int(wrapx.decode_state(g.state)["s"])]
                for a in c["actions"][:2]:
                    o, r_, te, tu, _i = g.step(np.asarray(a))
                    tr += [np.asarray(o).tolist(), r_, te, tu]
                runs.append(tr)
            ctx.guard("gymadapter-reseed-checks")
            if runs[0] != runs[1]:
                out.append((ci, "C01/gymadapter/reseed-not-reproducible", f"reset(seed={seed}) on an adapter that was already used gave {runs[0]} the first time and {runs[1]} the second time"))
        ctx.traces += 1
    return out


def clause_fresh(cases, ctx: Ctx):
    """"The returned state is a FRESHLY DRAWN initial state": a tabular MDP with three equally likely initial states in which every
    step ends the episode.  case: {kind, spec, keys}.  If the auto-reset (or reset) state is the same for every key / at every
    boundary of every seeded run, the draw does not use fresh randomness.  (With fresh draws that coincidence has probability
    3^-31 per case for the functional API and 3^-44 for the adapter.)"""
    from lerax.compatibility.gym import LeraxToGymEnv
    from lerax.compatibility.gymnax import LeraxToGymnaxEnv

    out = []
    table = dict(T=[[0, 1], [1, 2], [2, 0]], term=[False, False, False], init=[True, True, True], limit=1, act_kind="discrete", obs_kind="discrete", S=3, A=2)
    for ci, c in enumerate(cases):
        env = wrapx.build_stack(wrapx.base_env(table), c["spec"])
        kind = c["kind"]
        keys = jax.vmap(jr.key)(jnp.asarray(c["keys"]))
        desc = f"3 initial states, every step ends the episode, stack {c['spec']}"
        if kind == "reset":
            st = eqx.filter_jit(lambda ks: jax.vmap(lambda k: env.reset(key=k)[0])(ks))(keys)
            drawn = wrapx.decode_state(st)["s"].tolist()
            what = f"env.reset(key=k) for the {len(c['keys'])} keys {c['keys'][:3]}..."
        elif kind == "step":
            s0 = env.reset(key=jr.key(c["keys"][0]))[0]
            st = eqx.filter_jit(lambda ks: jax.vmap(lambda k: env.step(s0, jnp.asarray(0), key=k)[0])(ks))(keys)
            drawn = wrapx.decode_state(st)["s"].tolist()
            what = f"the auto-reset state of env.step(s, 0, key=k) for {len(c['keys'])} keys"
        elif kind == "gymnax":
            gx = LeraxToGymnaxEnv(env)
            _, s0 = gx.reset_env(jr.key(c["keys"][0]), gx.default_params)
            st = eqx.filter_jit(lambda ks: jax.vmap(lambda k: gx.step(k, s0, jnp.asarray(0), gx.default_params)[1])(ks))(keys)
            drawn = wrapx.decode_state(st.env_state)["s"].tolist()
            what = f"the auto-reset state of LeraxToGymnaxEnv.step(k, ...) for {len(c['keys'])} keys"
        else:  # gym adapter: the key chain is the adapter's own; several boundaries per seeded run, step() only
            g = LeraxToGymEnv(env)
            runs = []
            for seed in c["keys"][:4]:
                g.reset(seed=int(seed))
                seq = []
                for _ in range(12):
                    g.step(np.asarray(0))
                    seq.append(int(wrapx.decode_state(g.state)["s"]))
                runs.append(seq)
                ctx.transitions += 12
            ctx.guard("fresh-gymadapter-varied", int(any(len(set(r)) > 1 for r in runs)))
            if all(len(set(r)) == 1 for r in runs):
                out.append((ci, "C01/fresh/gymadapter/auto-reset-states-identical",
                            f"{desc}: LeraxToGymEnv driven by step() only through 12 episode ends per run: the auto-reset states were {runs} for seeds {c['keys'][:4]} - identical at every boundary of every run, not freshly drawn"))
            continue
        ctx.transitions += len(c["keys"])
        ctx.guard(f"fresh-{kind}-varied", int(len(set(drawn)) > 1))
        if len(set(drawn)) == 1:
            out.append((ci, f"C01/fresh/{kind}/same-state-for-every-key", f"{desc}: {what} is always state {drawn[0]}: the initial state is not drawn from the key"))
    return out


CLAUSES = {"stack": clause_stack, "classic": clause_classic, "gymadapter": clause_gymadapter, "fresh": clause_fresh}


def explore(ctx: Ctx):
    thorough = ctx.tier == "thorough"
    keys = key_ints(ctx.seed, 16 if thorough else 4)
    ctx.rule = (
        "(a) BFS of (wrapper stack x tabular MDP state x counters) with the real env.step from reset states of K over events "
        "(in-space outer action, key), stacks of depth <=1 plus depth-2 (thorough: depth-3) stacks containing a TimeLimit; "
        "(b) complete action trees (depth 6) of the five classic-control environments bare and under TimeLimit(3) from "
        "reset states and hand-placed near-terminal states; (c) LeraxToGymEnv over tabular MDPs, all action sequences to "
        "depth 5 (quick: 4). non-trivial = (stack, MDP) pairs / trees in which an episode end occurs"
    )
    ctx.assumptions = [f"key alphabet K = {keys}", "classic control: transition/reward are key-independent (asserted)", "depth cap 6 for MDPs without episode ends"]
    cases = []
    for act, obs, tabs in (
        ("discrete", "discrete", tables(2, 2, "discrete", "discrete", [0, 2], False)),
        ("box", "onehot", tables(2, 2, "box", "onehot", [0, 3], True)),
    ) + ((("discrete", "discrete", tables(3, 2, "discrete", "discrete", [0, 3], True)),) if thorough else ()):
        stacks = [s for s in wrapx.all_stacks(3 if thorough else 2, act, obs) if len(s) <= 1 or any(w[0] == "TimeLimit" for w in s)]
        # outer limits both shorter and longer than the base MDP's own time limit / an inner TimeLimit
        stacks += [[["TimeLimit", n]] for n in (1, 4, 5)] + [[["TimeLimit", m], ["TimeLimit", n]] for m, n in ((1, 3), (3, 1), (3, 5), (2, 4))]
        for spec in stacks:
            for t in tabs:
                cases.append(dict(spec=spec, table=t, keys=keys[:4], depth=6))
                if any(t["term"]) or t["limit"] or any(w[0] == "TimeLimit" for w in spec):
                    ctx.nontriv((json.dumps(spec), json.dumps(t)))
    ctx.run_parallel("stack", cases, workers=10, group_key=lambda c: (json.dumps(c["spec"]), c["table"]["act_kind"], c["table"]["obs_kind"], c["table"]["S"]))
    classic = []
    for name in ("CartPole", "MountainCar", "ContinuousMountainCar", "Acrobot", "Pendulum"):
        for tl in (None, 3):
            for k in keys[: (4 if thorough else 2)]:
                classic.append(dict(env=name, tl=tl, key=k, start=None, depth=6 if len(classic_actions(name)) == 2 or not thorough else 6))
            for y in NEAR_TERMINAL[name]:
                classic.append(dict(env=name, tl=tl, key=keys[0], start=y, depth=3))
                ctx.nontriv(("classic", name, tl, tuple(y)))
    ctx.run_parallel("classic", classic, workers=5, group_key=lambda c: c["env"], threads=2)
    gym_cases = []
    L = 5 if thorough else 4
    for spec in ([], [["TimeLimit", 2]], [["TimeLimit", 3], ["TransformReward", "negate"]]):
        for t in tables(2, 2, "discrete", "discrete", [0], True)[:: (1 if thorough else 3)]:
            for seq in itertools.product([0, 1], repeat=L):
                gym_cases.append(dict(table=t, spec=spec, seed=int(keys[0]) % 1000, actions=list(seq)))
    ctx.run("gymadapter", gym_cases)
    fresh = [dict(kind=k, spec=spec, keys=[int(x) % 100000 for x in key_ints(ctx.seed, 32, salt=3)])
             for k in ("reset", "step", "gymnax", "gymadapter")
             for spec in ([[], [["TimeLimit", 2]], [["Identity"]]] if k in ("gymnax", "gymadapter") else [sp for sp in wrapx.all_stacks(1, "discrete", "discrete")])]
    ctx.run("fresh", fresh)
    ctx.traces += ctx.transitions
    ctx.require("done", "trunc", "term", "classic-term", "classic-trunc", "gymadapter-done", "reset-multi-init-varied",
                "fresh-reset-varied", "fresh-step-varied", "fresh-gymnax-varied", "fresh-gymadapter-varied")
