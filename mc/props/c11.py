"""C11 - training is reproducible, pure, and unaffected by observers.

Differential exploration (no hand-written expected value): for every algorithm x environment x
hyper-parameter setting x key of K x observer set, the trained policy returned by the real
learn() is compared BITWISE with (i) a second run with identical inputs in the same process,
(ii) a run in a freshly spawned process, (iii) the run without observers; the policy passed in must
be bitwise unchanged; runs with different keys must differ.
"""

from __future__ import annotations

import contextlib
import hashlib
import io
import itertools
import multiprocessing as mp
import os
import shutil
import tempfile

import equinox as eqx
import jax
import numpy as np
from jax import random as jr

from mc import learnx
from mc.core import Ctx, key_ints, quiet_fds

LEVEL = "exploration"

OBSERVERS = ["log-rec", "log-console-tb", "progress", "nested"]
CUSTOM = ["custom-step", "custom-iter"]  # user-defined observers on the public helper bases, passed bare and in a list


def digest(tree) -> str:
    h = hashlib.sha1()
    for x in learnx.leaves_np(tree):
        h.update(str(x.dtype).encode() + str(x.shape).encode() + x.tobytes())
    return h.hexdigest()


_GYM_ENVS: dict = {}


def build(c):
    name = c["algo"]
    if c["env"] == "gymtwin":
        # a Gymnasium environment (twin of a 3-state ring MDP, initial state drawn from the gym env's own np_random)
        # behind GymToLeraxEnv; the SAME adapter object is reused by every run of a case, as a user would
        from lerax.compatibility.gym import GymToLeraxEnv
        from mc.twins import TabGymEnv

        if "env" not in _GYM_ENVS:
            _GYM_ENVS["env"] = GymToLeraxEnv(TabGymEnv(dict(T=learnx.CHAIN_T, term=[False, False, False], init=[True, True, True], limit=3, obs_kind="onehot"), rng_init=True))
        env = _GYM_ENVS["env"]
        pol = learnx.make_policy(learnx.ALGO_POLICY[name], env, 7 + c["hp"])
        return env, pol, learnx.make_algo(name, 1, c["num_steps"])
    if c["env"] == "sac-pendulum":
        from lerax.env.classic_control import Pendulum
        from lerax.wrapper import TimeLimit

        env = TimeLimit(Pendulum(), 20)
        pol = learnx.make_policy("sac", env, 7, width_size=8, depth=1)
        return env, pol, learnx.make_algo("SAC", c["num_envs"], 1, buffer_size=256, learning_starts=8, batch_size=16)
    if c["env"] == "tab-dict":
        # Dict observation space with two string keys (declared in non-alphabetical order)
        from lerax.wrapper import TimeLimit
        from mc.mdp import TabEnv

        env = TimeLimit(TabEnv(np.asarray(learnx.CHAIN_T), [False, False, True], [True, True, False], act_kind=learnx.ALGO_ACT[name], obs_kind="dict"), 3)
    elif c["env"] == "tab":
        env = learnx.tiny_env(learnx.ALGO_ACT[name], tl=3)
    elif c["env"] == "tab-noterm":
        env = learnx.tiny_env(learnx.ALGO_ACT[name], tl=2, term_state=None)
    else:
        from lerax.env.classic_control import CartPole, Pendulum
        from lerax.wrapper import TimeLimit

        env = TimeLimit(Pendulum() if name == "SAC" else CartPole(), 4)
    kw = dict(width_size=8, depth=1) if name == "SAC" else {}
    pol = learnx.make_policy(learnx.ALGO_POLICY[name], env, 7 + c["hp"], **kw)
    hp = [dict(), dict(gamma=0.9)][c["hp"]]
    if name == "PPO" and c["hp"] == 1:
        hp.update(num_batches=2, num_epochs=2, clip_value_loss=True)
    algo = learnx.make_algo(name, c["num_envs"], c["num_steps"], **hp)
    return env, pol, algo


def make_observers(names, tmpdir, env, pol, total):
    from lerax.callback import (
        AbstractIterationCallback,
        AbstractStepCallback,
        CallbackList,
        ConsoleBackend,
        LoggingCallback,
        ProgressBarCallback,
        TensorBoardBackend,
    )

    from lerax.callback.base_callback import EmptyCallbackState, EmptyCallbackStepState

    class CountSteps(AbstractStepCallback):
        """user-defined pure observer built on the public step-only helper base"""

        def step_reset(self, ctx, *, key):
            return EmptyCallbackStepState()

        def on_step(self, ctx, *, key):
            return ctx.state

    class CountIterations(AbstractIterationCallback):
        """user-defined pure observer built on the public iteration-only helper base"""

        def reset(self, ctx, *, key):
            return EmptyCallbackState()

        def on_iteration(self, ctx, *, key):
            return ctx.state

    out = []
    for n in names:
        if n == "custom-step":
            out.append(CountSteps())
            continue
        if n == "custom-iter":
            out.append(CountIterations())
            continue
        if n == "log-rec":
            out.append(LoggingCallback(learnx.RecordingBackend(), name="c11"))
        elif n == "log-console-tb":
            out.append(LoggingCallback([ConsoleBackend(total), TensorBoardBackend(os.path.join(tmpdir, "tb"))], name="c11tb", alpha=0.5))
        elif n == "progress":
            pb = ProgressBarCallback(total, name="c11", env=env, policy=pol)
            _BARS.append(pb)
            out.append(pb)
        elif n == "nested":
            pb = ProgressBarCallback(total)
            _BARS.append(pb)
            out.append(CallbackList([LoggingCallback(learnx.RecordingBackend(), name="c11n"), CallbackList([pb])]))
    return out


_BARS: list = []


_LAST: dict = {}


def run_once(c, observers, as_list=True):
    env, pol, algo = build(c)
    before = digest(pol)
    tmp = tempfile.mkdtemp(prefix="c11_", dir="/tmp")
    try:
        with quiet_fds(), contextlib.redirect_stdout(io.StringIO()), contextlib.redirect_stderr(io.StringIO()):
            obs = make_observers(observers, tmp, env, pol, c["total"])
            cb = None if not obs else (obs if as_list or len(obs) > 1 else obs[0])
            out = algo.learn(env, pol, c["total"], key=jr.key(c["key"]), callback=cb)
            jax.block_until_ready(jax.tree.leaves(eqx.filter(out, eqx.is_array)))
            jax.effects_barrier()
            for o in obs:
                if hasattr(o, "close"):
                    try:
                        o.close()
                    except Exception:
                        pass
            while _BARS:  # rich keeps refreshing from a background thread until the bar is stopped
                try:
                    _BARS.pop().stop()
                except Exception:
                    pass
    finally:
        shutil.rmtree(tmp, ignore_errors=True)
    _LAST["leaves"] = learnx.leaves_np(out)
    return digest(out), before, digest(pol), digest(eqx.filter(pol, eqx.is_array)) == digest(eqx.filter(out, eqx.is_array))


def _child(c, observers, q):
    from mc.core import setup_runtime

    setup_runtime(threads=2)
    q.put(run_once(c, observers)[0])


_BASE: dict = {}


def clause_observers(cases, ctx: Ctx):
    """case: {algo, env, hp, num_envs, num_steps, total, key, observers: [...], as_list}"""
    out = []
    for ci, c in enumerate(cases):
        desc = f"{c['algo']} env={c['env']} hp={c['hp']} num_envs={c['num_envs']} num_steps={c['num_steps']} total={c['total']} key={c['key']}"
        bk = (c["algo"], c["env"], c["hp"], c["num_envs"], c["num_steps"], c["total"], c["key"])
        if bk not in _BASE or len(cases) == 1:
            base, before, after, unchanged = run_once(c, [])
            if before != after:
                out.append((ci, "C11/input-policy-mutated", f"{desc}: the policy passed to learn() changed"))
            ctx.guard("trained-equals-initial" if unchanged else "trained-differs-from-initial")
            again = run_once(c, [])[0]
            if again != base:
                out.append((ci, "C11/not-reproducible/same-process", f"{desc}: two runs with identical inputs returned different parameters"))
            _BASE[bk] = (base, _LAST["leaves"])
        base, base_leaves = _BASE[bk]
        if c["observers"]:
            got = run_once(c, c["observers"], c.get("as_list", True))[0]
            ctx.guard("observer-runs")
            if got != base:
                diff = max(float(np.abs(a.astype(np.float64) - b.astype(np.float64)).max()) if a.size else 0.0 for a, b in zip(_LAST["leaves"], base_leaves))
                scale = "rounding-level" if diff < 1e-5 else "substantive"
                out.append((ci, f"C11/observer-changes-result/{c['algo']}/{scale}/" + "+".join(c["observers"]),
                            f"{desc}: attaching {c['observers']} (as_list={c.get('as_list', True)}) changed the trained policy (max |difference| over parameters {diff:.3g})"))
        ctx.outcome("trained", base)
        if ci % 8 == 7:
            jax.clear_caches()  # every observer set is a fresh compilation of learn(); bound the worker's memory
    return out


def clause_crossproc(cases, ctx: Ctx):
    out = []
    # this process gets a different CONSTRUCTION history than the fresh child: before anything is trained here, algorithm objects with
    # the same learning rates but otherwise different hyper-parameters are constructed and thrown away.  Training must be a function
    # of its inputs, not of which other objects exist(ed) in the process.
    _decoys()
    for ci, c in enumerate(cases):
        base = run_once(c, c["observers"])[0]
        q = mp.get_context("spawn").Queue()
        p = mp.get_context("spawn").Process(target=_child, args=(c, c["observers"], q))
        # the fresh interpreter also gets a different str-hash salt (a user's second run does): nothing may depend on set / dict-of-str order
        old_salt = os.environ.get("PYTHONHASHSEED")
        os.environ["PYTHONHASHSEED"] = str(4242 + ci)
        try:
            p.start()
        finally:
            if old_salt is None:
                os.environ.pop("PYTHONHASHSEED", None)
            else:
                os.environ["PYTHONHASHSEED"] = old_salt
        other = q.get(timeout=600)
        p.join(60)
        ctx.guard("crossproc-runs")
        if other != base:
            out.append((ci, "C11/not-reproducible/second-process", f"{c['algo']} env={c['env']} key={c['key']} observers={c['observers']}: a run in a fresh process returned different parameters"))
    return out


def _decoys():
    alt = {
        "PPO": dict(max_grad_norm=1e-3, clip_coefficient=0.9, gamma=0.1, entropy_loss_coefficient=0.5, value_loss_coefficient=0.01, normalize_advantages=True),
        "A2C": dict(max_grad_norm=1e-3, gamma=0.1, entropy_loss_coefficient=0.5, value_loss_coefficient=0.01),
        "REINFORCE": dict(max_grad_norm=1e-3, gamma=0.1, value_loss_coefficient=0.01),
        "DQN": dict(max_grad_norm=1e-3, gamma=0.1, target_update_interval=1),
        "SAC": dict(tau=0.9, gamma=0.1, policy_frequency=3, autotune=False, initial_alpha=5.0),
    }
    return [learnx.make_algo(name, 3, 5, **kw) for name, kw in alt.items()]


def clause_keys(cases, ctx: Ctx):
    """case: config + keys list: every pair of keys must give different trained parameters"""
    out = []
    for ci, c in enumerate(cases):
        ds = {k: run_once(dict(c, key=k), [])[0] for k in c["keys"]}
        for k1, k2 in itertools.combinations(c["keys"], 2):
            ctx.guard("key-pairs")
            if ds[k1] == ds[k2]:
                out.append((ci, "C11/keys-do-not-matter", f"{c['algo']} env={c['env']}: keys {k1} and {k2} produced bit-identical trained parameters"))
    return out


CLAUSES = {"observers": clause_observers, "crossproc": clause_crossproc, "keys": clause_keys}


def explore(ctx: Ctx):
    thorough = ctx.tier == "thorough"
    keys = key_ints(ctx.seed, 3)
    ctx.rule = (
        "for each of PPO/A2C/REINFORCE/DQN/SAC x environments x hyper-parameter settings x keys K x observer subsets "
        "(quick: subsets of size <=1 and the full set; thorough: every subset, bare callback and list forms): learn() is run "
        "and the returned parameters are compared bitwise with the observer-free run, a repeated run, and a run in a fresh "
        "process; all key pairs must give different results. non-trivial = a case with at least one observer attached"
    )
    ctx.assumptions = [f"key alphabet K = {keys}", "float32 CPU backend, same machine (bitwise reproducibility across machines is not claimed)"]
    algos = ["PPO", "A2C", "REINFORCE", "DQN", "SAC"]
    subsets = [[]] + [[o] for o in OBSERVERS] + [OBSERVERS]
    if thorough:
        subsets = [list(s) for r in range(len(OBSERVERS) + 1) for s in itertools.combinations(OBSERVERS, r)]
    cases, cross, kcases = [], [], []
    for a in algos:
        E, T = (2, 2) if a != "REINFORCE" else (1, 3)
        if a == "SAC":
            E, T = 2, 1
        total = 3 * E * T + 1
        envs = ["tab"] + (["classic", "tab-noterm"] if thorough else (["classic"] if a in ("SAC", "PPO") else []))
        for env in envs:
            for hp in ((0, 1) if thorough else (0,)):
                base = dict(algo=a, env=env, hp=hp, num_envs=E, num_steps=T, total=total)
                for sub in subsets:
                    for k in (keys if (thorough or not sub) else keys[:1]):
                        for as_list in ((True, False) if (thorough and len(sub) == 1) else (True,)):
                            c = dict(base, key=k, observers=sub, as_list=as_list)
                            cases.append(c)
                            if sub:
                                ctx.nontriv((a, env, hp, k, tuple(sub), as_list))
                kcases.append(dict(base, keys=keys, observers=[]))
        for sub in CUSTOM:  # user-defined observers on the public helper bases: bare and inside a list
            for as_list in (False, True):
                cases.append(dict(algo=a, env="tab", hp=0, num_envs=E, num_steps=T, total=total, key=keys[0], observers=[sub], as_list=as_list))
                ctx.nontriv((a, "tab", 0, keys[0], (sub,), as_list))
        if a == "SAC":  # a longer SAC run (64 steps, batch 16): long enough for compiler-level differences to surface
            for sub in ([], ["log-rec"], ["progress"], ["custom-step"]):
                cases.append(dict(algo=a, env="sac-pendulum", hp=0, num_envs=2, num_steps=1, total=64, key=keys[0], observers=sub, as_list=True))
        if a in ("PPO", "DQN"):  # side-effecting environment: Gymnasium env behind GymToLeraxEnv (single environment only)
            for sub in ([], ["log-rec"]):
                cases.append(dict(algo=a, env="gymtwin", hp=0, num_envs=1, num_steps=4, total=13, key=keys[0], observers=sub, as_list=True))
        cross.append(dict(algo=a, env="tab", hp=0, num_envs=E, num_steps=T, total=total, key=keys[0], observers=["log-rec"] if a != "PPO" else OBSERVERS))
    # purity property: a run-to-run difference that does not recur when the single case is re-executed in another process state
    # (different call history) is itself evidence of hidden state behind learn()
    ctx.accept_unreproduced |= {"C11/keys-do-not-matter", "C11/not-reproducible", "C11/observer-changes-result", "C11/crossproc"}
    cross.append(dict(algo="PPO", env="tab-dict", hp=0, num_envs=2, num_steps=2, total=13, key=keys[0], observers=[]))
    cross.append(dict(algo="DQN", env="tab-dict", hp=0, num_envs=2, num_steps=2, total=13, key=keys[0], observers=["log-rec"]))
    ctx.run_parallel("observers", cases, workers=8, group_key=lambda c: (c["algo"], c["env"], c["hp"]), threads=2)
    ctx.run_parallel("keys", kcases, workers=5, group_key=lambda c: c["algo"], threads=2)
    ctx.run("crossproc", cross)
    ctx.require("observer-runs", "crossproc-runs", "key-pairs", "trained-differs-from-initial")
