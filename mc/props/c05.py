"""C05 - off-policy collection stores exactly the transitions that happened.

DQN + ScriptedQ on Discrete-action tabular MDPs, SAC + ScriptedSAC on Box-action MDPs, driven
through the real algo.reset (warm-up) and algo.iteration; the per-environment replay buffers are
snapshotted after warm-up and after every iteration and compared slot by slot with the reference
off-policy collector (mc.refs.check_offpolicy).
"""

from __future__ import annotations

import numpy as np

from mc import collect, refs
from mc.core import Ctx, key_ints
from mc.props.c04 import family, scripts_deviation, scripts_full

LEVEL = "model_checking"


def clause_collect(cases, ctx: Ctx):
    out = []
    groups: dict = {}
    for i, c in enumerate(cases):
        groups.setdefault(collect.off_static_key(c), []).append(i)
    for k, idxs in groups.items():
        for lo in range(0, len(idxs), 20000):
            part = idxs[lo : lo + 20000]
            sub = [cases[i] for i in part]
            out += [(part[ci], sig, msg) for (ci, sig, msg) in _check_group(sub, ctx)]
    return out


def _check_group(cases, ctx: Ctx):
    c0 = cases[0]
    E = c0["num_envs"]
    has_tl = bool(c0.get("tl"))
    N = len(cases)
    snaps, env_state, pol_state, itc = collect.run_offpolicy(cases)
    C = c0["buffer_size"] // E if E > 1 else c0["buffer_size"]
    tb = refs.Tables(cases, repeat=E)

    def streams(x):
        x = np.asarray(x)
        if E == 1:
            return x
        return x.reshape((N * E,) + x.shape[2:])

    snap_dicts = []
    for sb in snaps:
        if sb.rewards.shape[-1] != C:
            return [(0, "C05/budget/per-env-capacity", f"per-environment buffer has {sb.rewards.shape[-1]} slots, expected buffer_size // num_envs = {C}")]
        snap_dicts.append(dict(
            obs=streams(sb.observations), nobs=streams(sb.next_observations), actions=streams(sb.actions),
            rewards=streams(sb.rewards), dones=streams(sb.dones), timeouts=streams(sb.timeouts),
            states=streams(sb.states.c), next_states=streams(sb.next_states.c), position=streams(sb.position),
        ))
    fs, ft, ftl = collect.unwrap_env_state(env_state, has_tl)
    script = np.repeat(np.asarray([c["script"] for c in cases]), E, axis=0)
    fails, stats = refs.check_offpolicy(
        tb, script, snap_dicts, streams(fs), streams(ft), None if ftl is None else streams(ftl),
        streams(pol_state.c), C, c0["learning_starts"], c0["num_steps"],
    )
    for k, v in stats.items():
        ctx.guard(k, v)
    total = c0["learning_starts"] + c0["n_iter"] * c0["num_steps"]
    ctx.transitions += N * E * total
    ctx.traces += N * E
    out = []
    if not np.all(np.asarray(itc) == c0["n_iter"]):
        out.append((0, "C05/iteration-count", f"iteration_count after {c0['n_iter']} iterations = {np.asarray(itc)[:3].tolist()}"))
    for stream, row, sig, msg in fails:
        out.append((stream // E, sig, f"[{c0['algo']} env {stream % E} of {E}, buffer_size={c0['buffer_size']} learning_starts={c0['learning_starts']} num_steps={c0['num_steps']}] " + msg))
    return out


_REAL: dict = {}


def clause_real(cases, ctx: Ctx):
    """second pass: the real MLPQPolicy (epsilon-greedy, key-driven) and MLPSACPolicy through the real reset + iterations;
    trace validation: the chosen actions are read back from the rows, everything else is the same reference."""
    import equinox as eqx
    import jax
    from jax import random as jr

    from lerax.callback import CallbackList
    from mc import learnx

    out = []
    for ci, c in enumerate(cases):
        E = c["num_envs"]
        has_tl = bool(c.get("tl"))
        env = collect.build_env(c)
        if c["algo"] == "DQN":
            pol = learnx.make_policy("q", env, c["policy_key"], epsilon=0.5)
        else:
            pol = learnx.make_policy("sac", env, c["policy_key"], width_size=8, depth=1)
        sk = (c["algo"], E, c["num_steps"], c["buffer_size"], c["learning_starts"], c["n_iter"], c["S"], c["A"], c["act_kind"], c["obs_kind"], has_tl)
        if sk not in _REAL:
            algo = collect.make_off_algo(c)
            cb = CallbackList(callbacks=[])

            @eqx.filter_jit
            def run(env, pol, key, algo=algo, n=c["n_iter"]):
                ks = jr.split(key, 1 + n)
                st = algo.reset(env, pol, key=ks[0], callback=cb)
                snaps = [st.step_state.buffer]
                for i in range(n):
                    st = algo.iteration(st, key=ks[1 + i], callback=cb)
                    snaps.append(st.step_state.buffer)
                return snaps, st.step_state.env_state

            _REAL[sk] = run
        snaps, env_state = jax.tree.map(np.asarray, _REAL[sk](env, pol, jr.key(c["key"])))
        C = c["buffer_size"] // E if E > 1 else c["buffer_size"]
        tb = refs.Tables([c], repeat=E)
        st_ = (lambda x: np.asarray(x)[None]) if E == 1 else (lambda x: np.asarray(x))
        sd = [dict(obs=st_(sb.observations), nobs=st_(sb.next_observations), actions=st_(sb.actions), rewards=st_(sb.rewards), dones=st_(sb.dones),
                   timeouts=st_(sb.timeouts), states=None, next_states=None, position=np.asarray(sb.position).reshape(E)) for sb in snaps]
        fs, ft, ftl = collect.unwrap_env_state(env_state, has_tl)
        one = lambda x: np.asarray(x).reshape(E)
        fails, stats = refs.check_offpolicy(tb, None, sd, one(fs), one(ft), None if ftl is None else one(ftl), None, C, c["learning_starts"], c["num_steps"], trace_actions=True)
        for k, v in stats.items():
            ctx.guard("real-" + k, v)
        ctx.outcome("real-actions", tuple(np.asarray(snaps[-1].actions).ravel().round(3).tolist()))
        ctx.traces += E
        ctx.transitions += E * (c["learning_starts"] + c["n_iter"] * c["num_steps"])
        for stream, row, sig, msg in fails:
            out.append((ci, sig.replace("C05/", "C05/real/"), f"[{c['algo']} real policy key {c['policy_key']}, env {stream} of {E}] " + msg))
    return out


def clause_fresh(cases, ctx: Ctx):
    """"The environment restarts after a done step" from a freshly drawn initial state: three equally likely initial states, every step
    ends the episode, real reset (warm-up) + iteration of DQN; the stored observations from the second row on are restart states.
    case: {num_envs, keys}"""
    import equinox as eqx
    from jax import random as jr

    from lerax.algorithm import DQN
    from lerax.callback import CallbackList

    from mc.policies import ScriptedQ
    from mc.props.c04 import FRESH_TABLE

    out = []
    for ci, c in enumerate(cases):
        E, LS, Tn = c["num_envs"], 6, 6
        env = collect.build_env(FRESH_TABLE)
        pol = ScriptedQ(env, np.asarray([0]))
        algo = DQN(buffer_size=32 * E, learning_starts=LS, num_envs=E, num_steps=Tn, batch_size=2, target_update_interval=5)
        cb = CallbackList(callbacks=[])

        @eqx.filter_jit
        def run(key, algo=algo, cb=cb):
            k1, k2 = jr.split(key)
            st = algo.iteration(algo.reset(env, pol, key=k1, callback=cb), key=k2, callback=cb)
            return st.step_state.buffer.observations

        seqs = [np.asarray(run(jr.key(k))).reshape(E, 32)[:, 1:LS + Tn].tolist() for k in c["keys"]]
        ctx.transitions += E * (LS + Tn) * len(c["keys"])
        varied = any(len(set(row)) > 1 for s_ in seqs for row in s_)
        ctx.guard("fresh-restart-varied", int(varied))
        if not varied:
            out.append((ci, "C05/after-done/restart-state-never-varies",
                        f"DQN num_envs={E}: 3 initial states, every step ends the episode: the restart states stored as observations were {seqs} for keys {c['keys']} - the same in every row of every run, not freshly drawn"))
    return out


CLAUSES = {"collect": clause_collect, "real": clause_real, "fresh": clause_fresh}


def explore(ctx: Ctx):
    thorough = ctx.tier == "thorough"
    keys = key_ints(ctx.seed, 4 if thorough else 2)
    ctx.rule = (
        "every deterministic tabular MDP of the listed sizes x (terminal set, initial set) x time limit x every "
        "behaviour script (full depth) x (buffer_size, learning_starts, num_envs, num_steps) grid x keys K, through "
        "the real DQN/SAC reset (warm-up) and 1-3 iterations; buffers snapshotted after every phase and compared "
        "slot by slot with the reference. non-trivial = distinct case containing an episode end, a clipped action "
        "or a ring wrap-around"
    )
    ctx.assumptions = [
        "ScriptedQ/ScriptedSAC implement lerax's abstract policy interfaces; their scripted leaves are integers (not trainable)",
        "when a warm-up longer than the capacity overwrites the row following an episode end, the MDP has a single initial state",
        f"key alphabet K = {keys}",
    ]
    cases = []
    plan = {}

    def emit(name, algo, fam, scripts, cfgs, ks, gamma=0.5):
        n0 = len(cases)
        fam = list(fam)
        for (bs, ls, ne, ns, ni) in cfgs:
            C = bs // ne if ne > 1 else bs
            for tab in fam:
                if ls > C and sum(tab["init"]) != 1:
                    continue
                for sc in scripts:
                    for k in ks:
                        cases.append(dict(tab, algo=algo, script=sc, buffer_size=bs, learning_starts=ls, num_envs=ne,
                                          num_steps=ns, n_iter=ni, key=k, gamma=gamma))
        plan[name] = len(cases) - n0

    lims = [(0, 0), (2, 0), (0, 1), (0, 2), (0, 3)]
    # (buffer_size, learning_starts, num_envs, num_steps, n_iter)
    cfg_q = [(8, 0, 1, 2, 2), (4, 3, 1, 1, 2), (4, 1, 2, 2, 2), (6, 3, 3, 1, 1), (3, 4, 1, 2, 1), (8, 3, 2, 2, 1)]
    cfg_t = [(bs, ls, ne, ns, 2) for bs in (4, 6, 8) for ls in (0, 1, 3) for ne in (1, 2, 3) for ns in (1, 2) if bs // ne >= ns]
    emit("S2-DQN", "DQN", family(2, 2, shaped=False, limits=lims), scripts_full("discrete", 2, 4), cfg_t if thorough else cfg_q, keys[:1])
    emit("S2-DQN-onehot", "DQN", family(2, 2, shaped=False, limits=[(0, 2)], obs_kind="onehot"), scripts_full("discrete", 2, 3), [(4, 1, 2, 1, 2)], keys)
    emit("S3-DQN", "DQN", family(3, 2, shaped=True, limits=[(0, 0), (0, 2), (0, 3)]), scripts_full("discrete", 2, 4), [(8, 2, 1, 2, 1), (6, 1, 2, 1, 2)], keys[:1])
    sac_cfg = [(8, 0, 1, 2, 1), (4, 3, 1, 1, 1), (4, 1, 2, 2, 1)]
    emit("S2-SAC-box", "SAC", family(2, 2, shaped=False, limits=[(0, 0), (0, 2), (2, 0)], act_kind="box"), scripts_full("box", 2, 3), sac_cfg, keys[:1])
    # a Box bounded on ONE side only ([-1, inf)): the finite bound is still enforced (-2 is executed as -1, +2 stays +2)
    emit("S2-SAC-boxhalf", "SAC", family(2, 2, shaped=False, limits=[(0, 0), (0, 2)], act_kind="boxhalf"), scripts_full("boxhalf", 2, 3), [(8, 0, 1, 2, 1), (4, 1, 2, 2, 1)], keys[:1])
    emit("S2-SAC-boxvec", "SAC", family(2, 2, shaped=True, limits=[(0, 2)], act_kind="boxvec"), scripts_full("boxvec", 2, 3), [(6, 1, 1, 2, 1)], keys[:1])
    emit("S2-DQN-H10-dev2", "DQN", family(2, 2, shaped=False, limits=[(0, 0), (0, 3), (4, 0)]), scripts_deviation("discrete", 2, 10, 2), [(4, 4, 1, 3, 2), (16, 2, 2, 4, 2)], keys[:1])
    if thorough:
        emit("S3-DQN-all", "DQN", family(3, 2, shaped=False, limits=[(0, 0), (0, 2), (0, 3), (2, 0)]), scripts_full("discrete", 2, 5), [(8, 2, 1, 3, 1), (6, 0, 2, 2, 1)], keys[:1])
        emit("S2-SAC-box-grid", "SAC", family(2, 2, shaped=False, limits=[(0, 0), (0, 2), (0, 3)], act_kind="box"), scripts_full("box", 2, 3),
             [(bs, ls, ne, ns, 1) for bs in (4, 8) for ls in (0, 3) for ne in (1, 2) for ns in (1, 2)], keys[:1])
    ctx.notes["plan_cases"] = plan
    ctx.run("collect", cases)
    real = []
    for algo, kind, obs in (("DQN", "discrete", "onehot"), ("SAC", "box", "onehot")):
        fam = list(family(2, 2, shaped=True, limits=[(0, 2), (0, 3), (2, 0)], act_kind=kind, obs_kind=obs))
        fam = fam[:: max(1, len(fam) // (24 if thorough else 8))]
        for tab in fam:
            for pk in range(3 if thorough else 2):
                for (bs, ls, ne, ns, ni) in ((8, 3, 1, 3, 2), (12, 2, 2, 3, 2)):
                    real.append(dict(tab, algo=algo, script=[0], policy_key=pk, buffer_size=bs, learning_starts=ls, num_envs=ne, num_steps=ns, n_iter=ni,
                                     key=keys[pk % len(keys)], gamma=0.5))
    ctx.run("real", real)
    ctx.notes["real_policy_cases"] = len(real)
    trivial = sum(1 for c in cases if not any(c["term"]) and not c.get("tl") and not c.get("limit") and c["act_kind"] not in refs.BOX_KINDS
                  and c["learning_starts"] + c["n_iter"] * c["num_steps"] <= (c["buffer_size"] // c["num_envs"] if c["num_envs"] > 1 else c["buffer_size"]))
    ctx.notes["trivial_cases"] = trivial
    ctx.nontrivial = set(range(len(cases) - trivial))
    ctx.states = ctx.transitions + ctx.traces
    from mc.core import key_ints as _ki

    ctx.run("fresh", [dict(num_envs=E, keys=[int(k) % 100000 for k in _ki(ctx.seed, 4, salt=5)]) for E in (1, 2)])
    ctx.require("trunc_only", "term_only", "both", "clipped", "after_reset", "wrapped", "done_rows", "real-done_rows", "real-after_reset", "real-trunc_only", "fresh-restart-varied")
