"""C15 - action distributions are coherent probability laws.

Enumerated : all seven lerax distribution classes x full Cartesian parameter grids (logits / probs,
             locations, scales, bounds, action_dims splits; see explore()).
Points     : the complete support of every discrete law; for continuous laws a 4001-node grid per
             dimension reaching 12 sigma (squashed laws: the image of that grid under the squashing map,
             i.e. the open interval refined near both ends), tensor grids for 2-D joint laws.
Keys       : one fixed block of consecutive integers of the key alphabet K (mc.core.key_ints).
Oracle     : float64 closed forms written from the property statement (soft-max / Bernoulli / normal
             density / logit-normal change of variables), trapezoid quadrature on the exact float32
             nodes, Chernoff and Dvoretzky-Kiefer-Wolfowitz bounds for the frequency clauses.

Three clauses:
  discrete    Categorical, Bernoulli, MultiCategorical
  continuous  Normal, MultivariateNormalDiag, SquashedNormal, SquashedMultivariateNormalDiag
  construct   the same parameters handed over in every ArrayLike container the signatures admit

A case is one parameter point plus the key block; `clause([case], ctx)` re-executes it from scratch.

Frequency statements are decided deterministically on the fixed key block: a frequency is rejected only
if the *exact upper bound* on the probability of a deviation that large under the stated law is below
DELTA = 1e-13 (Chernoff bound n*KL(q||p) > ln(2/DELTA) for counts, DKW bound sup|ECDF-F| >
sqrt(ln(2/DELTA)/2n) = 0.061 at n=4096 for continuous samples).  No tuning, no randomness.
"""

from __future__ import annotations

import itertools
import math
import time

import equinox as eqx
import jax
import numpy as np
from jax import numpy as jnp
from jax import random as jr

from lerax import distribution as D

from mc.core import Ctx, chash, key_ints

LEVEL = "exploration"

EPS32 = 2.0**-23
DELTA = 1e-13
LOGT = math.log(2.0 / DELTA)  # 30.6


def dkw_eps(n: int) -> float:
    return math.sqrt(LOGT / (2.0 * n))


DISCRETE = ("Categorical", "Bernoulli", "MultiCategorical")
ELEMENTWISE = ("Normal", "SquashedNormal")  # log_prob has the shape of the parameters
JOINT = ("MultivariateNormalDiag", "SquashedMultivariateNormalDiag")  # scalar log_prob
SQUASHED = ("SquashedNormal", "SquashedMultivariateNormalDiag")


def f32(x) -> np.ndarray:
    """The value the library actually receives: rounded to float32, then widened exactly."""
    return np.asarray(x, dtype=np.float32).astype(np.float64)


def case_keys(case) -> np.ndarray:
    first, n = case["keys"]
    return np.arange(first, first + n, dtype=np.int64)


def jkeys(ints):
    return jax.vmap(jr.key)(jnp.asarray(np.asarray(ints, dtype=np.int64) % (2**31), dtype=jnp.int32))


def _note_time(ctx, name, n, dt):
    if n > 1:
        t = ctx.notes.setdefault("seconds_per_configuration", {})
        t[name] = [n, round(t.get(name, [0, 0.0])[1] + dt, 1)]


def _margin(ctx, name, ratio):
    """Record the worst observed (deviation / threshold) per sub-check: < 1 everywhere when the check is silent."""
    ratio = float(ratio)
    if ratio == ratio:
        w = ctx.notes.setdefault("worst_observed_over_threshold", {})
        if ratio > w.get(name, 0.0):
            w[name] = round(ratio, 4)


def batch_size(n: int) -> int:
    return 1 if n == 1 else (64 if n <= 64 else 512)


def close(a, b, rtol=1e-5, atol=1e-6):
    """|a-b| <= atol + rtol*|b| with matching infinities; NaN never close."""
    a = np.asarray(a, dtype=np.float64)
    b = np.asarray(b, dtype=np.float64)
    with np.errstate(invalid="ignore"):
        fin = np.isfinite(a) & np.isfinite(b)
        ok = np.where(fin, np.abs(a - b) <= atol + rtol * np.abs(b), a == b)
    return ok


def worst(a, b, ok):
    a = np.asarray(a, dtype=np.float64)
    b = np.asarray(b, dtype=np.float64)
    bad = np.argwhere(~np.asarray(ok))
    i = tuple(bad[0])
    return f"at index {list(map(int, i))}: library {a[i]!r} reference {b[i]!r} ({len(bad)} of {a.size} entries)"


def kl_bound(k: np.ndarray, n: int, p: np.ndarray) -> np.ndarray:
    """n*KL(k/n || p): -log of the Chernoff upper bound on P(count deviates at least this far)."""
    q = np.asarray(k, dtype=np.float64) / n
    p = np.asarray(p, dtype=np.float64)
    with np.errstate(divide="ignore", invalid="ignore"):
        t1 = np.where(q > 0, q * (np.log(q) - np.log(p)), 0.0)
        t2 = np.where(q < 1, (1 - q) * (np.log1p(-q) - np.log1p(-p)), 0.0)
    out = n * (t1 + t2)
    return np.where(np.isnan(out), np.inf, out)


# ===========================================================================================
# discrete laws
# ===========================================================================================


def d_dims(case) -> tuple[int, ...]:
    """Number of classes per independent component."""
    cls = case["cls"]
    if cls == "Categorical":
        return (len(case["values"]),)
    if cls == "Bernoulli":
        v = case["values"]
        return (2,) * (len(v) if isinstance(v, list) else 1)
    return tuple(case["dims"])


def d_cfg(case):
    cls = case["cls"]
    scalar = cls == "Bernoulli" and not isinstance(case["values"], list)
    return (cls, case["param"], d_dims(case), scalar, case["keys"][1])


def d_support(dims) -> np.ndarray:
    return np.asarray(list(itertools.product(*[range(n) for n in dims])), dtype=np.int32)


def d_reference(case):
    """Per-component float64 log-probability tables, from the statement."""
    cls, param = case["cls"], case["param"]
    v = f32(case["values"]).reshape(-1)
    tables = []
    with np.errstate(divide="ignore"):
        if cls == "Bernoulli":
            for x in v:
                if param == "logits":
                    # log sigmoid(-x), log sigmoid(x)
                    t = np.array([-np.logaddexp(0.0, x), -np.logaddexp(0.0, -x)])
                else:
                    t = np.array([np.log1p(-x), np.log(x)])
                tables.append(t)
        else:
            dims = d_dims(case)
            off = 0
            for n in dims:
                piece = v[off : off + n]
                off += n
                if param == "logits":
                    m = piece.max()
                    t = piece - (m + np.log(np.sum(np.exp(piece - m))))
                else:
                    t = np.log(piece / piece.sum())
                tables.append(t)
    return tables


def d_entropy(table) -> float:
    p = np.exp(table)
    with np.errstate(invalid="ignore"):
        return float(-np.sum(np.where(p > 0, p * table, 0.0)))


_DJIT: dict = {}
_FLAT_UNTRACEABLE: dict = {}  # cfg -> message, when the flat MultiCategorical form cannot be built under jit


def d_fn(cfg):
    """(jitted evaluation of everything but the flat MultiCategorical form, un-jitted vmapped evaluation of
    the flat form).  The flat form is first tried under jit as well (that is how a policy uses it)."""
    if cfg in _DJIT:
        return _DJIT[cfg]
    cls, param, dims, scalar, _ = cfg
    offs = np.concatenate([[0], np.cumsum(dims)]).tolist()

    def evaluate(dist, values, keys):
        lp = jax.vmap(dist.log_prob)(values)
        pr = jax.vmap(dist.prob)(values)
        s = jax.vmap(dist.sample)(keys)
        s2, l2 = jax.vmap(dist.sample_and_log_prob)(keys)
        l2b = jax.vmap(dist.log_prob)(s2)
        # the whole support in ONE call (values with a leading batch axis), next to the per-value calls above
        return dict(lp=lp, pr=pr, ent=dist.entropy(), mode=dist.mode(), s=s, s2=s2, l2=l2, l2b=l2b, lp_batch=dist.log_prob(values), pr_batch=dist.prob(values))

    def run(P, values, keys):
        def one(v):
            out = {}
            if cls == "Categorical":
                out["main"] = evaluate(D.Categorical(**{param: v}), values[:, 0], keys)
            elif cls == "Bernoulli":
                if scalar:
                    out["main"] = evaluate(D.Bernoulli(**{param: v[0]}), values[:, 0], keys)
                else:
                    out["main"] = evaluate(D.Bernoulli(**{param: v}), values, keys)
            else:
                pieces = [v[offs[i] : offs[i + 1]] for i in range(len(dims))]
                seq = D.MultiCategorical(**{param: list(pieces)})
                out["seq"] = evaluate(seq, values, keys)
                comps = [D.Categorical(**{param: pc}) for pc in pieces]
                out["comp_lp"] = [
                    jax.vmap(c.log_prob)(jnp.arange(n)) for c, n in zip(comps, dims)
                ]
                out["comp_ent"] = [c.entropy() for c in comps]
                out["seq_action_dims"] = jnp.asarray(seq.action_dims)
            return out

        return jax.vmap(one)(P)

    def run_flat(P, values, keys):
        def one(v):
            flat = D.MultiCategorical(**{param: v}, action_dims=dims)
            out = evaluate(flat, values, keys)
            out["action_dims"] = jnp.asarray(flat.action_dims)
            return out

        return jax.vmap(one)(P)

    @eqx.filter_jit
    def eval_built(dists, values, keys):
        def one(flat):
            out = evaluate(flat, values, keys)
            out["action_dims"] = jnp.asarray(flat.action_dims)
            return out

        return eqx.filter_vmap(one)(dists)

    def run_flat_prebuilt(P, values, keys):
        """Fallback when the flat form cannot be constructed under jit: construct it eagerly (vmapped), then
        evaluate the constructed laws under jit."""
        dists = eqx.filter_vmap(lambda v: D.MultiCategorical(**{param: v}, action_dims=dims))(P)
        return eval_built(dists, values, keys)

    _DJIT[cfg] = (eqx.filter_jit(run), eqx.filter_jit(run_flat), run_flat_prebuilt)
    return _DJIT[cfg]


def clause_discrete(cases, ctx: Ctx):
    out = []
    groups: dict = {}
    for i, c in enumerate(cases):
        groups.setdefault(d_cfg(c), []).append(i)
    for cfg, idxs in groups.items():
        cls, dims, K = cfg[0], cfg[2], cfg[4]
        width = sum(dims)
        B = batch_size(len(idxs))
        if B > 1:
            B = max(1, min(B, int(2.5e7 // (K * max(width, len(dims) * 2)))))
        support = d_support(dims)
        run, flat_jit, flat_eager = d_fn(cfg)
        t0 = time.time()
        for lo in range(0, len(idxs), B):
            part = idxs[lo : lo + B]
            sub = [cases[i] for i in part]
            keysets = {tuple(c["keys"]) for c in sub}
            if len(keysets) != 1:
                raise AssertionError("harness: cases of one batch must share the key block")
            P = np.stack([np.asarray(c["values"], dtype=np.float32).reshape(-1) for c in sub])
            if len(sub) < B:
                P = np.concatenate([P, np.repeat(P[-1:], B - len(sub), axis=0)])
            args = (jnp.asarray(P), jnp.asarray(support), jkeys(case_keys(sub[0])))
            res = run(*args)
            if cls == "MultiCategorical":
                if cfg not in _FLAT_UNTRACEABLE:
                    try:
                        res["main"] = flat_jit(*args)
                    except jax.errors.ConcretizationTypeError as e:
                        _FLAT_UNTRACEABLE[cfg] = str(e).split("\n")[0][:200]
                if cfg in _FLAT_UNTRACEABLE:
                    res["main"] = flat_eager(*args)
                    ctx.guard("flat-form-evaluated-without-jit", len(sub))
                    for j, c in enumerate(sub):
                        out.append((part[j], "C15/discrete/MultiCategorical/flat-parameters-fail-under-jit",
                                    f"MultiCategorical({c['param']}=<flat array of {width}>, action_dims={list(dims)}) cannot be "
                                    f"constructed inside jax.jit: {_FLAT_UNTRACEABLE[cfg]}"))
            res = jax.tree.map(np.asarray, res)
            for j, c in enumerate(sub):
                r = jax.tree.map(lambda x: x[j], res)
                for sig, msg in d_judge(c, r, support, ctx):
                    out.append((part[j], sig, msg))
        _note_time(ctx, f"{cfg[0]}/{cfg[1]}/{list(dims)}", len(idxs), time.time() - t0)
    return out


def d_judge(case, r, support, ctx: Ctx):
    cls = case["cls"]
    dims = d_dims(case)
    tables = d_reference(case)
    nd = len(dims)
    fails = []
    pre = f"C15/discrete/{cls}"
    desc = f"{cls}({case['param']}={case['values']}" + (f", action_dims={list(dims)}" if cls == "MultiCategorical" else "") + ")"

    def fail(what, msg):
        fails.append((f"{pre}/{what}", f"{desc}: {msg}"))

    elementwise = cls == "Bernoulli"
    V = support.shape[0]
    # reference per support point: (V, nd) component log-probs and joint
    ref_comp = np.stack([tables[i][support[:, i]] for i in range(nd)], axis=1)
    ref_joint = ref_comp.sum(axis=1)
    m = r["main"]
    lp = np.asarray(m["lp"], dtype=np.float64)
    pr = np.asarray(m["pr"], dtype=np.float64)
    want_shape = (V, nd) if (elementwise and isinstance(case["values"], list)) else (V,)
    if lp.shape != want_shape or pr.shape != want_shape:
        fail("shape", f"log_prob over the support has shape {lp.shape[1:]}, prob {pr.shape[1:]}, expected {want_shape[1:]}")
        return fails
    ref = ref_comp if elementwise else ref_joint
    ref = ref.reshape(want_shape)
    ok = close(lp, ref, rtol=1e-5, atol=1e-5)
    if not ok.all():
        fail("log_prob-vs-reference", worst(lp, ref, ok))
    for nm, one_by_one in (("lp_batch", lp), ("pr_batch", pr)):
        if nm in m:
            got_b = np.asarray(m[nm], dtype=np.float64)
            if got_b.shape != one_by_one.shape or not np.array_equal(np.isnan(got_b), np.isnan(one_by_one)) or not close(np.nan_to_num(got_b, neginf=-1e30), np.nan_to_num(one_by_one, neginf=-1e30), rtol=1e-5, atol=1e-6).all():
                fail("batched-call-differs-from-single-calls", f"{nm[:2]}: one call on the {V} support points gives shape {got_b.shape} values {got_b.ravel()[:6].tolist()}..., the single calls {one_by_one.shape} {one_by_one.ravel()[:6].tolist()}...")
    with np.errstate(over="ignore"):
        e = np.exp(lp)
    ok = close(pr, e, rtol=1e-5, atol=1e-6)
    if not ok.all():
        fail("prob-vs-exp-log_prob", worst(pr, e, ok))
    # total mass (joint over the complete support)
    for name, arr in (("prob", pr), ("exp-log_prob", e)):
        joint = arr.reshape(V, -1).prod(axis=1) if elementwise else arr
        tot = float(np.sum(joint))
        if not abs(tot - 1.0) <= 1e-5:
            fail(f"mass/{name}", f"sum over the {V} support points = {tot!r}")
    if elementwise:
        # every component is its own law on {0,1} and depends on its own coordinate only
        e2 = e.reshape(V, nd)
        for i in range(nd):
            for b in (0, 1):
                col = e2[support[:, i] == b, i]
                if col.size and np.ptp(col) > 1e-7:
                    fail("component-depends-on-other-coordinates", f"component {i} value {b}: probabilities {col.tolist()}")
            tot = float(e2[support[:, i] == 0, i][0] + e2[support[:, i] == 1, i][0])
            if not abs(tot - 1.0) <= 1e-5:
                fail("mass/component", f"component {i}: p(0)+p(1) = {tot!r}")
    # entropy
    ref_ent = np.array([d_entropy(t) for t in tables])
    ent = np.asarray(m["ent"], dtype=np.float64)
    ref_e = ref_ent.reshape(ent.shape) if elementwise else ref_ent.sum()
    ok = close(ent, ref_e, rtol=1e-5, atol=1e-6)
    if ent.shape != np.shape(ref_e) or not np.all(ok):
        fail("entropy", f"library {ent.tolist()!r} reference -sum p log p = {np.asarray(ref_e).tolist()!r}")

    def outside(x):
        x = np.asarray(x).astype(np.int64).reshape(-1, nd)
        return (x < 0) | (x >= np.asarray(dims)[None, :])

    def int8(x, bad):
        """Every offending index is negative in a component with more than 128 classes: the defect class
        'class index stored as int8' (one signature for all its manifestations)."""
        x = np.asarray(x).astype(np.int64).reshape(-1, nd)
        return bool(np.all((x[bad] < 0) & (np.broadcast_to(np.asarray(dims)[None, :], x.shape)[bad] > 128)))

    INT8 = "int8-index-overflow"

    # mode
    mode = np.asarray(m["mode"])
    bad = outside(mode)
    mode_ok = not bad.any()
    if mode.size != nd:
        fail("mode-shape", f"mode has shape {mode.shape}")
        mode_ok = False
    elif not mode_ok:
        fail(INT8 if int8(mode, bad) else "mode-outside-support", f"mode() = {mode.tolist()} for {list(dims)} classes")
    else:
        mv = mode.astype(np.int64).reshape(nd)
        for i in range(nd):
            pt = np.exp(tables[i])
            if not pt[mv[i]] >= pt.max() * (1 - 1e-5):
                fail("mode-not-argmax", f"component {i}: mode {int(mv[i])} has probability {pt[mv[i]]!r}, maximum is {pt.max()!r} at {int(pt.argmax())}")
                break
    # samples
    n = case["keys"][1]
    strides = np.concatenate([np.cumprod(np.asarray(dims)[::-1])[::-1][1:], [1]]).astype(np.int64)
    pj = np.exp(ref_joint)
    for stream in ("s", "s2"):
        name = "sample" if stream == "s" else "sample_and_log_prob"
        x = np.asarray(m[stream])
        if x.reshape(n, -1).shape[1] != nd:
            fail(f"{name}-shape", f"{name} returns event shape {x.shape[1:]}")
            continue
        bad = outside(x)
        if bad.any():
            xi = x.astype(np.int64).reshape(n, nd)
            k = int(np.argwhere(bad.any(axis=1))[0, 0])
            fail(INT8 if int8(x, bad) else "sample-outside-support", f"{name}(key({case_keys(case)[k]})) = {xi[k].tolist()} for {list(dims)} classes ({int(bad.any(axis=1).sum())} of {n} keys)")
            continue
        xi = x.astype(np.int64).reshape(n, nd)
        idx = xi @ strides
        if stream == "s2":
            l2 = np.asarray(m["l2"], dtype=np.float64)
            want = ref_comp[idx] if elementwise else ref_joint[idx]
            want = want.reshape(l2.shape) if l2.size == want.size else want
            if l2.shape != want.shape:
                fail("sample_and_log_prob-shape", f"log-prob shape {l2.shape[1:]}")
            else:
                ok = close(l2, want, rtol=1e-5, atol=1e-5)
                if not ok.all():
                    k = int(np.argwhere(~ok.reshape(n, -1).all(axis=1))[0, 0])
                    i8 = max(dims) > 128 and x.dtype == np.int8 and bool(np.all(np.isneginf(l2[~ok])))
                    fail(INT8 if i8 else "sample_and_log_prob-vs-reference", f"key({case_keys(case)[k]}): sample {xi[k].tolist()} returned log-prob {l2[k].tolist()!r}, reference log p(sample) = {want[k].tolist()!r} ({int((~ok).sum())} entries)")
                l2b = np.asarray(m["l2b"], dtype=np.float64)
                ok = close(l2, l2b, rtol=1e-5, atol=1e-6)
                if not ok.all():
                    k = int(np.argwhere(~ok.reshape(n, -1).all(axis=1))[0, 0])
                    fail("sample_and_log_prob-vs-log_prob", f"key({case_keys(case)[k]}): sample {xi[k].tolist()} returned log-prob {l2[k].tolist()!r}, log_prob(sample) = {l2b[k].tolist()!r}")
        counts = np.bincount(idx, minlength=V)
        zero = (pj == 0) & (counts > 0)
        if zero.any():
            v = int(np.argwhere(zero)[0, 0])
            fail("zero-probability-outcome-sampled", f"{name}: outcome {support[v].tolist()} has probability 0 and was drawn {int(counts[v])} times in {n} keys")
        else:
            b = kl_bound(counts, n, pj)
            _margin(ctx, "discrete/frequency", b.max() / LOGT)
            if (b > LOGT).any():
                v = int(np.argmax(b))
                fail("frequency", f"{name}: outcome {support[v].tolist()} drawn {int(counts[v])} times in {n} keys, stated probability {pj[v]!r} (Chernoff bound on such a deviation exp(-{b[v]:.1f}))")
            ctx.guard("frequency-tests", int((pj > 0).sum()))
    # product law: flat vs sequence, sums over the component class's own values
    if cls == "MultiCategorical":
        s = r["seq"]
        for field in ("lp", "pr", "ent", "mode", "s", "s2", "l2"):
            a, b2 = np.asarray(m[field]), np.asarray(s[field])
            same = a.shape == b2.shape and (
                np.array_equal(a, b2) if a.dtype.kind in "iub" else bool(np.all(close(a, b2, rtol=1e-6, atol=1e-6)))
            )
            if not same:
                fail(f"flat-vs-sequence/{field}", f"flat parameterisation gives {a.reshape(-1)[:6].tolist()}..., sequence gives {b2.reshape(-1)[:6].tolist()}...")
        ad = [np.asarray(m["action_dims"]).tolist(), np.asarray(r["seq_action_dims"]).tolist()]
        if ad[0] != list(dims) or ad[1] != list(dims):
            fail("action_dims", f"action_dims flat {ad[0]} sequence {ad[1]} expected {list(dims)}")
        comp = np.stack([np.asarray(r["comp_lp"][i], dtype=np.float64)[support[:, i]] for i in range(nd)], axis=1).sum(axis=1)
        ok = close(lp, comp, rtol=1e-5, atol=1e-6)
        if not ok.all():
            fail("product-sum/log_prob", worst(lp, comp, ok))
        ce = float(np.sum([np.asarray(x, dtype=np.float64) for x in r["comp_ent"]]))
        if not close(ent, ce, rtol=1e-5, atol=1e-6):
            fail("product-sum/entropy", f"entropy {float(ent)!r}, sum of the Categorical components' entropies {ce!r}")
    return fails


# ===========================================================================================
# continuous laws
# ===========================================================================================

G1 = 4001  # nodes per dimension of 1-D grids
TMAX = 12.0  # grids reach TMAX standard deviations of the base normal
XCLIP = 18.0  # beyond |x| = 16.6 the float32 sigmoid is saturated


def norm_cdf(z):
    z = np.asarray(z, dtype=np.float64)
    return 0.5 * np.vectorize(math.erfc)(-z / math.sqrt(2.0))


def c_components(case):
    """[(mu, sigma, low, high)] per dimension, exactly as float32 sees them."""
    loc = f32(case["loc"]).reshape(-1)
    sc = f32(case["scale"]).reshape(-1)
    if case["cls"] in SQUASHED:
        lo = np.broadcast_to(f32(case["low"]).reshape(-1), loc.shape)
        hi = np.broadcast_to(f32(case["high"]).reshape(-1), loc.shape)
    else:
        lo = hi = np.full(loc.shape, np.nan)
    return [(float(a), float(b), float(c), float(d)) for a, b, c, d in zip(loc, sc, lo, hi)]


def c_margin(comp) -> float:
    """Squashed laws: points closer to a bound than 4 float32 ulps (at the magnitude of the bounds) are where
    float32 cannot tell y from the bound ((y-low)/(high-low) rounds to 0 or 1); the density there is not
    demanded (grids stop short of it; samples landing there are counted, not judged)."""
    _, _, lo, hi = comp
    return 4 * EPS32 * max(abs(lo), abs(hi))


def c_nodes(comp, squashed: bool, G: int) -> np.ndarray:
    """G float32-exact, non-decreasing nodes (trailing repeats pad a shorter strictly increasing run)."""
    mu, sg, lo, hi = comp
    if not squashed:
        x = mu + sg * np.linspace(-TMAX, TMAX, G)
        y = f32(x)
    else:
        a, b = max(mu - TMAX * sg, -XCLIP), min(mu + TMAX * sg, XCLIP)
        x = np.linspace(a, b, G)
        y = f32(lo + (hi - lo) / (1.0 + np.exp(-x)))
        mg = c_margin(comp)
        y = y[(y >= lo + mg) & (y <= hi - mg)]
    y = np.unique(y)
    if y.size < G // 4:
        raise AssertionError(f"harness: degenerate grid for component {comp}")
    return np.concatenate([y, np.full(G - y.size, y[-1])])


def c_ref(comp, squashed: bool, y):
    """float64 (log density, cdf, first-order float32 conditioning of the log density) at nodes y."""
    mu, sg, lo, hi = comp
    y = np.asarray(y, dtype=np.float64)
    with np.errstate(divide="ignore", invalid="ignore", over="ignore"):
        if not squashed:
            z = (y - mu) / sg
            lp = -0.5 * z * z - math.log(sg) - 0.5 * math.log(2 * math.pi)
            return lp, norm_cdf(z), np.zeros_like(y)
        w = hi - lo
        s = (y - lo) / w
        x = np.log(s) - np.log1p(-s)
        z = (x - mu) / sg
        lp = -0.5 * z * z - math.log(sg) - 0.5 * math.log(2 * math.pi) - math.log(w) - np.log(s) - np.log1p(-s)
        # d log p / d s, times the rounding of s that float32 storage of y, low, high-low imposes
        dlp = np.abs(-(z / sg) / (s * (1 - s)) - 1.0 / s + 1.0 / (1 - s))
        ds = 4 * EPS32 * (1.0 + max(abs(lo), abs(hi)) / w)
        cdf = norm_cdf(z)
        cdf = np.where(y <= lo, 0.0, np.where(y >= hi, 1.0, cdf))
        return lp, cdf, dlp * ds


def c_tol(ref, cond):
    return 1e-4 + 1e-5 * np.abs(ref) + cond


def trap_w(y):
    """Trapezoid weights on (possibly padded) non-decreasing nodes."""
    d = np.diff(y)
    w = np.zeros_like(y)
    w[:-1] += d / 2
    w[1:] += d / 2
    return w


def xspace_w(comp, squashed, y):
    """Weights of the rule  int g(y) dy = int g(f(x)) f'(x) dx ~ sum_k W_k g(y_k)  with the trapezoid rule in
    x = f^-1(y) (the base normal's coordinate, where the integrand is a Gaussian and the rule is
    spectrally accurate on few nodes).  Used for 2-D tensor grids only."""
    if not squashed:
        return trap_w(y)
    mu, sg, lo, hi = comp
    w = hi - lo
    s = (y - lo) / w
    x = np.log(s) - np.log1p(-s)
    return trap_w(x) * w * s * (1 - s)


def c_cfg(case):
    cls = case["cls"]
    loc = case["loc"]
    d = len(loc) if isinstance(loc, list) else None
    bc = False
    if cls in SQUASHED and d is not None:
        lo, hi = np.asarray(case["low"]).reshape(-1), np.asarray(case["high"]).reshape(-1)
        bc = bool(np.all(lo == lo[0]) and np.all(hi == hi[0]))
    return (cls, d, bc, case["keys"][1], int(case.get("G2", 81)))


_CJIT: dict = {}


def c_fn(cfg):
    if cfg in _CJIT:
        return _CJIT[cfg]
    cls, d, bc, K, G2 = cfg
    joint = cls in JOINT
    squashed = cls in SQUASHED

    def build(p, bcast=False):
        loc, sc, lo, hi = p["loc"], p["scale"], p["low"], p["high"]
        if d is None:
            loc, sc, lo, hi = loc[0], sc[0], lo[0], hi[0]
        elif bcast:
            lo, hi = lo[0], hi[0]
        if cls == "Normal":
            return D.Normal(loc, sc)
        if cls == "MultivariateNormalDiag":
            return D.MultivariateNormalDiag(loc, sc)
        if cls == "SquashedNormal":
            return D.SquashedNormal(loc, sc, high=hi, low=lo)
        return D.SquashedMultivariateNormalDiag(loc, sc, high=hi, low=lo)

    def points(nodes):
        if d is None:
            return nodes[0]
        if not joint or d == 1:
            return nodes.T  # (G, d): the k-th point takes the k-th node of every dimension
        a, b = jnp.meshgrid(nodes[0], nodes[1], indexing="ij")
        return jnp.stack([a.reshape(-1), b.reshape(-1)], axis=-1)

    def evaluate(dist, pts, keys):
        out = dict(lp=jax.vmap(dist.log_prob)(pts), pr=jax.vmap(dist.prob)(pts))
        try:
            out["ent"] = dist.entropy()
        except NotImplementedError:
            out["ent"] = None
        mode = dist.mode()
        out["mode"] = mode
        out["lp_mode"] = dist.log_prob(mode)
        out["s"] = jax.vmap(dist.sample)(keys)
        out["s2"], out["l2"] = jax.vmap(dist.sample_and_log_prob)(keys)
        return out

    @eqx.filter_jit
    def run(P, keys):
        def one(p):
            pts = points(p["nodes"])
            out = {"main": evaluate(build(p), pts, keys)}
            if bc:
                out["bcast"] = evaluate(build(p, bcast=True), pts, keys)
            if joint:
                comp_lp, comp_ent = [], []
                for i in range(d):
                    if squashed:
                        c = D.SquashedNormal(p["loc"][i], p["scale"][i], high=p["high"][i], low=p["low"][i])
                    else:
                        c = D.Normal(p["loc"][i], p["scale"][i])
                    comp_lp.append(jax.vmap(c.log_prob)(p["nodes"][i]))
                    try:
                        comp_ent.append(c.entropy())
                    except NotImplementedError:
                        comp_ent.append(None)
                out["comp_lp"] = comp_lp
                out["comp_ent"] = comp_ent
            return out

        return jax.vmap(one)(P)

    _CJIT[cfg] = run
    return run


def c_grid_size(cfg):
    cls, d, _, _, G2 = cfg
    return G2 if (cls in JOINT and d == 2) else G1


def clause_continuous(cases, ctx: Ctx):
    out = []
    groups: dict = {}
    for i, c in enumerate(cases):
        groups.setdefault(c_cfg(c), []).append(i)
    for cfg, idxs in groups.items():
        cls, d, bc, K, G2 = cfg
        squashed = cls in SQUASHED
        G = c_grid_size(cfg)
        t0 = time.time()
        B = batch_size(len(idxs))
        if B > 1:
            per = (G * G if G == G2 and d == 2 and cls in JOINT else G * (d or 1)) + K * (d or 1)
            B = max(1, min(B, int(4e7 // (per * (2 if bc else 1)))))
        for lo_ in range(0, len(idxs), B):
            part = idxs[lo_ : lo_ + B]
            sub = [cases[i] for i in part]
            if len({tuple(c["keys"]) for c in sub}) != 1:
                raise AssertionError("harness: cases of one batch must share the key block")
            comps = [c_components(c) for c in sub]
            nodes = [np.stack([c_nodes(cp, squashed, G) for cp in cc]) for cc in comps]
            P = {
                "loc": np.stack([[cp[0] for cp in cc] for cc in comps]),
                "scale": np.stack([[cp[1] for cp in cc] for cc in comps]),
                "low": np.stack([[cp[2] for cp in cc] for cc in comps]),
                "high": np.stack([[cp[3] for cp in cc] for cc in comps]),
                "nodes": np.stack(nodes),
            }
            P = {k: np.asarray(v, dtype=np.float32) for k, v in P.items()}
            if len(sub) < B:
                P = {k: np.concatenate([v, np.repeat(v[-1:], B - len(sub), axis=0)]) for k, v in P.items()}
            res = c_fn(cfg)({k: jnp.asarray(v) for k, v in P.items()}, jkeys(case_keys(sub[0])))
            res = jax.tree.map(np.asarray, res)
            for j, c in enumerate(sub):
                r = jax.tree.map(lambda x: x[j], res)
                for sig, msg in c_judge(c, cfg, comps[j], nodes[j], r, ctx):
                    out.append((part[j], sig, msg))
        _note_time(ctx, f"{cls}/dims={d}" + ("/equal-bounds" if bc else ""), len(idxs), time.time() - t0)
    return out


def c_describe(case):
    s = f"{case['cls']}(loc={case['loc']}, scale={case['scale']}"
    if case["cls"] in SQUASHED:
        s += f", low={case['low']}, high={case['high']}"
    return s + ")"


def c_judge(case, cfg, comps, nodes, r, ctx: Ctx):
    cls, d, bc, K, G2 = cfg
    joint = cls in JOINT
    squashed = cls in SQUASHED
    nd = len(comps)
    G = nodes.shape[1]
    fails = []
    pre = f"C15/continuous/{cls}"
    desc = c_describe(case)
    kk = case_keys(case)

    def fail(what, msg):
        fails.append((f"{pre}/{what}", f"{desc}: {msg}"))

    refs = [c_ref(comps[i], squashed, nodes[i]) for i in range(nd)]  # (lp, cdf, cond) per dim
    tensor = joint and nd == 2
    m = r["main"]
    lp = np.asarray(m["lp"], dtype=np.float64)
    pr = np.asarray(m["pr"], dtype=np.float64)
    if tensor:
        want_shape = (G * G,)
    elif joint or d is None:
        want_shape = (G,)
    else:
        want_shape = (G, nd)
    if lp.shape != want_shape or pr.shape != want_shape:
        fail("shape", f"log_prob on the grid has shape {lp.shape}, prob {pr.shape}, expected {want_shape}")
        return fails
    if tensor:
        ref_lp = (refs[0][0][:, None] + refs[1][0][None, :]).reshape(-1)
        cond = (refs[0][2][:, None] + refs[1][2][None, :]).reshape(-1)
    elif joint or d is None:
        ref_lp, cond = refs[0][0], refs[0][2]
    else:
        ref_lp = np.stack([x[0] for x in refs], axis=1)
        cond = np.stack([x[2] for x in refs], axis=1)
    if np.isnan(lp).any():
        i = np.argwhere(np.isnan(lp))[0]
        fail("log_prob-nan-inside-support", f"log_prob is NaN at grid index {i.tolist()} ({int(np.isnan(lp).sum())} nodes)")
        return fails
    ok = np.abs(lp - ref_lp) <= c_tol(ref_lp, cond)
    _margin(ctx, f"{cls}/log_prob-vs-reference", np.max(np.abs(lp - ref_lp) / c_tol(ref_lp, cond)))
    if not ok.all():
        fail("log_prob-vs-reference", worst(lp, ref_lp, ok))
    with np.errstate(over="ignore"):
        e = np.exp(lp)
    ok = np.abs(pr - e) <= 1e-5 * e + 1e-37
    if not ok.all():
        fail("prob-vs-exp-log_prob", worst(pr, e, ok))
    # ---- total mass and entropy by quadrature of the density the class reports
    quad_ent = None
    cums = []  # per dimension: cumulative integral of the (marginal) reported density at the nodes
    with np.errstate(invalid="ignore"):
        plogp = np.where(e > 0, e * lp, 0.0)
    if tensor:
        W = [xspace_w(comps[i], squashed, nodes[i]) for i in range(2)]
        e2 = e.reshape(G, G)
        mass = np.array([float(W[0] @ e2 @ W[1])])
        quad_ent = -float(W[0] @ plogp.reshape(G, G) @ W[1])
        marg = [e2 @ W[1], W[0] @ e2]
        for i in range(2):
            t = W[i] * marg[i]
            cums.append(np.cumsum(t) - t / 2)
    else:
        cols = lp.reshape(G, -1).shape[1]
        mass = np.zeros(cols)
        qe = np.zeros(cols)
        for i in range(cols):
            w = trap_w(nodes[i])
            ei = e.reshape(G, -1)[:, i]
            mass[i] = float(w @ ei)
            qe[i] = -float(w @ plogp.reshape(G, -1)[:, i])
            dy = np.diff(nodes[i])
            cums.append(np.concatenate([[0.0], np.cumsum(dy * (ei[:-1] + ei[1:]) / 2)]))
        quad_ent = qe if not (joint or d is None) else float(qe[0])
    _margin(ctx, f"{cls}/mass", np.max(np.abs(mass - 1.0)) / 1e-3)
    if not np.all(np.abs(mass - 1.0) <= 1e-3):
        fail("mass", f"quadrature of exp(log_prob) over the support = {mass.tolist()} (should be 1 within 1e-3)")
    # ---- entropy
    ent = m["ent"]
    if ent is None:
        ctx.guard("entropy-undefined")
    else:
        ent = np.asarray(ent, dtype=np.float64)
        if not squashed:
            ce = np.array([0.5 * math.log(2 * math.pi * math.e * c[1] ** 2) for c in comps])
            ref_e = ce.sum() if joint else ce.reshape(ent.shape) if ent.size == ce.size else ce
            if np.shape(ref_e) != ent.shape or not np.all(close(ent, ref_e, rtol=1e-5, atol=1e-5)):
                fail("entropy-vs-reference", f"entropy() = {ent.tolist()!r}, closed form {np.asarray(ref_e).tolist()!r}")
        qe_ = np.asarray(quad_ent, dtype=np.float64)
        if qe_.shape == ent.shape:
            _margin(ctx, f"{cls}/entropy-vs-quadrature", np.max(np.abs(ent - qe_) / (2e-3 * np.maximum(1.0, np.abs(qe_)))))
        if qe_.shape != ent.shape or not np.all(np.abs(ent - qe_) <= 2e-3 * np.maximum(1.0, np.abs(qe_))):
            fail("entropy-vs-quadrature", f"entropy() = {ent.tolist()!r}, -int p log p by quadrature = {qe_.tolist()!r}")
        ctx.guard("entropy-defined")
    # ---- mode
    mode = np.asarray(m["mode"], dtype=np.float64)
    if mode.size != nd or not np.isfinite(mode).all():
        fail("mode-outside-support", f"mode() = {mode.tolist()}")
    else:
        mv = mode.reshape(nd)
        if squashed and any(not (comps[i][2] <= mv[i] <= comps[i][3]) for i in range(nd)):
            fail("mode-outside-support", f"mode() = {mode.tolist()} not within [low, high]")
        if not squashed:
            lpm = np.asarray(m["lp_mode"], dtype=np.float64)
            top = lp.max(axis=0)
            if np.shape(lpm) != np.shape(top) or not np.all(lpm >= top - 1e-5):
                fail("mode-not-argmax", f"log_prob(mode()) = {lpm.tolist()!r} but the density reaches {top.tolist()!r} on the grid")
    # ---- samples
    n = K
    eps = dkw_eps(n)
    U = {}
    for stream in ("s", "s2"):
        name = "sample" if stream == "s" else "sample_and_log_prob"
        x = np.asarray(m[stream], dtype=np.float64)
        if x.reshape(n, -1).shape[1] != nd or (d is None and x.shape != (n,)):
            fail(f"{name}-shape", f"{name} returns event shape {x.shape[1:]}")
            continue
        x = x.reshape(n, nd)
        bad = ~np.isfinite(x)
        if squashed:
            lo_ = np.array([c[2] for c in comps])
            hi_ = np.array([c[3] for c in comps])
            bad |= (x < lo_[None, :]) | (x > hi_[None, :])
        if bad.any():
            k = int(np.argwhere(bad.any(axis=1))[0, 0])
            fail("sample-outside-support", f"{name}(key({kk[k]})) = {x[k].tolist()}" + (" not within [low, high]" if squashed else " not finite") + f" ({int(bad.any(axis=1).sum())} of {n} keys)")
            continue
        per = [c_ref(comps[i], squashed, x[:, i]) for i in range(nd)]
        if stream == "s2":
            l2 = np.asarray(m["l2"], dtype=np.float64)
            rl = np.stack([p[0] for p in per], axis=1)
            rc = np.stack([p[2] for p in per], axis=1)
            inside = np.ones(n, dtype=bool)
            if squashed:
                mg_ = np.array([c_margin(c) for c in comps])
                inside = ((x >= (lo_ + mg_)[None, :]) & (x <= (hi_ - mg_)[None, :])).all(axis=1)
                ctx.guard("saturated-samples-skipped", int((~inside).sum()))
            if joint:
                rl, rc = rl.sum(axis=1), rc.sum(axis=1)
            elif d is None:
                rl, rc = rl[:, 0], rc[:, 0]
            if l2.shape != rl.shape:
                fail("sample_and_log_prob-shape", f"log-prob shape {l2.shape[1:]}")
            else:
                sel = inside if (joint or d is None) else np.broadcast_to(inside[:, None], rl.shape)
                with np.errstate(invalid="ignore"):
                    ok = (np.abs(l2 - rl) <= c_tol(rl, rc)) | ~sel
                    _margin(ctx, f"{cls}/sample_and_log_prob-vs-reference", np.nanmax(np.where(sel, np.abs(l2 - rl) / c_tol(rl, rc), 0.0)))
                if not ok.all():
                    k = int(np.argwhere(~ok.reshape(n, -1).all(axis=1))[0, 0])
                    fail("sample_and_log_prob-vs-reference", f"key({kk[k]}): sample {x[k].tolist()} returned log-prob {l2[k].tolist()!r}, reference log p(sample) = {rl[k].tolist()!r} ({int((~ok).sum())} entries)")
                ctx.guard("sample-log-probs-checked", int(np.sum(sel)))
        # samples follow the stated density: ECDF against the reference CDF and the integrated reported density
        u = np.stack([p[1] for p in per], axis=1)
        U[stream] = u
        for i in range(nd):
            us = np.sort(u[:, i])
            dn = max(np.max(np.arange(1, n + 1) / n - us), np.max(us - np.arange(0, n) / n))
            _margin(ctx, f"{cls}/ecdf-vs-reference-cdf", dn / eps)
            if dn > eps:
                fail("ecdf-vs-reference-cdf", f"{name}, dimension {i}: sup|ECDF - F| = {dn:.4f} over {n} keys (DKW threshold {eps:.4f})")
            xs = np.sort(x[:, i])
            ec = np.searchsorted(xs, nodes[i], side="right") / n
            slack = 1e-2 if tensor else 2e-3
            dn2 = float(np.max(np.abs(ec - cums[i])))
            _margin(ctx, f"{cls}/ecdf-vs-integrated-density", dn2 / (eps + slack))
            if dn2 > eps + slack:
                fail("ecdf-vs-integrated-density", f"{name}, dimension {i}: sup over grid nodes |ECDF - int exp(log_prob)| = {dn2:.4f} over {n} keys (threshold {eps + slack:.4f})")
        if joint and nd == 2:
            # independence of the components: rectangle counts against the product of the marginals
            qs = (0.25, 0.5, 0.75)
            for a in qs:
                for b in qs:
                    cnt = int(np.sum((u[:, 0] <= a) & (u[:, 1] <= b)))
                    bb = float(kl_bound(np.array(cnt), n, np.array(a * b)))
                    _margin(ctx, f"{cls}/components-independent", bb / LOGT)
                    if bb > LOGT:
                        fail("components-not-independent", f"{name}: {cnt} of {n} samples in the rectangle of marginal quantiles (<= {a}, <= {b}), stated probability {a * b} (Chernoff exp(-{bb:.1f}))")
            ctx.guard("independence-tests", 9)
        ctx.guard("ecdf-tests", 2 * nd)
    # ---- product law: sums over the component class's own values, broadcast bounds
    if joint:
        cl = [np.asarray(x, dtype=np.float64) for x in r["comp_lp"]]
        comp = (cl[0][:, None] + cl[1][None, :]).reshape(-1) if tensor else cl[0]
        ok = close(lp, comp, rtol=1e-5, atol=1e-4)
        if not ok.all():
            fail("product-sum/log_prob", worst(lp, comp, ok))
        if m["ent"] is not None and all(x is not None for x in r["comp_ent"]):
            ce = float(np.sum([np.asarray(x, dtype=np.float64) for x in r["comp_ent"]]))
            if not close(ent, ce, rtol=1e-5, atol=1e-5):
                fail("product-sum/entropy", f"entropy {float(ent)!r}, sum of the component laws' entropies {ce!r}")
    if bc:
        b = r["bcast"]
        for field in ("lp", "pr", "mode", "s", "s2", "l2"):
            a, b2 = np.asarray(m[field]), np.asarray(b[field])
            if a.shape != b2.shape or not np.array_equal(a, b2, equal_nan=True):
                fail(f"scalar-vs-vector-bounds/{field}", f"vector bounds give {a.reshape(-1)[:6].tolist()}..., the same bounds as scalars give {b2.reshape(-1)[:6].tolist()}...")
        ctx.guard("broadcast-bounds-cases")
    return fails


# ===========================================================================================
# construction from every ArrayLike container
# ===========================================================================================

CONTAINERS = ("python", "numpy", "numpy64", "jax")


def _wrap(x, form):
    if form == "python":
        return x
    if form == "numpy":
        return np.asarray(x, dtype=np.float32)
    if form == "numpy64":
        return np.asarray(x, dtype=np.float64)
    return jnp.asarray(x, dtype=jnp.float32)


def _construct(case, form_params, form_bounds):
    cls = case["cls"]
    if cls in ("Categorical", "Bernoulli"):
        return getattr(D, cls)(**{case["param"]: _wrap(case["values"], form_params)})
    if cls == "MultiCategorical":
        if form_params == "python":  # a Python list is the sequence form: one list per component
            offs = np.concatenate([[0], np.cumsum(case["dims"])])
            pieces = [list(case["values"][offs[i] : offs[i + 1]]) for i in range(len(case["dims"]))]
            return D.MultiCategorical(**{case["param"]: pieces})
        return D.MultiCategorical(**{case["param"]: _wrap(case["values"], form_params)}, action_dims=tuple(case["dims"]))
    loc, sc = _wrap(case["loc"], form_params), _wrap(case["scale"], form_params)
    if cls == "Normal":
        return D.Normal(loc, sc)
    if cls == "MultivariateNormalDiag":
        return D.MultivariateNormalDiag(loc, sc)
    return getattr(D, cls)(loc, sc, high=_wrap(case["high"], form_bounds), low=_wrap(case["low"], form_bounds))


def clause_construct(cases, ctx: Ctx):
    """case: a parameter point + 'arg' ('params'|'bounds') + 'form': that argument group is handed over in
    the given container, everything else as jax arrays; the law must be the one built from jax arrays."""
    out = []
    for i, c in enumerate(cases):
        cls = c["cls"]
        fp = c["form"] if c["arg"] == "params" else "jax"
        fb = c["form"] if c["arg"] == "bounds" else "jax"
        base = _construct(c, "jax", "jax")
        pts = [jnp.asarray(p, dtype=(jnp.int32 if cls in DISCRETE else jnp.float32)) for p in c["points"]]
        try:
            other = _construct(c, fp, fb)
            got = [np.asarray(other.log_prob(p)) for p in pts]
        except (ValueError, TypeError) as e:
            kind = "non-array" if c["form"] == "python" else c["form"]
            out.append((i, f"C15/construct/{cls}/{kind}-{c['arg']}-rejected", f"{cls} with {c['arg']} given as {c['form']} values ({c}) raised {type(e).__name__}: {str(e)[:160]}"))
            continue
        want = [np.asarray(base.log_prob(p)) for p in pts]
        for p, a, b in zip(c["points"], got, want):
            if a.shape != b.shape or not np.all(close(a, b, rtol=1e-6, atol=1e-6) | (np.isnan(a) & np.isnan(b))):
                out.append((i, f"C15/construct/{cls}/{c['form']}-{c['arg']}-different-law", f"{cls}: log_prob({p}) = {a.tolist()} with {c['arg']} as {c['form']}, {b.tolist()} with jax arrays"))
                break
    return out


CLAUSES = {"discrete": clause_discrete, "continuous": clause_continuous, "construct": clause_construct}


# ===========================================================================================
# enumeration
# ===========================================================================================

LOGITS = [-30.0, -2.0, 0.0, 1.0, 30.0]
WEIGHTS = [0.0, 1.0, 2.0, 4.0]  # exact-probability grids are all normalised weight vectors over these
LOCS = [-3.0, 0.0, 2.0]
SCALES = [0.1, 1.0, 3.0]
BOUNDS = [(-1.0, 1.0), (0.0, 5.0), (-2.0, -1.0), (-0.5, 7.0)]


def softmax64(v):
    v = np.asarray(v, dtype=np.float64)
    e = np.exp(v - v.max())
    return (e / e.sum()).tolist()


def sigmoid64(v):
    return (1.0 / (1.0 + np.exp(-np.asarray(v, dtype=np.float64)))).tolist()


def exact_prob_vectors(n):
    seen, out = set(), []
    for w in itertools.product(WEIGHTS, repeat=n):
        if sum(w) == 0:
            continue
        p = tuple(x / sum(w) for x in w)
        if p not in seen:
            seen.add(p)
            out.append(list(p))
    return out


def run_grouped(ctx: Ctx, clause: str, cases, cfg_of):
    """One ctx.run per static configuration, so that a crash in one class cannot hide the others."""
    groups: dict = {}
    for c in cases:
        groups.setdefault(cfg_of(c), []).append(c)
    for sub in groups.values():
        ctx.run(clause, sub)


def explore(ctx: Ctx):
    thorough = ctx.tier == "thorough"
    K = 8192 if thorough else 4096
    ks = key_ints(ctx.seed, K)
    if ks != list(range(ks[0], ks[0] + K)):
        raise AssertionError("harness: key block must be consecutive")
    keys = [ks[0], K]
    logits = LOGITS + ([-5.0, 3.0] if thorough else [])
    locs = LOCS + ([0.5] if thorough else [])
    scales = SCALES + ([0.5] if thorough else [])
    bounds = BOUNDS + ([(-10.0, 10.0)] if thorough else [])
    G2 = 161 if thorough else 81

    ctx.rule = (
        "full Cartesian grids: Categorical logits in L^n (n<=4) with L={-30,-2,0,1,30} (thorough adds -5,3), the same laws "
        "given as probs (float64 soft-max of the logits) plus every normalised weight vector over {0,1,2,4}^n (exact zeros and "
        "ties), and n in {128,129,200} (uniform / mass on the last class / mass on the first class); Bernoulli logits in L^d "
        "and probs, scalar and d<=3; MultiCategorical logits in L^sum(dims) and probs for action_dims (2,),(2,3),(1,2,2) "
        "(thorough adds (3,2),(2,1,2)) and (2,130), each evaluated flat and as a sequence; Normal / MultivariateNormalDiag / "
        "SquashedNormal / SquashedMultivariateNormalDiag with (loc,scale,(low,high)) in full product per dimension, scalar "
        "and dims<=2. Every law is evaluated on its complete support (discrete) or a 4001-node grid per dimension to 12 sigma "
        "(2-D joint laws: tensor grid) and sampled with every key of one fixed block. "
        "non-trivial = a parameter point whose law is not the class's default-looking one (not all-equal logits / not "
        "loc=0,scale=1 with bounds (-1,1) in every dimension)"
    )
    ctx.assumptions = [
        f"PRNG keys limited to one block of {K} consecutive integers of the key alphabet K (jax.random.key(i), first = 1000*seed); "
        "the sampling clauses are finite checks on that block, not statements over all keys (exhaustive=false for them)",
        f"frequency / ECDF thresholds are exact tail bounds at level {DELTA:g} per test (Chernoff: n*KL(q||p) <= {LOGT:.1f}; "
        f"DKW: sup|ECDF-F| <= {dkw_eps(K):.4f}); the run is deterministic for a given seed",
        "float32 results are compared with float64 references at 1e-5 relative (discrete) / 1e-4 + 1e-5|ref| (densities); "
        "for squashed laws the tolerance adds the first-order effect on log p of the rounding of (y-low)/(high-low) that "
        "float32 storage of y imposes (4 ulp), so nodes within ~1e-5 of a bound constrain the density only loosely",
        "squashed grids cover the float32-representable open interval (|logit| <= 16.6); log_prob exactly at low/high is not "
        "demanded; sample_and_log_prob is not compared at samples that round to exactly low or high (counted)",
        "total mass tolerance 1e-3 by trapezoid quadrature on the exact float32 nodes (2-D: tensor rule with the trapezoid "
        "rule in the base normal's coordinate)",
        "entropy is demanded only where the class defines it (squashed laws raise NotImplementedError: counted, not failed); "
        "mean() is not part of the property",
        "masking (-inf logits) belongs to C16 and is not enumerated here",
    ]

    def nontriv_discrete(c):
        v = np.asarray(c["values"]).reshape(-1)
        if np.ptp(v) > 0:
            ctx.nontriv(chash({k: c[k] for k in c if k != "keys"}))

    # ------------------------------------------------------------------ discrete
    disc = []
    for n in range(1, 5 if not thorough else 6):
        lg = logits if n <= 4 else LOGITS
        for v in itertools.product(lg, repeat=n):
            disc.append({"cls": "Categorical", "param": "logits", "values": list(v), "keys": keys})
            disc.append({"cls": "Categorical", "param": "probs", "values": softmax64(v), "keys": keys})
        if n <= 4:
            for p in exact_prob_vectors(n):
                disc.append({"cls": "Categorical", "param": "probs", "values": p, "keys": keys})
    for n in (128, 129, 200):
        pats = {
            "uniform": [0.0] * n,
            "last": [-30.0] * (n - 1) + [0.0],
            "first": [0.0] + [-30.0] * (n - 1),
        }
        for name, v in pats.items():
            disc.append({"cls": "Categorical", "param": "logits", "values": v, "keys": keys})
            if n > 128:
                ctx.guard("classes-beyond-int8")
    for d in (None, 1, 2, 3) + ((4,) if thorough else ()):
        lg = logits if (d or 1) <= 3 else LOGITS
        for v in itertools.product(lg, repeat=d or 1):
            vals = list(v) if d else v[0]
            disc.append({"cls": "Bernoulli", "param": "logits", "values": vals, "keys": keys})
            pv = sigmoid64(v)
            disc.append({"cls": "Bernoulli", "param": "probs", "values": pv if d else pv[0], "keys": keys})
        for v in itertools.product([0.0, 0.25, 0.5, 1.0], repeat=d or 1):
            disc.append({"cls": "Bernoulli", "param": "probs", "values": list(v) if d else v[0], "keys": keys})
    dimsets = [(2,), (2, 3), (1, 2, 2)] + ([(3, 2), (2, 1, 2)] if thorough else [])
    for dims in dimsets:
        lg = logits if sum(dims) <= 4 else LOGITS
        offs = np.concatenate([[0], np.cumsum(dims)])
        for v in itertools.product(lg, repeat=sum(dims)):
            disc.append({"cls": "MultiCategorical", "param": "logits", "dims": list(dims), "values": list(v), "keys": keys})
            pv = sum((softmax64(v[offs[i] : offs[i + 1]]) for i in range(len(dims))), [])
            disc.append({"cls": "MultiCategorical", "param": "probs", "dims": list(dims), "values": pv, "keys": keys})
    # product laws with classes of EXACTLY zero probability (one-hot components included): 0 * log 0 = 0 in the entropy
    for dims in dimsets[:3]:
        per = [[p for p in exact_prob_vectors(k) if (0.0 in p) or len(p) == 1][:: (1 if thorough else 2)][:4] + [[1.0 / k] * k] for k in dims]
        for combo in itertools.product(*per):
            if any(0.0 in p for p in combo):
                disc.append({"cls": "MultiCategorical", "param": "probs", "dims": list(dims), "values": sum((list(p) for p in combo), []), "keys": keys})
    for last in ([0.0] * 130, [-30.0] * 129 + [0.0]):
        disc.append({"cls": "MultiCategorical", "param": "logits", "dims": [2, 130], "values": [0.0, 1.0] + last, "keys": keys})
    for c in disc:
        nontriv_discrete(c)
        tabs = d_reference(c)
        for t in tabs:
            p = np.exp(t)
            if np.sum(p >= p.max() * (1 - 1e-9)) > 1:
                ctx.guard("tied-mode")
            if p.max() >= 1 - 1e-9 and len(p) > 1:
                ctx.guard("near-deterministic-component")
            if (p == 0).any():
                ctx.guard("exact-zero-probability")
    run_grouped(ctx, "discrete", disc, d_cfg)

    # ------------------------------------------------------------------ continuous
    cont = []
    one = [(l, s) for l in locs for s in scales]
    oneb = [(l, s, b) for l in locs for s in scales for b in bounds]
    for l, s in one:
        cont.append({"cls": "Normal", "loc": l, "scale": s, "keys": keys})
        cont.append({"cls": "Normal", "loc": [l], "scale": [s], "keys": keys})
        cont.append({"cls": "MultivariateNormalDiag", "loc": [l], "scale": [s], "keys": keys, "G2": G2})
    for (l1, s1), (l2, s2) in itertools.product(one, repeat=2):
        cont.append({"cls": "Normal", "loc": [l1, l2], "scale": [s1, s2], "keys": keys})
        cont.append({"cls": "MultivariateNormalDiag", "loc": [l1, l2], "scale": [s1, s2], "keys": keys, "G2": G2})
    for l, s, (lo, hi) in oneb:
        cont.append({"cls": "SquashedNormal", "loc": l, "scale": s, "low": lo, "high": hi, "keys": keys})
        cont.append({"cls": "SquashedNormal", "loc": [l], "scale": [s], "low": [lo], "high": [hi], "keys": keys})
        cont.append({"cls": "SquashedMultivariateNormalDiag", "loc": [l], "scale": [s], "low": [lo], "high": [hi], "keys": keys, "G2": G2})
    for (l1, s1, b1), (l2, s2, b2) in itertools.product(oneb, repeat=2):
        for cls in SQUASHED:
            cont.append({"cls": cls, "loc": [l1, l2], "scale": [s1, s2], "low": [b1[0], b2[0]], "high": [b1[1], b2[1]], "keys": keys, "G2": G2})
    for c in cont:
        comps = c_components(c)
        if any((cp[0], cp[1]) != (0.0, 1.0) or (c["cls"] in SQUASHED and (cp[2], cp[3]) != (-1.0, 1.0)) for cp in comps):
            ctx.nontriv(chash({k: c[k] for k in c if k != "keys"}))
        if c["cls"] in SQUASHED:
            if any(cp[2] * cp[3] > 0 for cp in comps):
                ctx.guard("bounds-not-containing-zero")
            if len({(cp[2], cp[3]) for cp in comps}) > 1:
                ctx.guard("per-dimension-bounds-differ")
    run_grouped(ctx, "continuous", cont, c_cfg)

    # ------------------------------------------------------------------ construction
    cons = []
    protos = [
        ({"cls": "Categorical", "param": "logits", "values": [0.0, 1.0, -2.0]}, [0, 2]),
        ({"cls": "Categorical", "param": "probs", "values": [0.25, 0.5, 0.25]}, [0, 1]),
        ({"cls": "Bernoulli", "param": "logits", "values": [1.0, -2.0]}, [[0, 1], [1, 1]]),
        ({"cls": "Bernoulli", "param": "probs", "values": 0.25}, [0, 1]),
        ({"cls": "MultiCategorical", "param": "logits", "dims": [1, 2, 2], "values": [0.0, 1.0, -2.0, 0.0, 30.0]}, [[0, 1, 0], [0, 0, 1]]),
        ({"cls": "Normal", "loc": 2.0, "scale": 3.0}, [0.5, -4.0]),
        ({"cls": "Normal", "loc": [2.0, 0.0], "scale": [3.0, 0.1]}, [[0.5, 0.05]]),
        ({"cls": "MultivariateNormalDiag", "loc": [2.0, 0.0], "scale": [3.0, 0.1]}, [[0.5, 0.05]]),
        ({"cls": "SquashedNormal", "loc": 2.0, "scale": 3.0, "low": 0.0, "high": 5.0}, [0.5, 4.0]),
        ({"cls": "SquashedNormal", "loc": [2.0, 0.0], "scale": [3.0, 1.0], "low": [0.0, -2.0], "high": [5.0, -1.0]}, [[0.5, -1.5]]),
        ({"cls": "SquashedMultivariateNormalDiag", "loc": [2.0, 0.0], "scale": [3.0, 1.0], "low": [0.0, -2.0], "high": [5.0, -1.0]}, [[0.5, -1.5]]),
        ({"cls": "SquashedMultivariateNormalDiag", "loc": [2.0, 0.0], "scale": [3.0, 1.0], "low": -0.5, "high": 7.0}, [[0.5, 1.5]]),
    ]
    for proto, pts in protos:
        for arg in ("params", "bounds"):
            if arg == "bounds" and proto["cls"] not in SQUASHED:
                continue
            for form in CONTAINERS:
                cons.append(dict(proto, arg=arg, form=form, points=pts))
                ctx.nontriv(chash(cons[-1]))
                if form == "python":
                    ctx.guard("python-container-cases")
    ctx.run("construct", cons)

    ctx.exhaustive = False  # the sampling sub-clauses are decided on one finite key block
    ctx.require(
        "tied-mode", "near-deterministic-component", "exact-zero-probability", "classes-beyond-int8",
        "frequency-tests", "ecdf-tests", "independence-tests", "entropy-defined", "entropy-undefined",
        "sample-log-probs-checked", "bounds-not-containing-zero", "per-dimension-bounds-differ",
        "broadcast-bounds-cases", "python-container-cases",
    )
    ctx.notes["key_block"] = {"first": keys[0], "count": K}
    ctx.notes["parameter_points"] = {"discrete": len(disc), "continuous": len(cont), "construct": len(cons)}
    ctx.notes["grid_nodes_1d"] = G1
    ctx.notes["grid_nodes_2d_per_dim"] = G2
    ctx.notes["clauses_not_exhaustive"] = ["sample support / sample_and_log_prob / frequency / ECDF (finite key block)"]
