"""C18 - saving and loading a policy restores it exactly or fails loudly.

Every case is one complete save/load experiment on the REAL `Serializable.serialize` /
`Serializable.deserialize` with a real policy object:

  roundtrip  build policy P = cls(env, **kw, key=K1) (optionally overwrite its parameter leaves with
             special bit patterns), P.serialize(<path spelling>) inside a fresh scratch directory,
             jax.effects_barrier(), look at the files, cls.deserialize(<same spelling>, env, **kw,
             key=K2) with K2 != K1, compare every leaf bit by bit and every public output on a
             small observation alphabet.
  mismatch   save policy A, try to load it with the constructor arguments of configuration B of the
             same class whose parameter-shape list differs: deserialize must raise.

Reference = the property statement: "bit-identical leaves, identical outputs" needs no model of the
implementation - the original object is the oracle for the loaded one.  Nothing here is sampled;
`ctx.seed` only rotates the finite key alphabet.
"""

from __future__ import annotations

import json
import math
import os
import shutil
import struct
import tempfile
from collections import OrderedDict
from pathlib import Path
from typing import ClassVar

import equinox as eqx
import jax
import numpy as np
from jax import numpy as jnp
from jax import random as jr

from lerax.policy import (
    AbstractPolicy,
    MLPActorCriticPolicy,
    MLPQPolicy,
    MLPSACPolicy,
)
from lerax.space import (
    AbstractSpace,
    Box,
    Dict,
    Discrete,
    MultiBinary,
    MultiDiscrete,
    Tuple,
)

from mc.core import Ctx, key_ints

LEVEL = "exploration"


# ---------------------------------------------------------------------------------------------
# spaces, observations, tiny env stub, a user-defined policy with integer / bool / python leaves
# ---------------------------------------------------------------------------------------------

BOX_LOW, BOX_HIGH = -1.0, 2.0


def make_space(spec) -> AbstractSpace:
    k = spec[0]
    if k == "box":
        return Box(BOX_LOW, BOX_HIGH, shape=tuple(spec[1]))
    if k == "discrete":
        return Discrete(int(spec[1]))
    if k == "multidiscrete":
        return MultiDiscrete(tuple(int(n) for n in spec[1]))
    if k == "multibinary":
        return MultiBinary(tuple(int(n) for n in spec[1]))
    if k == "tuple":
        return Tuple(tuple(make_space(s) for s in spec[1]))
    if k == "dict":
        return Dict(OrderedDict((name, make_space(s)) for name, s in spec[1]))
    raise ValueError(spec)


def flat_dim(spec) -> int:
    """Dimension of an observation as a flat vector, from the space description alone."""
    k = spec[0]
    if k in ("box", "multibinary"):
        return int(math.prod(spec[1]))
    if k == "discrete":
        return 1
    if k == "multidiscrete":
        return len(spec[1])
    if k == "tuple":
        return sum(flat_dim(s) for s in spec[1])
    if k == "dict":
        return sum(flat_dim(s) for _, s in spec[1])
    raise ValueError(spec)


def make_obs(spec, j: int):
    """j-th element (j = 0, 1, 2) of the observation alphabet of a space."""
    k = spec[0]
    if k == "box":
        n = int(math.prod(spec[1]))
        vals = [(BOX_LOW, BOX_HIGH, 0.25)[(i + j) % 3] for i in range(n)]
        return jnp.asarray(np.asarray(vals, dtype=np.float32).reshape(tuple(spec[1])))
    if k == "discrete":
        n = int(spec[1])
        return jnp.asarray([0, n - 1, n // 2][j], dtype=int)
    if k == "multibinary":
        n = int(math.prod(spec[1]))
        return jnp.asarray(np.asarray([(i + j) % 2 for i in range(n)], dtype=bool).reshape(tuple(spec[1])))
    if k == "multidiscrete":
        return jnp.asarray([(i + j) % int(n) for i, n in enumerate(spec[1])], dtype=int)
    if k == "tuple":
        return tuple(make_obs(s, j) for s in spec[1])
    if k == "dict":
        return OrderedDict((name, make_obs(s, j)) for name, s in spec[1])
    raise ValueError(spec)


class StubEnv(eqx.Module):
    """All a policy constructor reads from an environment: its two spaces."""

    action_space: AbstractSpace
    observation_space: AbstractSpace


class TablePolicy(AbstractPolicy):
    """A user-written policy (the kind the statement's 'any policy' includes): float table plus
    integer, boolean and python-scalar leaves."""

    name: ClassVar[str] = "TablePolicy"

    action_space: Discrete
    observation_space: Discrete
    table: jax.Array
    visits: jax.Array
    frozen: jax.Array
    step: int
    temperature: float

    def __init__(self, env, *, step: int = 7, temperature: float = 0.5, key):
        self.action_space = env.action_space
        self.observation_space = env.observation_space
        S, A = env.observation_space.n, env.action_space.n
        k1, k2, k3 = jr.split(key, 3)
        self.table = jr.normal(k1, (S, A))
        self.visits = jr.randint(k2, (S,), 0, 1000)
        self.frozen = jr.bernoulli(k3, 0.5, (S,))
        self.step = step
        self.temperature = temperature

    def reset(self, *, key):
        return None

    def scores(self, observation):
        bonus = jnp.where(self.frozen[observation], 0.0, self.visits[observation].astype(float))
        return self.table[observation] / self.temperature + bonus + self.step

    def __call__(self, state, observation, *, key=None, action_mask=None):
        logits = self.scores(observation)
        if key is None:
            return None, jnp.argmax(logits)
        return None, jr.categorical(key, logits)


CLASSES = {"ac": MLPActorCriticPolicy, "q": MLPQPolicy, "sac": MLPSACPolicy, "table": TablePolicy}


def build(cfg: dict, key_int: int):
    env = StubEnv(make_space(cfg["act"]), make_space(cfg["obs"]))
    return env, CLASSES[cfg["cls"]](env, **cfg["kw"], key=jr.key(int(key_int)))


def load(cfg: dict, path, key_int: int):
    env = StubEnv(make_space(cfg["act"]), make_space(cfg["obs"]))
    return CLASSES[cfg["cls"]].deserialize(path, env, **cfg["kw"], key=jr.key(int(key_int)))


# ---------------------------------------------------------------------------------------------
# looking at leaves
# ---------------------------------------------------------------------------------------------


def leaf_rows(tree) -> list[tuple]:
    """(path, kind, dtype, shape, bits) of every leaf, in flattening order."""
    rows = []
    for path, x in jax.tree_util.tree_flatten_with_path(tree)[0]:
        name = jax.tree_util.keystr(path)
        if isinstance(x, (jax.Array, np.ndarray)):
            a = np.asarray(x)
            rows.append((name, "array", str(a.dtype), tuple(a.shape), a.tobytes()))
        elif isinstance(x, jax.ShapeDtypeStruct):
            rows.append((name, "abstract", str(x.dtype), tuple(x.shape), b""))
        elif isinstance(x, bool):
            rows.append((name, "bool", "", (), bytes([x])))
        elif isinstance(x, int):
            rows.append((name, "int", "", (), repr(x).encode()))
        elif isinstance(x, float):
            rows.append((name, "float", "", (), struct.pack("<d", x)))
        else:
            rows.append((name, "object", "", (), repr(id(x)).encode()))
    return rows


def stored_rows(rows):
    """The leaves a save file has to carry: arrays and python scalars."""
    return [r for r in rows if r[1] in ("array", "bool", "int", "float")]


def shape_sig(rows) -> tuple:
    """The parameter-shape list of a policy: order, shape and dtype of every array leaf.  (Python
    scalar leaves such as MLPQPolicy.epsilon are stored in the file too, but have no shape.)"""
    return tuple((r[2], r[3]) for r in rows if r[1] == "array")


def strip_idx(name: str) -> str:
    out, depth = [], 0
    for ch in name:
        if ch == "[":
            depth += 1
            out.append("[]") if depth == 1 else None
        elif ch == "]":
            depth -= 1
        elif depth == 0:
            out.append(ch)
    return "".join(out)


SPECIALS = np.asarray(
    [0.0, -0.0, 3.0e38, -3.0e38, 1e-45, -1e-45, 1.17549435e-38, 7.0e-42, np.inf, -np.inf, np.nan, -1.5],
    dtype=np.float32,
)
INT_SPECIALS = np.asarray([0, -1, 2147483647, -2147483648, 5], dtype=np.int32)


def apply_fill(policy, fill: str):
    """Overwrite every parameter leaf outside the two spaces with special bit patterns."""
    if fill == "init":
        return policy
    flat, treedef = jax.tree_util.tree_flatten_with_path(policy)
    new = []
    for i, (path, x) in enumerate(flat):
        name = jax.tree_util.keystr(path)
        if not isinstance(x, jax.Array) or name.startswith((".action_space", ".observation_space")):
            new.append(x)
            continue
        a = np.asarray(x)
        if np.issubdtype(a.dtype, np.floating):
            if fill == "negzero":
                v = np.full(a.shape, -0.0, dtype=a.dtype)
            else:
                v = np.resize(np.roll(SPECIALS, -i), a.size).reshape(a.shape).astype(a.dtype)
        elif a.dtype == np.bool_:
            v = (np.arange(a.size).reshape(a.shape) + i) % 2 == 0
        elif np.issubdtype(a.dtype, np.integer):
            v = np.resize(np.roll(INT_SPECIALS, -i), a.size).reshape(a.shape).astype(a.dtype)
        else:
            v = a
        new.append(jnp.asarray(v))
    return jax.tree_util.tree_unflatten(treedef, new)


def bits_of(res) -> tuple:
    return tuple(
        (str(np.asarray(x).dtype), tuple(np.asarray(x).shape), np.asarray(x).tobytes())
        for x in jax.tree.leaves(res)
    )


def outputs(cfg: dict, policy, key_int: int) -> list[tuple]:
    """Every public output of the policy on the whole observation alphabet (the three observations
    are evaluated in one eager jax.vmap per method): (method, status, bits)."""
    out = []
    k = jr.key(int(key_int) + 7919)
    cls = cfg["cls"]
    obs = jax.tree.map(lambda *xs: jnp.stack(xs), *[make_obs(cfg["obs"], j) for j in range(3)])

    def rec(name, fn, *args):
        try:
            res = jax.vmap(fn)(*args)
        except Exception as e:  # a method the library cannot run at all is not C18's business,
            out.append((name, "raised", type(e).__name__))  # but both copies must agree on it
            return None
        out.append((name, "ok", bits_of(res)))
        return res

    rec("__call__", lambda o: policy(None, o), obs)
    rec("__call__[key]", lambda o: policy(None, o, key=k), obs)
    mask = None
    if cfg["act"][0] == "discrete":
        mask = jnp.asarray([i != 1 for i in range(int(cfg["act"][1]))])
    if cls == "ac":
        r = rec("action_and_value", lambda o: policy.action_and_value(None, o, key=k), obs)
        rec("value", lambda o: policy.value(None, o), obs)
        if r is not None:
            rec("evaluate_action", lambda o, a: policy.evaluate_action(None, o, a), obs, r[1])
        if mask is not None:
            rec("action_and_value[mask]", lambda o: policy.action_and_value(None, o, key=k, action_mask=mask), obs)
            rec("evaluate_action[mask]", lambda o: policy.evaluate_action(None, o, jnp.asarray(0), action_mask=mask), obs)
    elif cls == "q":
        rec("q_values", lambda o: policy.q_values(None, o), obs)
        rec("__call__[key,mask]", lambda o: policy(None, o, key=k, action_mask=mask), obs)
    elif cls == "sac":
        rec("action_and_log_prob", lambda o: policy.action_and_log_prob(None, o, key=k), obs)
    elif cls == "table":
        rec("scores", lambda o: policy.scores(o), obs)
    return out


# ---------------------------------------------------------------------------------------------
# path spellings
# ---------------------------------------------------------------------------------------------

SPELLINGS = {
    "plain": "p",
    "eqx": "p.eqx",
    "newdir": "new/dir/p",
    "newdir-eqx": "new/dir/p.eqx",
    "dotdir": "run.1/p",
    "dotted": "p.v2",  # a name that has no .eqx suffix but contains a dot
}


def spell(root: str, spelling: str, as_path: bool):
    full = os.path.join(root, SPELLINGS[spelling])
    return Path(full) if as_path else full


def files_under(root: str) -> list[str]:
    out = []
    for d, _, fs in os.walk(root):
        out += [os.path.join(d, f) for f in fs]
    return sorted(out)


# ---------------------------------------------------------------------------------------------
# clause: roundtrip
# ---------------------------------------------------------------------------------------------


def roundtrip_one(c: dict, root: str, built: dict) -> list[tuple[str, str]]:
    cfg = c["cfg"]
    cname = CLASSES[cfg["cls"]].__name__
    sp = c["spelling"]
    tag = f"{cname} act={cfg['act']} obs={cfg['obs']} kw={cfg['kw']} key={c['key']} fill={c['fill']} path={SPELLINGS[sp]!r}({'Path' if c['as_path'] else 'str'}{', jit' if c.get('jit') else ''}{', no_suffix=True' if c.get('no_suffix') else ''}{(', a later checkpoint saved under the same stem' if c['sibling'] == 'later-same-stem' else ', pre-existing ' + c['sibling'] + ' named like the suffix-less path') if c.get('sibling') else ''})"
    bk = json.dumps([cfg, c["key"]], sort_keys=True)
    try:
        if bk not in built:
            if len(built) > 64:
                built.clear()
            built[bk] = build(cfg, c["key"])
        env, policy = built[bk]
    except Exception as e:
        return [(f"C18/roundtrip/construct-raised/{cname}/{cfg['act'][0]}-action/{type(e).__name__}",
                 f"{tag}: the policy cannot even be constructed: {type(e).__name__}: {str(e)[:200]}")]
    policy = apply_fill(policy, c["fill"])
    want = leaf_rows(policy)
    path = spell(root, sp, c["as_path"])
    parent = os.path.dirname(str(path))
    preexisting: list[str] = []
    if c.get("earlier_default_save"):
        try:
            _, other = build(cfg, c["key"] + 17)
            other.serialize(path)
            jax.effects_barrier()
        except Exception as e:
            return [(f"C18/roundtrip/serialize-raised/{sp}/{type(e).__name__}", f"{tag}: an earlier default save to the same path raised {type(e).__name__}: {str(e)[:300]}")]
    if c.get("sibling") and Path(str(path)).suffix == "":
        # environment answer: the file system already holds an entry named exactly like the suffix-less path
        try:
            _, other = build(cfg, c["key"] + 17)
            if c["sibling"] == "dir":  # e.g. runs/ppo/best.eqx saved earlier, now saving runs/ppo
                other.serialize(os.path.join(str(path), "best"))
                jax.effects_barrier()
            else:  # a stale, extension-less checkpoint of the same architecture
                os.makedirs(parent, exist_ok=True)
                other.serialize(str(path) + "__stale")
                jax.effects_barrier()
                os.replace(str(path) + "__stale.eqx", str(path))
        except Exception as e:
            # the preparation is itself a legal save (into directories that do not exist yet, or next to nothing): a failure is the library's
            return [(f"C18/roundtrip/serialize-raised/{sp}/{type(e).__name__}",
                     f"{tag}: saving an earlier checkpoint {'below the not-yet-existing directory ' + os.path.relpath(str(path), root) if c['sibling'] == 'dir' else 'next to the target'} raised {type(e).__name__}: {str(e)[:300]}")]
        preexisting = files_under(root)
    try:
        if c.get("jit"):
            eqx.filter_jit(lambda p: p.serialize(path))(policy)
        elif c.get("no_suffix"):
            policy.serialize(path, no_suffix=True)  # documented option of serialize; the same path must still load the policy
        else:
            policy.serialize(path)
        jax.effects_barrier()
    except Exception as e:
        return [(f"C18/roundtrip/serialize-raised/{sp}/{type(e).__name__}", f"{tag}: serialize raised {type(e).__name__}: {str(e)[:300]}")]
    files = [f for f in files_under(root) if f not in preexisting]
    if len(files) != 1:
        return [(f"C18/roundtrip/files/{sp}/{'none' if not files else 'several'}",
                 f"{tag}: after serialize + effects_barrier the scratch directory holds {[os.path.relpath(f, root) for f in files]}, expected exactly one file")]
    if os.path.dirname(files[0]) != parent:
        return [(f"C18/roundtrip/files/{sp}/wrong-directory", f"{tag}: file written to {os.path.relpath(files[0], root)!r}")]
    if c.get("sibling") == "later-same-stem":
        # environment answer: a LATER checkpoint of the same architecture is saved under a name that differs only after the last dot
        # (p.v2 -> p.v3, run/lr0.001 -> run/lr0.003); the earlier file must still restore the earlier policy
        try:
            _, other = build(cfg, c["key"] + 17)
            sp_path = Path(str(path))
            other.serialize(str(sp_path.with_name(sp_path.stem + ".v3")))
            jax.effects_barrier()
        except Exception as e:
            return [(f"C18/roundtrip/serialize-raised/{sp}/{type(e).__name__}", f"{tag}: saving a later checkpoint next to the target raised {type(e).__name__}: {str(e)[:300]}")]
        if len([f for f in files_under(root) if f not in preexisting]) != 2:
            return [(f"C18/roundtrip/files/{sp}/later-checkpoint-shares-the-file",
                     f"{tag}: after also saving a different policy as {sp_path.stem + '.v3'!r} the directory holds {[os.path.relpath(f, root) for f in files_under(root)]}: two differently named checkpoints share one file")]
    try:
        loaded = load(cfg, path, c["load_key"])
    except Exception as e:
        return [(f"C18/roundtrip/load-raised/{sp}/{type(e).__name__}",
                 f"{tag}: saved as {os.path.relpath(files[0], root)!r}; deserialize with the same path spelling and constructor arguments raised {type(e).__name__}: {str(e)[:200]}")]
    fails = []
    got = leaf_rows(loaded)
    comparable = True
    if [r[0] for r in got] != [r[0] for r in want]:
        comparable = False
        fails.append(("C18/roundtrip/structure", f"{tag}: leaf paths differ: saved {[r[0] for r in want]} loaded {[r[0] for r in got]}"))
    else:
        bad = []
        for w, g in zip(want, got):
            if w == g:
                continue
            if w[1] != g[1]:
                kind = f"type-{w[1]}-became-{g[1]}"
                comparable = False
            elif w[3] != g[3]:
                kind = "shape"
                comparable = False
            elif w[2] != g[2]:
                kind = "dtype"
            elif w[1] == "float" and np.float32(struct.unpack("<d", w[4])[0]) == np.float32(struct.unpack("<d", g[4])[0]):
                kind = "python-float-rounded-to-float32"
            elif w[1] == "object":
                kind = "static-leaf-replaced"
            else:
                kind = "bits"
            bad.append((w, g, kind))
        if bad:
            w, g, kind = bad[0]

            def show(r):
                if r[1] == "array":
                    return np.frombuffer(r[4], dtype=r[2]).reshape(r[3]).ravel()[:6].tolist()
                if r[1] == "float":
                    return repr(struct.unpack("<d", r[4])[0])
                return r[4]

            fails.append((f"C18/roundtrip/leaf/{cname}{strip_idx(w[0])}/{kind}",
                          f"{tag}: {len(bad)} of {len(want)} leaves not restored bit-identically; first {w[0]}: saved {show(w)} loaded {show(g)}"))
    if comparable and c.get("outputs", True):
        o1 = outputs(cfg, policy, c["key"])
        o2 = outputs(cfg, loaded, c["key"])
        for a, b in zip(o1, o2):
            if a != b:

                def dec(o):
                    if o[1] != "ok":
                        return f"raised {o[2]}"
                    return [np.frombuffer(x[2], dtype=x[0]).reshape(x[1]).tolist() for x in o[2]]

                fails.append((f"C18/roundtrip/output/{cname}.{a[0]}",
                              f"{tag}: {a[0]} over the 3-observation alphabet differs: saved policy {dec(a)}, loaded policy {dec(b)}"[:900]))
                break
    return fails


def roundtrip_serial(cases):
    out = []
    root = tempfile.mkdtemp(prefix="c18_", dir="/tmp")
    built: dict = {}
    try:
        for i, c in enumerate(cases):
            sub = os.path.join(root, f"case{i}")
            os.mkdir(sub)
            try:
                for sig, msg in roundtrip_one(c, sub, built):
                    out.append((i, sig, msg))
            finally:
                shutil.rmtree(sub, ignore_errors=True)
    finally:
        shutil.rmtree(root, ignore_errors=True)
    return out


def clause_roundtrip(cases, ctx: Ctx):
    return run_parallel("roundtrip", cases)


# ---------------------------------------------------------------------------------------------
# clause: mismatch
# ---------------------------------------------------------------------------------------------

_SIG_CACHE: dict = {}


def cfg_sig(cfg: dict):
    """Parameter-shape list of the policy the real constructor builds for a configuration
    (None if it cannot be built)."""
    k = json.dumps(cfg, sort_keys=True)
    if k not in _SIG_CACHE:
        try:
            _SIG_CACHE[k] = shape_sig(leaf_rows(build(cfg, 0)[1]))
        except Exception:
            _SIG_CACHE[k] = None
    return _SIG_CACHE[k]


def mismatch_one(c: dict, root: str, saved: dict) -> list[tuple[str, str]]:
    a, b = c["a"], c["b"]
    cname = CLASSES[a["cls"]].__name__
    sa, sb = cfg_sig(a), cfg_sig(b)
    if sa is None or sb is None or sa == sb:
        return []  # not a pair the property speaks about
    k = json.dumps([a, c["key"]], sort_keys=True)
    if k not in saved:
        _, pa = build(a, c["key"])
        path = os.path.join(root, f"a{len(saved)}", "p.eqx")
        pa.serialize(path)
        jax.effects_barrier()
        saved[k] = (path, stored_rows(leaf_rows(pa)))
    path, file_rows = saved[k]
    tag = f"{cname}: file saved from act={a['act']} obs={a['obs']} kw={a['kw']} (key {c['key']}, {len(file_rows)} stored leaves) loaded with act={b['act']} obs={b['obs']} kw={b['kw']}"
    load_path = path if c.get("load_spelling", "eqx") == "eqx" else path[: -len(".eqx")]  # with / without the suffix
    tag += f" [loaded via {os.path.basename(load_path)!r}]"
    try:
        got = load(b, load_path, c["load_key"])
    except Exception:
        return []  # loud failure: what the property demands
    rows = stored_rows(leaf_rows(got))
    abstract = [r[0] for r in leaf_rows(got) if r[1] == "abstract"]
    _, fresh = build(b, c["load_key"])
    fresh_rows = stored_rows(leaf_rows(fresh))
    file_bits = {f[1:] for f in file_rows}
    from_file = sum(1 for r, f in zip(rows, file_rows) if r[1:] == f[1:])
    # a leaf that equals the freshly initialised policy's leaf and occurs nowhere in the file was not loaded
    from_fresh = sum(1 for r, f in zip(rows, fresh_rows) if r[1:] == f[1:] and r[1:] not in file_bits)
    got_sig = shape_sig(leaf_rows(got))
    if abstract or from_fresh:
        kind = "leaves-not-from-file"
    elif got_sig != sb:
        kind = "foreign-shapes-returned"
    elif any(r[1] == "array" and r[1:] != f[1:] for r, f in zip(rows, file_rows)):
        kind = "file-leaves-altered"  # an array of the right shape that is not the file's array at that position
    elif len(file_rows) > len(rows):
        kind = "unread-trailing-leaves"  # the target's leaves are a shape-compatible prefix of the file
    else:
        kind = "other"
    return [(f"C18/mismatch/no-error/{kind}",
             f"{tag}: deserialize returned a policy instead of raising; of its {len(rows)} stored leaves {from_file} are bit-equal to the file's leaf at the same position, "
             f"{from_fresh} come from the fresh initialisation, {len(abstract)} are abstract; {max(0, len(file_rows) - len(rows))} leaves of the file were never read "
             f"(array shapes wanted {[x[1] for x in sb]}, in the file {[x[1] for x in sa]})")]


def mismatch_serial(cases):
    out = []
    root = tempfile.mkdtemp(prefix="c18_", dir="/tmp")
    saved: dict = {}
    try:
        for i, c in enumerate(cases):
            for sig, msg in mismatch_one(c, root, saved):
                out.append((i, sig, msg))
    finally:
        shutil.rmtree(root, ignore_errors=True)
    return out


def clause_mismatch(cases, ctx: Ctx):
    return run_parallel("mismatch", cases)


# ---------------------------------------------------------------------------------------------
# worker processes: the cases of a clause are independent experiments; large batches are split
# into contiguous blocks run by WORKERS spawned processes (each with its own jax, one XLA thread).
# Small batches (confirmation of a failure, --replay) run in this process.
# ---------------------------------------------------------------------------------------------

SERIAL = {"roundtrip": roundtrip_serial, "mismatch": mismatch_serial}
WORKERS = int(os.environ.get("C18_WORKERS", "4"))
_POOL = None


def _worker_init(verif: str):
    devnull = os.open(os.devnull, os.O_WRONLY)
    os.dup2(devnull, 2)
    from mc.core import setup_runtime

    setup_runtime()  # checks that the worker imported lerax from LERAX_SRC, enables the compile cache


def _worker_run(clause: str, cases: list[dict]):
    import importlib

    mod = importlib.import_module("mc.props.c18")
    try:
        return ("ok", mod.SERIAL[clause](cases))
    except Exception as e:  # the parent re-runs the block in-process so that the core sees the real traceback
        return ("error", f"{type(e).__name__}: {e}")


def _pool():
    global _POOL
    if _POOL is None:
        import concurrent.futures as cf
        import multiprocessing as mp

        from mc.core import VERIF

        # inherited by the spawned workers (this process has initialised jax already): one XLA
        # thread each, and no pools of their own
        os.environ["C18_WORKERS"] = "1"
        os.environ["OMP_NUM_THREADS"] = "1"
        os.environ["XLA_FLAGS"] = (os.environ.get("XLA_FLAGS", "") + " --xla_cpu_multi_thread_eigen=false intra_op_parallelism_threads=1").strip()
        _POOL = cf.ProcessPoolExecutor(WORKERS, mp_context=mp.get_context("spawn"), initializer=_worker_init, initargs=(VERIF,))
    return _POOL


def close_pool():
    global _POOL
    if _POOL is not None:
        _POOL.shutdown(wait=True, cancel_futures=True)
        _POOL = None


def run_parallel(clause: str, cases: list[dict]):
    if WORKERS <= 1 or len(cases) < 48:
        return SERIAL[clause](cases)
    nblocks = WORKERS * 4
    size = -(-len(cases) // nblocks)
    blocks = [(i, cases[i : i + size]) for i in range(0, len(cases), size)]
    futs = [(i, blk, _pool().submit(_worker_run, clause, blk)) for i, blk in blocks]
    out = []
    for i, blk, f in futs:
        status, res = f.result()
        if status != "ok":
            res = SERIAL[clause](blk)  # raises here, with the library frames the core looks for
        out += [(i + j, sig, msg) for (j, sig, msg) in res]
    return out


CLAUSES = {"roundtrip": clause_roundtrip, "mismatch": clause_mismatch}


# ---------------------------------------------------------------------------------------------
# enumeration
# ---------------------------------------------------------------------------------------------

OBS_KINDS = [
    ["box", [2]],
    ["discrete", 3],
    ["multibinary", [3]],
    ["tuple", [["box", [2]], ["discrete", 3]]],
    ["dict", [["a", ["box", [2]]], ["b", ["discrete", 2]]]],
]
OBS_EXTRA = [["box", [3]], ["box", []], ["multidiscrete", [2, 3]]]
ACT_KINDS = [
    ["discrete", 3],
    ["box", []],
    ["box", [2]],
    ["multidiscrete", [2, 3]],
    ["multibinary", [2]],
]
ACT_EXTRA = [["discrete", 2], ["box", [3]], ["box", [1]], ["multibinary", [3]]]


def ac_kw(fs=3, fw=3, fd=1, vw=3, vd=1, aw=3, ad=2, **more):
    return dict(feature_size=fs, feature_width=fw, feature_depth=fd, value_width=vw, value_depth=vd,
                action_width=aw, action_depth=ad, **more)


def configurations() -> dict[str, list[dict]]:
    """Groups of configurations (full grids).  Mismatch pairs are all ordered pairs inside a group
    (quick) or inside a policy class (thorough)."""
    G: dict[str, list[dict]] = {}

    def add(group, cls, act, obs, kw):
        cfg = {"cls": cls, "act": act, "obs": obs, "kw": kw}
        if cfg not in G.setdefault(group, []):
            G[group].append(cfg)

    # actor-critic: every action kind x every observation kind
    for act in ACT_KINDS:
        for obs in OBS_KINDS:
            add("ac/spaces", "ac", act, obs, ac_kw())
    # actor-critic: action / observation dimensions
    for act in [ACT_KINDS[0], ACT_KINDS[1], ACT_KINDS[2], ACT_KINDS[4]] + ACT_EXTRA:
        add("ac/act-dims", "ac", act, ["box", [2]], ac_kw())
    for obs in OBS_KINDS + OBS_EXTRA:
        add("ac/obs-dims", "ac", ["discrete", 3], obs, ac_kw())
    # actor-critic: every depth triple 0..2 with all sizes equal to the number of actions (so that
    # shorter and longer networks share layer shapes), on a discrete and on a Box action space
    for fd in range(3):
        for vd in range(3):
            for ad in range(3):
                add("ac/depths", "ac", ["discrete", 3], ["box", [2]], ac_kw(fd=fd, vd=vd, ad=ad))
    for fd, vd, ad in [(0, 0, 0), (1, 1, 1), (2, 1, 2), (1, 2, 1), (2, 2, 2)]:
        add("ac/depths-box", "ac", ["box", [3]], ["box", [3]], ac_kw(fd=fd, vd=vd, ad=ad))
    # actor-critic: layer sizes
    for fs in (2, 3):
        for fw in (3, 4):
            for vw in (2, 3):
                for aw in (2, 3):
                    add("ac/widths", "ac", ["discrete", 3], ["box", [2]], ac_kw(fs=fs, fw=fw, vw=vw, aw=aw))
    for lsi in (0.0, -1.5, 0.3):
        for act in (["box", []], ["box", [2]]):
            add("ac/log_std_init", "ac", act, OBS_KINDS[4], ac_kw(log_std_init=lsi))
    # Q policy
    for obs in OBS_KINDS + OBS_EXTRA:
        add("q/spaces", "q", ["discrete", 3], obs, dict(epsilon=0.5, width_size=3, depth=2))
    for n in (2, 3):
        for w in (3, 4):
            for d in range(3):
                add("q/arch", "q", ["discrete", n], ["box", [2]], dict(epsilon=0.5, width_size=w, depth=d))
    for eps in (0.0, 0.1, 0.25):
        add("q/epsilon", "q", ["discrete", 3], ["box", [2]], dict(epsilon=eps, width_size=3, depth=1))
    add("q/epsilon", "q", ["discrete", 3], ["box", [2]], dict(width_size=3, depth=1))  # default epsilon
    # SAC policy
    for act in (["box", []], ["box", [2]]):
        for obs in OBS_KINDS:
            add("sac/spaces", "sac", act, obs, dict(feature_size=3, width_size=3, depth=1))
    for act in (["box", []], ["box", [1]], ["box", [2]], ["box", [3]]):
        for obs in (["box", [2]], ["box", [3]]):
            add("sac/dims", "sac", act, obs, dict(feature_size=3, width_size=3, depth=1))
    for fs in (2, 3):
        for w in (2, 3):
            for d in range(3):
                add("sac/arch", "sac", ["box", [2]], ["box", [2]], dict(feature_size=fs, width_size=w, depth=d))
    for d in range(3):
        add("sac/arch-scalar", "sac", ["box", []], ["box", [2]], dict(feature_size=3, width_size=3, depth=d))
    # a user-written policy with integer / bool / python-scalar leaves
    for S in (2, 3):
        for A in (2, 3):
            add("table", "table", ["discrete", A], ["discrete", S], dict(step=7, temperature=0.5))
    add("table", "table", ["discrete", 2], ["discrete", 2], dict(step=-3, temperature=0.25))
    return G


def diff_reason(a: dict, b: dict) -> set[str]:
    out = set()
    if a["obs"] != b["obs"]:
        out.add("obs-dim" if flat_dim(a["obs"]) != flat_dim(b["obs"]) else "obs-kind")
    if a["act"] != b["act"]:
        out.add("act-space")
    for k in set(a["kw"]) | set(b["kw"]):
        if a["kw"].get(k) != b["kw"].get(k):
            out.add("depth" if "depth" in k else ("layer-size" if ("width" in k or "size" in k) else "other-arg"))
    return out


def explore(ctx: Ctx):
    try:
        _explore(ctx)
    finally:
        close_pool()


def _explore(ctx: Ctx):
    thorough = ctx.tier == "thorough"
    keys = key_ints(ctx.seed, 3)
    load_keys = key_ints(ctx.seed, 3, salt=1)
    G = configurations()
    allcfg: list[dict] = []
    for g in G.values():
        for c in g:
            if c not in allcfg:
                allcfg.append(c)
    ctx.rule = (
        "configurations = full grids, in groups, over policy class (MLPActorCriticPolicy, MLPQPolicy, MLPSACPolicy and a "
        "harness-defined TablePolicy with int/bool/python-scalar leaves) x action space kind x observation space kind x "
        "architecture arguments (depths 0-2, sizes 2-4, log_std_init, epsilon). roundtrip cases = configuration x "
        "initialisation key (3) x leaf overwrite (none; all -0.0; cycle of {0,-0,+-3e38,denormals,min normal,+-inf,nan,-1.5}) "
        "x path spelling ({p, p.eqx, new/dir/p, new/dir/p.eqx, run.1/p, p.v2} x {str, Path}). thorough: the full product; "
        "quick: full key x overwrite product per configuration with the spelling rotating through all spellings but p.v2, "
        "plus the full spelling product on the first and last configuration of every group. Outputs of saved and loaded "
        "policy are compared once per (configuration, key, overwrite) (quick: key x none and first key x overwrites). A few "
        "cases per group serialize from inside filter_jit. mismatch cases = every ordered pair of configurations of one "
        "group (thorough: of one class) whose real parameter-shape lists differ. non-trivial roundtrip = the policy built "
        "with the load key differs from the saved one (restoring is observable); every mismatch pair is non-trivial."
    )
    ctx.assumptions = [
        "float32 mode, CPU; keys limited to the alphabet K (3 save keys, 3 load keys derived from VERIF_SEED)",
        "policies are built over a two-field env stub (the constructors read only the two spaces)",
        "'parameter shapes differ' is decided on the policies the real constructors build (order, shape, dtype of stored leaves)",
        "any exception type counts as a loud failure of a mismatching load",
        "the name of the written file is not pinned: exactly one file, in the requested directory, loadable through the same spelling",
        "outputs on the 3-element observation alphabet are evaluated eagerly under one jax.vmap per method, same for both copies",
        "no_suffix=True, file objects and loading into a different policy class are not part of the statement and not explored",
    ]

    # ---- roundtrip cases ------------------------------------------------------------
    fills = ["init", "negzero", "special"]
    spellings = [(s, p) for s in SPELLINGS for p in (False, True)]
    loadable = [(s, p) for (s, p) in spellings if s != "dotted"]
    cases = []
    seen = {}

    def add_case(cfg, key_i, fill, sp, as_path, outputs, jit=False):
        c = {"cfg": cfg, "key": keys[key_i], "load_key": load_keys[key_i], "fill": fill, "spelling": sp, "as_path": as_path}
        if jit:
            c["jit"] = True
        k = json.dumps(c, sort_keys=True)
        if k in seen:
            seen[k]["outputs"] = seen[k]["outputs"] or outputs
            return
        c["outputs"] = outputs
        seen[k] = c
        cases.append(c)

    sweep = []
    for lst in G.values():
        for cfg in (lst[0], lst[-1]):
            if cfg not in sweep:
                sweep.append(cfg)
    for ci, cfg in enumerate(allcfg):
        n = 0
        for ki in range(3):
            for fill in fills:
                sp, ap = loadable[(ci + n) % len(loadable)]
                n += 1
                add_case(cfg, ki, fill, sp, ap, outputs=thorough or fill == "init" or ki == 0)
                if thorough:
                    for sp2, ap2 in spellings:
                        add_case(cfg, ki, fill, sp2, ap2, outputs=False)
        if not thorough and cfg in sweep:
            for sp2, ap2 in spellings:
                add_case(cfg, 0, "init", sp2, ap2, outputs=False)
    # serialize called from inside jit
    for lst in G.values():
        for sp in ("plain", "newdir-eqx"):
            add_case(lst[0], 0, "init", sp, False, outputs=False, jit=True)
            add_case(lst[-1], 1, "special", sp, True, outputs=False, jit=True)

    # the file system already holds an entry named exactly like the suffix-less path (a directory created by an earlier
    # save below it, or a stale extension-less checkpoint): the freshly saved policy must still be the one restored
    for lst in G.values():
        for cfg in (lst[0], lst[-1]) if not thorough else lst:
            for sib in ("dir", "stale"):
                for sp in ("plain", "newdir", "dotdir"):
                    c = {"cfg": cfg, "key": keys[0], "load_key": load_keys[0], "fill": "init", "spelling": sp, "as_path": sp == "newdir", "sibling": sib, "outputs": False}
                    cases.append(c)
                    ctx.guard(f"sibling:{sib}")

    # serialize(path, no_suffix=True) followed by deserialize(path): alone in a fresh directory, and after an earlier default save of a
    # DIFFERENT policy under the same suffix-less path (the file just written must be the one restored)
    for lst in G.values():
        for cfg in (lst[0], lst[-1]):
            for sp in ("plain", "newdir", "eqx", "dotted"):
                for sib in (None, "stale-default-save"):
                    if sib and sp not in ("plain", "newdir"):
                        continue
                    cases.append({"cfg": cfg, "key": keys[0], "load_key": load_keys[0], "fill": "init", "spelling": sp, "as_path": False, "no_suffix": True,
                                  "earlier_default_save": bool(sib), "outputs": False})
                    ctx.guard("no-suffix-cases")
    for lst in G.values():
        for cfg in (lst[0], lst[-1]) if not thorough else lst:
            for sp in ("dotted", "plain", "eqx"):
                cases.append({"cfg": cfg, "key": keys[0], "load_key": load_keys[0], "fill": "init", "spelling": sp, "as_path": False, "sibling": "later-same-stem", "outputs": False})
                ctx.guard("sibling:later-same-stem")

    # vacuity: is restoring observable?  (policy built with the load key differs from the saved one)
    for cfg in allcfg:
        try:
            r1 = leaf_rows(build(cfg, keys[0])[1])
            r2 = leaf_rows(build(cfg, load_keys[0])[1])
        except Exception:
            ctx.guard("configurations-the-library-cannot-construct")
            continue
        _SIG_CACHE.setdefault(json.dumps(cfg, sort_keys=True), shape_sig(r1))
        if r1 != r2:
            ctx.guard("load-key-policy-differs-from-saved")
            ctx.nontriv(("rt", json.dumps(cfg, sort_keys=True)))
        else:
            ctx.guard("load-key-policy-equals-saved")
    for c in cases:
        ctx.guard(f"spelling:{c['spelling']}:{'Path' if c['as_path'] else 'str'}")
        ctx.guard(f"fill:{c['fill']}")
        ctx.guard(f"class:{c['cfg']['cls']}")
        ctx.guard(f"act:{c['cfg']['act'][0]}")
        ctx.guard(f"obs:{c['cfg']['obs'][0]}")
        if c.get("jit"):
            ctx.guard("serialize-inside-jit")
        if c["outputs"]:
            ctx.guard("outputs-compared")
    ctx.run("roundtrip", cases)
    ctx.traces += len(cases)

    # ---- mismatch cases -------------------------------------------------------------
    pairs = []
    seenp = set()

    def add_pairs(lst):
        for a in lst:
            for b in lst:
                if a is b or a["cls"] != b["cls"]:
                    continue
                k = json.dumps([a, b], sort_keys=True)
                if k in seenp:
                    continue
                seenp.add(k)
                sa, sb = cfg_sig(a), cfg_sig(b)
                if sa is None or sb is None:
                    ctx.guard("pairs-skipped-unconstructible")
                    continue
                if sa == sb:
                    ctx.guard("pairs-skipped-same-shapes")
                    continue
                pairs.append({"a": a, "b": b, "key": keys[len(pairs) % 3], "load_key": load_keys[len(pairs) % 3]})
                for r in diff_reason(a, b):
                    ctx.guard(f"mismatch-through:{r}")
                if len(sa) != len(sb):
                    ctx.guard("mismatch-file-longer" if len(sa) > len(sb) else "mismatch-file-shorter")
                    if len(sa) > len(sb) and sa[: len(sb)] == sb:
                        ctx.guard("mismatch-target-is-shape-prefix-of-file")
                else:
                    ctx.guard("mismatch-same-leaf-count")
                ctx.nontriv(("mm", k))

    if thorough:
        for cls in CLASSES:
            add_pairs([c for c in allcfg if c["cls"] == cls])
    else:
        for lst in G.values():
            add_pairs(lst)
    # every pair is loaded through both spellings of the saved file's path (with and without the .eqx suffix)
    pairs = [dict(c, load_spelling=sp) for c in pairs for sp in ("eqx", "plain")]
    pairs.sort(key=lambda c: json.dumps([c["a"], c["key"]], sort_keys=True))  # one save per (A, key) and block
    ctx.run("mismatch", pairs)
    ctx.traces += len(pairs)

    ctx.require(
        "load-key-policy-differs-from-saved", "serialize-inside-jit", "outputs-compared",
        "mismatch-through:obs-dim", "mismatch-through:act-space", "mismatch-through:layer-size", "mismatch-through:depth",
        "mismatch-file-longer", "mismatch-file-shorter", "mismatch-same-leaf-count",
        *[f"spelling:{s}:{p}" for s in SPELLINGS for p in ("str", "Path")],
        *[f"fill:{f}" for f in fills], *[f"class:{c}" for c in CLASSES],
        *[f"act:{a[0]}" for a in ACT_KINDS], *[f"obs:{o[0]}" for o in OBS_KINDS],
    )
    ctx.notes["configurations"] = len(allcfg)
    ctx.notes["configurations_per_group"] = {g: len(v) for g, v in G.items()}
    ctx.notes["roundtrip_cases"] = len(cases)
    ctx.notes["mismatch_pairs"] = len(pairs)
    ctx.notes["workers"] = WORKERS
    ctx.notes["keys"] = {"save": keys, "load": load_keys}
