"""C10 - training schedule: step budget, iteration counter, target-network updates.

The iteration automaton is driven with the real algo.reset / algo.iteration (jitted once per
configuration) and observed after EVERY call, for all histories of n = 0..7 iterations over full
configuration grids; `learn` itself is run for EVERY total_timesteps in 0..3*num_envs*num_steps+1
with a recording logging backend.  Oracle: reference schedule automaton (iteration counter, step
budget, DQN target lag, float64 Polyak recursion, actor/temperature gate) written from the statement.
"""

from __future__ import annotations

import equinox as eqx
import jax
import numpy as np
from jax import random as jr

from lerax.callback import LoggingCallback

from mc import learnx
from mc.core import Ctx, key_ints

LEVEL = "model_checking"
N_ITER = 7


def _driver(algo, cb):
    reset = eqx.filter_jit(lambda env, pol, k: algo.reset(env, pol, key=k, callback=cb))
    it = eqx.filter_jit(lambda st, k: algo.iteration(st, key=k, callback=cb))
    return reset, it


def env_steps(state) -> int:
    """cumulative environment steps as counted by the logging callback's own per-env step counters"""
    return int(np.asarray(state.step_state.callback_state.step).sum())


def clause_dqn(cases, ctx: Ctx):
    """case: {num_envs, num_steps, interval, learning_starts, key}"""
    out = []
    for ci, c in enumerate(cases):
        E, T, I, LS = c["num_envs"], c["num_steps"], c["interval"], c["learning_starts"]
        env = learnx.tiny_env("discrete")
        pol = learnx.make_policy("q", env, c["key"], epsilon=0.3)
        algo = learnx.make_algo("DQN", E, T, target_update_interval=I, learning_starts=LS, buffer_size=64)
        cb = LoggingCallback(learnx.RecordingBackend(), name="c10")
        reset, it = _driver(algo, cb)
        st = reset(env, pol, jr.key(c["key"] + 1))
        desc = f"DQN num_envs={E} num_steps={T} target_update_interval={I} learning_starts={LS}"
        # reference automaton
        ref_target = pol  # initially the initial policy
        if not learnx.same_bits(st.target_policy, pol) or int(st.iteration_count) != 0:
            out.append((ci, "C10/dqn/initial", f"{desc}: after reset iteration_count={int(st.iteration_count)}, target == initial policy: {learnx.same_bits(st.target_policy, pol)}"))
        pos0 = np.asarray(st.step_state.buffer.position).reshape(-1)
        if not np.all(pos0 == LS):
            out.append((ci, "C10/dqn/warmup-budget", f"{desc}: buffer positions after warm-up {pos0.tolist()}, expected {LS} per environment"))
        prev_online = pol
        changed = 0
        for n in range(1, N_ITER + 1):
            st = it(st, jr.key(c["key"] * 100 + n))
            ctx.transitions += 1
            if int(st.iteration_count) != n:
                out.append((ci, "C10/dqn/iteration-count", f"{desc}: iteration_count after {n} iterations = {int(st.iteration_count)}"))
            pos = np.asarray(st.step_state.buffer.position).reshape(-1)
            if not np.all(pos == LS + n * T):
                out.append((ci, "C10/dqn/step-budget", f"{desc}: after {n} iterations buffer positions {pos.tolist()}, expected {LS + n * T} per environment"))
            if env_steps(st) != E * (LS + n * T):
                out.append((ci, "C10/dqn/step-budget", f"{desc}: after {n} iterations the environments were stepped {env_steps(st)} times, expected {E * (LS + n * T)}"))
            if not learnx.same_bits(st.policy, prev_online):
                changed += 1
            if n % I == 0:
                ref_target = st.policy
                ctx.guard("dqn-sync-points")
            else:
                ctx.guard("dqn-lag-points")
            if not learnx.same_bits(st.target_policy, ref_target):
                kind = "not-synchronised-at-multiple-of-interval" if n % I == 0 else "changed-between-updates"
                is_online = learnx.same_bits(st.target_policy, st.policy)
                out.append((ci, f"C10/dqn/target/{kind}", f"{desc}: after iteration {n} the target network is {'the current online network' if is_online else 'neither the reference nor the online network'}; it must equal the online network as of iteration {n - n % I}"))
            prev_online = st.policy
        ctx.guard("dqn-online-changed", changed)
        ctx.states += N_ITER + 1
    return out


def polyak_np(online, target, tau):
    return [tau * o.astype(np.float64) + (1 - tau) * t for o, t in zip(online, target)]


def clause_sac(cases, ctx: Ctx):
    """case: {num_envs, tau, pf, autotune, key}"""
    out = []
    for ci, c in enumerate(cases):
        E, tau, pf, auto, T = c["num_envs"], c["tau"], c["pf"], c["autotune"], c.get("num_steps", 1)
        env = learnx.tiny_env("box")
        pol = learnx.make_policy("sac", env, c["key"], width_size=8, depth=1)
        algo = learnx.make_algo("SAC", E, T, tau=tau, policy_frequency=pf, autotune=auto, buffer_size=64, learning_starts=3, batch_size=2)
        cb = LoggingCallback(learnx.RecordingBackend(), name="c10")
        reset, it = _driver(algo, cb)
        st = reset(env, pol, jr.key(c["key"] + 1))
        desc = f"SAC num_envs={E} num_steps={T} tau={tau} policy_frequency={pf} autotune={auto}"
        arr = lambda q: [x.astype(np.float64) for x in learnx.leaves_np(eqx.filter(q, eqx.is_inexact_array))]
        t1, t2 = arr(st.qf1_target), arr(st.qf2_target)
        if not (learnx.same_bits(st.qf1_target, st.qf1) and learnx.same_bits(st.qf2_target, st.qf2)):
            out.append((ci, "C10/sac/initial-targets", f"{desc}: target critics differ from the online critics after reset"))
        actor_changed, alpha_changed = [], []
        prev_pol, prev_alpha = st.policy, np.asarray(st.log_alpha)
        for n in range(1, N_ITER + 1):
            st = it(st, jr.key(c["key"] * 100 + n))
            ctx.transitions += 1
            if int(st.iteration_count) != n:
                out.append((ci, "C10/sac/iteration-count", f"{desc}: iteration_count after {n} iterations = {int(st.iteration_count)}"))
            if env_steps(st) != E * (3 + n * T):
                out.append((ci, "C10/sac/step-budget", f"{desc}: after {n} iterations the environments were stepped {env_steps(st)} times, expected {E * (3 + n * T)}"))
            t1, t2 = polyak_np(arr(st.qf1), t1, tau), polyak_np(arr(st.qf2), t2, tau)
            for name, ref, got in (("qf1_target", t1, arr(st.qf1_target)), ("qf2_target", t2, arr(st.qf2_target))):
                if not all(np.allclose(g, r, rtol=2e-5, atol=2e-6) for g, r in zip(got, ref)):
                    # which wrong recursion is it?
                    out.append((ci, "C10/sac/polyak", f"{desc}: after iteration {n} {name} deviates from theta' <- tau*theta + (1-tau)*theta' applied once per iteration (max abs diff {max(float(np.abs(g - r).max()) for g, r in zip(got, ref)):.3g})"))
                    t1, t2 = arr(st.qf1_target), arr(st.qf2_target)  # resynchronise so one defect is reported once
                    break
            if not learnx.same_bits(st.policy, prev_pol):
                actor_changed.append(n)
            if not np.array_equal(np.asarray(st.log_alpha), prev_alpha):
                alpha_changed.append(n)
            prev_pol, prev_alpha = st.policy, np.asarray(st.log_alpha)
        # the iterations on which the actor changes form an arithmetic progression of difference pf
        ok = False
        for r in range(pf):
            if actor_changed == [n for n in range(1, N_ITER + 1) if n % pf == r]:
                ok = True
        if not ok:
            out.append((ci, "C10/sac/actor-gate", f"{desc}: actor changed on iterations {actor_changed}; expected exactly one update in every {pf} consecutive iterations"))
        if auto and alpha_changed != actor_changed and ok:
            out.append((ci, "C10/sac/alpha-gate", f"{desc}: temperature changed on iterations {alpha_changed}, actor on {actor_changed}"))
        if not auto and alpha_changed:
            out.append((ci, "C10/sac/alpha-without-autotune", f"{desc}: temperature changed on iterations {alpha_changed} although autotune is off"))
        ctx.guard("sac-actor-updates", len(actor_changed))
        ctx.guard("sac-actor-skips", N_ITER - len(actor_changed))
        ctx.guard("sac-alpha-updates", len(alpha_changed))
        ctx.states += N_ITER + 1
    return out


def clause_onpolicy(cases, ctx: Ctx):
    """case: {algo, num_envs, num_steps, key}"""
    out = []
    for ci, c in enumerate(cases):
        E, T = c["num_envs"], c["num_steps"]
        env = learnx.tiny_env("discrete")
        pol = learnx.make_policy("ac", env, c["key"])
        algo = learnx.make_algo(c["algo"], E, T)
        cb = LoggingCallback(learnx.RecordingBackend(), name="c10")
        reset, it = _driver(algo, cb)
        st = reset(env, pol, jr.key(c["key"] + 1))
        desc = f"{c['algo']} num_envs={E} num_steps={T}"
        if int(st.iteration_count) != 0:
            out.append((ci, "C10/onpolicy/iteration-count", f"{desc}: iteration_count after reset = {int(st.iteration_count)}"))
        for n in range(1, 5):
            st = it(st, jr.key(c["key"] * 100 + n))
            ctx.transitions += 1
            if int(st.iteration_count) != n:
                out.append((ci, "C10/onpolicy/iteration-count", f"{desc}: iteration_count after {n} iterations = {int(st.iteration_count)}"))
            if env_steps(st) != n * E * T:
                out.append((ci, "C10/onpolicy/step-budget", f"{desc}: after {n} iterations the environments were stepped {env_steps(st)} times, expected {n * E * T}"))
        ctx.states += 5
    return out


def clause_learn(cases, ctx: Ctx):
    """case: {algo, num_envs, num_steps, total, key}: the whole learn() with a recording backend"""
    out = []
    for ci, c in enumerate(cases):
        E, T, total, name = c["num_envs"], c["num_steps"], c["total"], c["algo"]
        env = learnx.tiny_env(learnx.ALGO_ACT[name])
        kw = dict(width_size=8, depth=1) if name == "SAC" else {}
        pol = learnx.make_policy(learnx.ALGO_POLICY[name], env, c["key"], **kw)
        algo = learnx.make_algo(name, E, T)
        be = learnx.RecordingBackend()
        cb = LoggingCallback(be, name="c10")
        out_pol = algo.learn(env, pol, total, key=jr.key(c["key"] + 1), callback=cb)
        jax.block_until_ready(jax.tree.leaves(eqx.filter(out_pol, eqx.is_array)))
        jax.effects_barrier()
        recs = be.scalars()
        n_exp = total // (E * T)
        warm = E * 2 if name in ("DQN", "SAC") else 0
        desc = f"{name} learn(total_timesteps={total}) num_envs={E} num_steps={T}"
        ctx.guard("learn-zero-iterations", int(n_exp == 0))
        ctx.guard("learn-floor-cases", int(total % (E * T) != 0 and n_exp > 0))
        if len(recs) != n_exp:
            out.append((ci, "C10/learn/iteration-number", f"{desc}: {len(recs)} iterations were performed (one log record each), expected floor(total/(num_envs*num_steps)) = {n_exp}"))
            continue
        steps = [r[2] for r in recs]
        exp_steps = [warm + (i + 1) * E * T for i in range(n_exp)]
        if steps != exp_steps:
            out.append((ci, "C10/learn/cumulative-steps", f"{desc}: logged step arguments {steps}, expected cumulative environment steps {exp_steps}"))
        ctx.transitions += n_exp
        ctx.states += 1
    return out


def clause_learn_targets(cases, ctx: Ctx):
    """The Polyak schedule INSIDE learn(): a user-defined iteration callback reads the algorithm state that iteration() hands to
    callbacks (before its per-iteration hook) and reports the online and target critics to the host.  Between two consecutive
    reports the target must have moved by exactly one step theta' <- tau*theta + (1-tau)*theta'.   case: {num_envs, num_steps, tau, key}"""
    from lerax.callback import AbstractIterationCallback
    from lerax.callback.base_callback import EmptyCallbackState

    out = []
    for ci, c in enumerate(cases):
        E, T, tau = c["num_envs"], c["num_steps"], c["tau"]
        env = learnx.tiny_env("box")
        pol = learnx.make_policy("sac", env, c["key"], width_size=8, depth=1)
        algo = learnx.make_algo("SAC", E, T, tau=tau, policy_frequency=2, buffer_size=64, learning_starts=3, batch_size=2)
        recs = []

        def host(it, q1, t1, q2, t2):
            recs.append((int(it), [np.asarray(x, dtype=np.float64) for x in q1], [np.asarray(x, dtype=np.float64) for x in t1],
                         [np.asarray(x, dtype=np.float64) for x in q2], [np.asarray(x, dtype=np.float64) for x in t2]))

        class Probe(AbstractIterationCallback):
            def reset(self, cctx, *, key):
                return EmptyCallbackState()

            def on_iteration(self, cctx, *, key):
                st = cctx.locals.get("state") if isinstance(cctx.locals, dict) else None
                if st is None or not all(hasattr(st, f) for f in ("qf1", "qf1_target", "qf2", "qf2_target", "iteration_count")):
                    return cctx.state  # the algorithm state is not exposed this way (any more): nothing to judge here
                lv = lambda q: jax.tree.leaves(eqx.filter(q, eqx.is_inexact_array))
                jax.debug.callback(host, st.iteration_count, lv(st.qf1), lv(st.qf1_target), lv(st.qf2), lv(st.qf2_target), ordered=True)
                return cctx.state

        n_it = 5
        out_pol = algo.learn(env, pol, n_it * E * T, key=jr.key(c["key"] + 1), callback=Probe())
        jax.block_until_ready(jax.tree.leaves(eqx.filter(out_pol, eqx.is_array)))
        jax.effects_barrier()
        recs.sort(key=lambda r: r[0])
        desc = f"SAC.learn num_envs={E} num_steps={T} tau={tau}"
        if len(recs) != n_it:
            ctx.notes["learn_targets_not_observable"] = f"{len(recs)} callback reports for {n_it} iterations"
            continue
        for a, b in zip(recs[:-1], recs[1:]):
            for nm, qi, ti in (("qf1_target", 1, 2), ("qf2_target", 3, 4)):
                want = polyak_np(a[qi], a[ti], tau)
                if not all(np.allclose(g, w, rtol=2e-5, atol=2e-6) for g, w in zip(b[ti], want)):
                    twice = polyak_np(a[qi], want, tau)
                    kind = "/applied-twice" if all(np.allclose(g, w, rtol=2e-5, atol=2e-6) for g, w in zip(b[ti], twice)) else ""
                    out.append((ci, f"C10/learn/sac/polyak{kind}", f"{desc}: between the callback reports of iterations {a[0]} and {b[0]} {nm} did not move by exactly one step "
                                                                   f"theta' <- tau*theta + (1-tau)*theta' (max abs deviation {max(float(np.abs(g - w).max()) for g, w in zip(b[ti], want)):.3g})"))
                    break
            ctx.guard("learn-target-steps")
        ctx.transitions += n_it
    return out


CLAUSES = {"dqn": clause_dqn, "sac": clause_sac, "onpolicy": clause_onpolicy, "learn": clause_learn, "learn_targets": clause_learn_targets}


def explore(ctx: Ctx):
    thorough = ctx.tier == "thorough"
    key = key_ints(ctx.seed, 1)[0]
    ctx.rule = (
        "iteration automaton observed after every real iteration (n = 0..7): DQN over num_envs{1,2} x num_steps{1,2,3} x "
        "target_update_interval{1,2,3,5}; SAC over tau{.005,.5,1} x policy_frequency{1,2,3} x autotune x num_envs{1,2} at num_steps 1, and num_steps{2,3,4} x policy_frequency{2,3,4,6} (shared and coprime factors); on-policy "
        "algorithms over num_envs x num_steps; learn() for every total_timesteps in 0..3*num_envs*num_steps+1 with a recording "
        "backend. non-trivial = a configuration in which the schedule has both update and non-update iterations (interval>1, "
        "policy_frequency>1) or a total_timesteps that is not a multiple of the iteration size"
    )
    ctx.assumptions = ["one key per configuration (schedules are key-independent; the oracle never reads key-derived values except through recorded online networks)",
                       "Polyak recursion compared in float64 at 2e-5 relative"]
    dqn = [dict(num_envs=E, num_steps=T, interval=I, learning_starts=2, key=key) for E in (1, 2) for T in (1, 2, 3) for I in (1, 2, 3, 5)]
    sac = [dict(num_envs=E, tau=tau, pf=pf, autotune=a, key=key) for E in (1, 2) for tau in (0.005, 0.5, 1.0) for pf in (1, 2, 3) for a in (True, False)]
    # num_steps > 1: the gate counts iterations, not environment steps (num_steps sharing a factor with policy_frequency tells them apart)
    sac_T = [dict(num_envs=E, num_steps=T, tau=0.5, pf=pf, autotune=a, key=key) for E in (1, 2) for T in (2, 3, 4) for pf in (2, 3, 4, 6) for a in (True, False)]
    onp = [dict(algo=a, num_envs=E, num_steps=T, key=key) for a in ("PPO", "A2C", "REINFORCE") for E in (1, 2) for T in (2, 3)]
    if not thorough:
        dqn = [c for c in dqn if not (c["num_envs"] == 2 and c["num_steps"] == 3)]
        sac = [c for c in sac if c["num_envs"] == 1 or (c["tau"] == 0.5 and c["pf"] == 2)]
        sac_T = [c for c in sac_T if c["num_envs"] == 1 and c["autotune"] and (c["num_steps"], c["pf"]) in ((2, 2), (2, 4), (3, 3), (4, 6), (3, 2))]
        onp = [c for c in onp if c["num_steps"] == 2 or c["algo"] == "PPO"]
    sac = sac + sac_T
    for c in dqn:
        if c["interval"] > 1:
            ctx.nontriv(("dqn", c["num_envs"], c["num_steps"], c["interval"]))
    for c in sac:
        if c["pf"] > 1 or c["tau"] < 1:
            ctx.nontriv(("sac", c["num_envs"], c.get("num_steps", 1), c["tau"], c["pf"], c["autotune"]))
    ctx.run_parallel("dqn", dqn, workers=6, threads=2)
    ctx.run_parallel("sac", sac, workers=6, threads=2)
    ctx.run_parallel("onpolicy", onp, workers=4, threads=2)
    learn = []
    grid = [("PPO", 2, 2), ("DQN", 2, 2)] + ([("A2C", 1, 3), ("REINFORCE", 1, 2), ("SAC", 2, 1), ("PPO", 1, 3), ("DQN", 1, 3)] if thorough else [("SAC", 2, 1), ("A2C", 1, 2), ("REINFORCE", 1, 2)])
    for (a, E, T) in grid:
        totals = range(0, 3 * E * T + 2)
        if not thorough and a not in ("PPO", "DQN"):
            totals = [0, E * T, 2 * E * T + 1]
        for tot in totals:
            learn.append(dict(algo=a, num_envs=E, num_steps=T, total=tot, key=key))
            if tot % (E * T):
                ctx.nontriv(("learn", a, E, T, tot))
    ctx.run_parallel("learn", learn, workers=8, threads=2)
    ctx.run("learn_targets", [dict(num_envs=E, num_steps=T, tau=tau, key=key) for (E, T) in (((1, 1), (2, 2)) if not thorough else ((1, 1), (2, 1), (1, 2), (2, 3))) for tau in ((0.5,) if not thorough else (0.5, 0.005))])
    ctx.traces = len(dqn) + len(sac) + len(onp) + len(learn)
    ctx.require("dqn-sync-points", "dqn-lag-points", "dqn-online-changed", "sac-actor-updates", "sac-actor-skips", "sac-alpha-updates",
                "learn-zero-iterations", "learn-floor-cases")
