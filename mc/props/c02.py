"""C02 - environments stay inside their declared spaces with well-typed signals.

Every built-in environment (5 classic control, 11 MuJoCo/MJX, 3 Unitree G1) x constructor
configurations x wrapper stacks is driven through the real Gym-style `reset` / `step`; every
observation, reward, terminal / truncate flag and sampled action that comes back is judged by a
pure-numpy predicate written from the statement (NOT `space.contains`, which is C14's subject).

One *case* = one history (or one configuration):

  kind "tree"    {env, cfg, stack, key, acts}    reset with key, then the action word `acts`
                 (one symbol per step: Discrete - the action index or 's'; Box - l/h/z/a/s =
                 all-low / all-high / midpoint / alternating low-high / action_space.sample(k)).
                 explore() enumerates the COMPLETE tree of words to depth d; all paths of one
                 (env, cfg, stack) are executed as one vmapped batch (one compile).
  kind "long"    {env, cfg, stack, key, pol, H}  classic control only: H steps under one member of
                 a finite family of scripted policies (constant / square wave / bang-bang on the
                 sign of one observation component) - these reach the clip bounds and the
                 terminal regions that depth-d trees from a reset cannot.
  kind "typing"  {env, cfg, stack}               abstract evaluation (jax.eval_shape) of reset,
                 step and action_space.sample: shapes and dtypes are state-independent in JAX, so
                 this decides the shape/dtype half of membership for ALL states and keys of that
                 configuration without compiling it.
  kind "purity"  {env, cfg, stack, keys, depth, max_rows, child}  "no Python-side state": the tree
                 batch (a fixed stride of at most max_rows paths of it) is run (A), then an unrelated
                 environment is stepped and another instance of the same class is constructed and
                 traced, all jit caches are dropped and a freshly constructed environment is run
                 again (B, forces re-execution of the Python code), and once more in a freshly
                 spawned interpreter (C; child = false skips it, "overlap" lets it run alongside B).
                 All outputs (observations, rewards, flags, sampled actions) must be bitwise equal.

explore() hands everything to ctx.run_parallel as clause "mix" (dispatch on case["kind"]) so that
all cases of one environment share one worker process and its compiled functions.

Signatures: C02/<what>/<defect>/<Env>[/<stack>]; numbers only in messages.
"""

from __future__ import annotations

import hashlib
import importlib
import itertools
import json
import os
import sys
import time
import warnings

import numpy as np

warnings.filterwarnings("ignore", message="Explicitly requested dtype")

import equinox as eqx  # noqa: E402
import jax  # noqa: E402
from jax import lax  # noqa: E402
from jax import numpy as jnp  # noqa: E402
from jax import random as jr  # noqa: E402

from lerax import wrapper as W  # noqa: E402
from lerax.space import Box, Discrete  # noqa: E402

from mc.core import Ctx, HarnessError, key_ints, lib_frame  # noqa: E402

LEVEL = "exploration"
_T0 = time.time()
P = "C02"

# ---------------------------------------------------------------------------------------------
# the systems under test: names -> (module, class, family)
# ---------------------------------------------------------------------------------------------
ENVS = {
    "CartPole": ("lerax.env.classic_control", "CartPole", "classic"),
    "MountainCar": ("lerax.env.classic_control", "MountainCar", "classic"),
    "ContinuousMountainCar": ("lerax.env.classic_control", "ContinuousMountainCar", "classic"),
    "Acrobot": ("lerax.env.classic_control", "Acrobot", "classic"),
    "Pendulum": ("lerax.env.classic_control", "Pendulum", "classic"),
    "Ant": ("lerax.env.mujoco", "Ant", "mujoco"),
    "HalfCheetah": ("lerax.env.mujoco", "HalfCheetah", "mujoco"),
    "Hopper": ("lerax.env.mujoco", "Hopper", "mujoco"),
    "Humanoid": ("lerax.env.mujoco", "Humanoid", "mujoco"),
    "HumanoidStandup": ("lerax.env.mujoco", "HumanoidStandup", "mujoco"),
    "InvertedDoublePendulum": ("lerax.env.mujoco", "InvertedDoublePendulum", "mujoco"),
    "InvertedPendulum": ("lerax.env.mujoco", "InvertedPendulum", "mujoco"),
    "Pusher": ("lerax.env.mujoco", "Pusher", "mujoco"),
    "Reacher": ("lerax.env.mujoco", "Reacher", "mujoco"),
    "Swimmer": ("lerax.env.mujoco", "Swimmer", "mujoco"),
    "Walker2d": ("lerax.env.mujoco", "Walker2d", "mujoco"),
    "G1Locomotion": ("lerax.env.unitree.g1", "G1Locomotion", "g1"),
    "G1Standing": ("lerax.env.unitree.g1", "G1Standing", "g1"),
    "G1Standup": ("lerax.env.unitree.g1", "G1Standup", "g1"),
}
FAMILY = {k: v[2] for k, v in ENVS.items()}

# documented constructor configurations besides the default {} (JSON-able keyword arguments;
# "solver" names a diffrax solver class).  Classic: Euler solver + changed thresholds (small ones
# make the clip / termination bind within the tree depth, large ones let the long runs travel far
# inside the declared box).  MuJoCo: every documented boolean observation / termination flag
# flipped.  G1: pushes off, observation noise off.
CONFIGS = {
    "CartPole": [{"solver": "Euler"}, {"theta_threshold_radians": 0.06}, {"theta_threshold_radians": 1.0, "x_threshold": 0.3}],
    "MountainCar": [{"solver": "Euler"}, {"max_speed": 0.01}, {"min_position": -0.7, "max_position": 0.3, "goal_position": 0.2}],
    "ContinuousMountainCar": [{"solver": "Euler"}, {"max_speed": 0.01}, {"min_position": -0.7, "max_position": 0.3, "goal_position": 0.2}],
    "Acrobot": [{"solver": "Euler"}, {"max_vel_1": 0.5, "max_vel_2": 1.0}],
    "Pendulum": [{"solver": "Euler"}, {"max_speed": 1.0}, {"max_torque": 0.5}],
    "Ant": [{"terminate_when_unhealthy": False}, {"exclude_current_positions_from_observation": False}, {"include_cfrc_ext_in_observation": False}],
    "HalfCheetah": [{"exclude_current_positions_from_observation": False}],
    "Hopper": [{"terminate_when_unhealthy": False}, {"exclude_current_positions_from_observation": False}],
    "Humanoid": [
        {"terminate_when_unhealthy": False}, {"exclude_current_positions_from_observation": False},
        {"include_cinert_in_observation": False}, {"include_cvel_in_observation": False},
        {"include_qfrc_actuator_in_observation": False}, {"include_cfrc_ext_in_observation": False},
    ],
    "HumanoidStandup": [
        {"exclude_current_positions_from_observation": False}, {"include_cinert_in_observation": False},
        {"include_cvel_in_observation": False}, {"include_qfrc_actuator_in_observation": False},
        {"include_cfrc_ext_in_observation": False},
    ],
    "InvertedDoublePendulum": [],
    "InvertedPendulum": [],
    "Pusher": [],
    "Reacher": [],
    "Swimmer": [{"exclude_current_positions_from_observation": False}],
    "Walker2d": [{"terminate_when_unhealthy": False}, {"exclude_current_positions_from_observation": False}],
    "G1Locomotion": [{"push_enable": False}, {"noise_level": 0.0}],
    "G1Standing": [{"push_enable": False}, {"noise_level": 0.0}],
    "G1Standup": [{"push_enable": False}, {"noise_level": 0.0}],
}

# wrapper stacks, inner -> outer
S_TL = [["TimeLimit", 3]]
S_CA = [["ClipAction"]]
S_RA = [["RescaleAction"]]
S_FO = [["FlattenObservation"]]
S_CO_TL = [["TimeLimit", 3], ["ClipObservation"]]
S_CO = [["ClipObservation"]]
S_RO = [["RescaleObservation", "matched"]]
S_CR = [["ClipReward"]]
S_ID = [["Identity"]]
S_ALL_BOX = [["RescaleAction"], ["ClipAction"], ["TimeLimit", 3], ["ClipReward"], ["RescaleObservation", "matched"], ["ClipObservation"], ["FlattenObservation"]]
# the reverse nesting: observation wrappers innermost, action wrappers outermost (an outer wrapper must advertise the space of what it
# directly wraps, not of the bare environment)
S_REV_BOX = [["RescaleObservation", "matched"], ["ClipObservation"], ["ClipReward"], ["TimeLimit", 3], ["RescaleAction"], ["ClipAction"]]
S_REV_RO_CA = [["RescaleObservation", "matched"], ["ClipAction"]]
S_ALL_DISC = [["TimeLimit", 3], ["ClipReward"], ["RescaleObservation", "matched"], ["ClipObservation"], ["FlattenObservation"]]
# RescaleObservation / RescaleAction called with their DEFAULT finite target range over a box that has
# an unbounded component (gymnasium asserts against this; lerax computes 0 * inf)
S_RO_DEFAULT = [["RescaleObservation", "default"]]

DISCRETE_ACTION = {"CartPole", "MountainCar", "Acrobot"}
# MuJoCo environments on which the thorough tier also runs every single-wrapper stack concretely
# (all eleven get the all-in-one stack concretely and every stack abstractly): clipped observations
# and termination (Hopper), contact forces (Ant), no termination (Reacher), the smallest model.
MUJOCO_REPRESENTATIVES = ["Hopper", "Ant", "Reacher", "InvertedPendulum"]

BIG = 1.0e30  # stand-in for the corner of an unbounded action dimension (ClipAction declares Box(-inf, inf)): finite and in the space,
# but its square overflows float32 - an action wrapper that lets it through to the inner reward / dynamics shows as a non-finite signal
SYM_BOX = {"l": 0, "h": 1, "z": 2, "a": 3, "s": 4}
SYM_SAMPLE_DISC = 99
BLOCK = {"classic": 4096, "mujoco": 256, "g1": 64}
MAX_FAILS_PER_SIG = 3


def stack_tag(stack) -> str:
    if not stack:
        return "bare"
    return "+".join(w[0] + ("(" + ",".join(str(x) for x in w[1:]) + ")" if len(w) > 1 else "") for w in stack)


def cfg_tag(cfg) -> str:
    return ",".join(f"{k}={cfg[k]}" for k in sorted(cfg)) or "default"


def applicable_stacks(name: str, which: str):
    disc = name in DISCRETE_ACTION
    if which == "all-in-one":
        return [S_ALL_DISC if disc else S_ALL_BOX]
    base = [S_TL, S_FO, S_CO_TL, S_RO, S_CR]
    if not disc:
        base += [S_CA, S_RA]
    if which == "each":
        return base
    if which == "each+":
        return base + [S_ID, S_ALL_DISC if disc else S_ALL_BOX] + ([] if disc else [S_REV_BOX, S_REV_RO_CA])
    raise HarnessError(which)


# ---------------------------------------------------------------------------------------------
# building the real objects from a JSON case
# ---------------------------------------------------------------------------------------------
def build_env(name: str, cfg: dict, stack: list):
    mod, cls, _ = ENVS[name]
    kwargs = dict(cfg)
    if "solver" in kwargs:
        import diffrax

        kwargs["solver"] = getattr(diffrax, kwargs["solver"])()
    env = getattr(importlib.import_module(mod), cls)(**kwargs)
    for w in stack:
        kind = w[0]
        if kind == "TimeLimit":
            env = W.TimeLimit(env, int(w[1]))
        elif kind == "ClipAction":
            env = W.ClipAction(env)
        elif kind == "RescaleAction":
            env = W.RescaleAction(env)
        elif kind == "FlattenObservation":
            env = W.FlattenObservation(env)
        elif kind == "ClipObservation":
            env = W.ClipObservation(env)
        elif kind == "ClipReward":
            env = W.ClipReward(env)
        elif kind == "Identity":
            env = W.Identity(env)
        elif kind == "RescaleObservation":
            if w[1] == "default":
                env = W.RescaleObservation(env)
            else:  # target range [-1, 1] on bounded components, unbounded ones stay unbounded
                lo = np.asarray(env.observation_space.low)
                hi = np.asarray(env.observation_space.high)
                fin = np.isfinite(lo) & np.isfinite(hi)
                env = W.RescaleObservation(
                    env, min=jnp.asarray(np.where(fin, -1.0, lo), dtype=float), max=jnp.asarray(np.where(fin, 1.0, hi), dtype=float)
                )
        else:
            raise HarnessError(f"unknown wrapper spec {w}")
    return env


_ENV_MEMO: dict = {}


def env_for(name, cfg, stack):
    k = (name, json.dumps(cfg, sort_keys=True), json.dumps(stack))
    if k not in _ENV_MEMO:
        _ENV_MEMO[k] = build_env(name, cfg, stack)
    return _ENV_MEMO[k]


# ---------------------------------------------------------------------------------------------
# the reference: membership / typing predicates (numpy, written from the statement)
# ---------------------------------------------------------------------------------------------
def declared(space):
    """Read the DECLARATION (bounds, size) off a space object; nothing is judged here."""
    if isinstance(space, Box):
        return {"kind": "box", "low": np.asarray(space.low), "high": np.asarray(space.high)}
    if isinstance(space, Discrete):
        return {"kind": "discrete", "n": int(space.n)}
    raise HarnessError(f"C02 reference has no predicate for {type(space).__name__}")


def judge_members(arr, decl, lead: int):
    """arr has `lead` leading batch axes followed by one sample.  Returns (structural, per_sample):
    structural = a defect name that makes every sample a non-member (shape / dtype), or None;
    per_sample = {defect: bool array over the leading axes}."""
    arr = np.asarray(arr)
    if decl["kind"] == "box":
        low, high = decl["low"], decl["high"]
        if arr.shape[lead:] != low.shape:
            return f"shape {arr.shape[lead:]} declared {low.shape}", {}
        if arr.dtype.kind != "f" or arr.dtype != low.dtype:
            return f"dtype {arr.dtype} declared {low.dtype}", {}
        x = arr.astype(np.float64)
        axes = tuple(range(lead, arr.ndim))
        return None, {
            "nan": np.isnan(x).any(axis=axes) if axes else np.isnan(x),
            "below-low": (x < low.astype(np.float64)).any(axis=axes) if axes else (x < low.astype(np.float64)),
            "above-high": (x > high.astype(np.float64)).any(axis=axes) if axes else (x > high.astype(np.float64)),
        }
    n = decl["n"]
    if arr.shape[lead:] != ():
        return f"shape {arr.shape[lead:]} declared ()", {}
    if arr.dtype.kind not in "iu":
        return f"dtype {arr.dtype} declared integer", {}
    return None, {"below-low": arr < 0, "above-high": arr >= n}


def judge_struct(st, decl):
    """Same shape/dtype half on an abstract value (jax.ShapeDtypeStruct)."""
    shape, dtype = tuple(st.shape), np.dtype(st.dtype)
    if decl["kind"] == "box":
        if shape != decl["low"].shape:
            return f"shape {shape} declared {decl['low'].shape}"
        if dtype.kind != "f" or dtype != decl["low"].dtype:
            return f"dtype {dtype} declared {decl['low'].dtype}"
        return None
    if shape != ():
        return f"shape {shape} declared ()"
    if dtype.kind not in "iu":
        return f"dtype {dtype} declared integer"
    return None


def scalar_kind_defect(shape_tail, dtype, want: str):
    dtype = np.dtype(dtype)
    if tuple(shape_tail) != ():
        return f"shape {tuple(shape_tail)} instead of a scalar"
    if want == "float" and dtype.kind != "f":
        return f"dtype {dtype} is not floating"
    if want == "bool" and dtype.kind != "b":
        return f"dtype {dtype} is not bool"
    return None


# ---------------------------------------------------------------------------------------------
# action alphabets
# ---------------------------------------------------------------------------------------------
def action_table(decl) -> np.ndarray:
    """rows l, h, z, a for a Box action space (corners of unbounded dimensions: -+BIG)."""
    low, high = decl["low"].astype(np.float64), decl["high"].astype(np.float64)
    lo = np.where(np.isfinite(low), low, -BIG)
    hi = np.where(np.isfinite(high), high, BIG)
    mid = np.where(np.isfinite(low) & np.isfinite(high), (lo + hi) / 2.0, np.where(np.isfinite(low), lo, np.where(np.isfinite(high), hi, 0.0)))
    par = (np.arange(lo.size).reshape(lo.shape) % 2) == 0
    alt = np.where(par, lo, hi)
    return np.stack([lo, hi, mid, alt]).astype(decl["low"].dtype)


def encode_word(word: str, decl) -> list[int]:
    if decl["kind"] == "discrete":
        out = []
        for ch in word:
            if ch == "s":
                out.append(SYM_SAMPLE_DISC)
            else:
                a = int(ch)
                if not 0 <= a < decl["n"]:
                    raise HarnessError(f"action symbol {ch} outside Discrete({decl['n']})")
                out.append(a)
        return out
    return [SYM_BOX[ch] for ch in word]


def alphabet(name: str) -> str:
    if name in DISCRETE_ACTION:
        return {"CartPole": "01", "MountainCar": "012", "Acrobot": "012"}[name]
    return "lhzas"


# ---------------------------------------------------------------------------------------------
# the real code, batched
# ---------------------------------------------------------------------------------------------
def _pick_action(env, decl_kind, sym, smp, table):
    if decl_kind == "discrete":
        return jnp.where(sym == SYM_SAMPLE_DISC, smp, sym.astype(smp.dtype))
    row = table[jnp.clip(sym, 0, 3)]
    return jnp.where(sym == 4, smp, row.astype(smp.dtype))


@eqx.filter_jit
def _tree_run(env, kints, syms, table, succ=False):
    """kints (B,), syms (d, B) -> reset observation and per-step outputs, each (d, B, ...).
    succ: also emit the observation of the un-reset successor transition(s, a): step() auto-resets, so the observation of a
    terminal state - which the collectors store as next_observation - is never returned by step() itself."""
    kind = "discrete" if isinstance(env.action_space, Discrete) else "box"
    keys = jax.vmap(jr.key)(kints)

    def one_reset(k):
        s, o, _ = env.reset(key=k)
        return s, o

    def one_step(s, sym, k, t):
        smp = env.action_space.sample(key=jr.fold_in(k, 1000 + t))
        a = _pick_action(env, kind, sym, smp, table)
        s2, o, r, te, tr, _ = env.step(s, a, key=jr.fold_in(k, 1 + t))
        if succ:
            nxt = env.transition(s, a, key=jr.fold_in(k, 5000 + t))
            return s2, (o, r, te, tr, smp, a, env.observation(nxt, key=jr.fold_in(k, 6000 + t)))
        return s2, (o, r, te, tr, smp, a)

    s0, o0 = jax.vmap(one_reset)(keys)

    def body(s, x):
        t, sym = x
        return jax.vmap(lambda s_, y_, k_: one_step(s_, y_, k_, t))(s, sym, keys)

    _, outs = lax.scan(body, s0, (jnp.arange(syms.shape[0]), syms))
    return o0, outs


@eqx.filter_jit
def _long_run(env, kints, pol, table, ts, succ=False):
    """pol: dict of (B,) int arrays kind/period/comp/sign/hi/lo (symbols); ts = arange(H).  succ: as in _tree_run."""
    kind = "discrete" if isinstance(env.action_space, Discrete) else "box"
    keys = jax.vmap(jr.key)(kints)

    def one_reset(k):
        s, o, _ = env.reset(key=k)
        return s, o

    def one_step(s, o, k, p, t):
        feat = jnp.ravel(o)[p["comp"]] * p["sign"]
        phase = (t // p["period"]) % 2
        use_hi = jnp.where(p["kind"] == 0, True, jnp.where(p["kind"] == 1, phase == 0, feat >= 0))
        sym = jnp.where(use_hi, p["hi"], p["lo"])
        smp = env.action_space.sample(key=jr.fold_in(k, 1000 + t))
        a = _pick_action(env, kind, sym, smp, table)
        s2, o2, r, te, tr, _ = env.step(s, a, key=jr.fold_in(k, 1 + t))
        if succ:
            nxt = env.transition(s, a, key=jr.fold_in(k, 5000 + t))
            return (s2, o2), (o2, r, te, tr, smp, a, env.observation(nxt, key=jr.fold_in(k, 6000 + t)))
        return (s2, o2), (o2, r, te, tr, smp, a)

    s0, o0 = jax.vmap(one_reset)(keys)

    def body(c, t):
        s, o = c
        return jax.vmap(lambda s_, o_, k_, p_: one_step(s_, o_, k_, p_, t))(s, o, keys, pol)

    _, outs = lax.scan(body, (s0, o0), ts)
    return o0, outs


def _pad(rows: list, block: int) -> list:
    n = len(rows)
    m = -(-n // block) * block
    return rows + [rows[-1]] * (m - n)


def crash_sig(e: Exception, what: str, name: str, stack) -> tuple[str, str] | None:
    where = lib_frame(e.__traceback__)
    if where is None:
        return None
    return f"{P}/{what}/crash/{type(e).__name__}@{where}/{name}/{stack_tag(stack)}", f"library raised {type(e).__name__}: {str(e)[:300]}"


# ---------------------------------------------------------------------------------------------
# judging one executed batch
# ---------------------------------------------------------------------------------------------
def judge_batch(what, name, cfg, stack, env, o0, outs, idx_of_row, descr_of_row, ctx: Ctx, n_rows: int):
    """o0 (B, ...), outs = (obs, rew, term, trunc, smp, act) each (d, B, ...).  Rows >= n_rows are padding.
    Returns [(case_index, signature, message)]."""
    tag = f"{name}/{stack_tag(stack)}"
    odecl, adecl = declared(env.observation_space), declared(env.action_space)
    obs, rew, term, trunc, smp, act = [np.asarray(x) for x in outs[:6]]
    o_succ = np.asarray(outs[6]) if len(outs) > 6 else None
    o0 = np.asarray(o0)
    d = obs.shape[0]
    fails: list = []
    per_sig: dict = {}

    def add(row, sig, msg):
        if per_sig.get(sig, 0) >= MAX_FAILS_PER_SIG:
            return
        per_sig[sig] = per_sig.get(sig, 0) + 1
        fails.append((idx_of_row(row), sig, f"{name} cfg={cfg_tag(cfg)} stack={stack_tag(stack)} {descr_of_row(row)}: {msg}"))

    def members(arr, decl, lead, label, show):
        # sampling is the action space's business: its signature does not multiply over wrapper stacks
        tag = f"{name}/{stack_tag(stack)}" if label != "sample" else name
        structural, per = judge_members(arr, decl, lead)
        if structural is not None:
            add(0, f"{P}/{label}/{structural.split(' ')[0]}/{tag}", f"{label}: {structural}")
            return
        for defect, mask in per.items():
            mask = np.asarray(mask)
            if lead == 2:
                mask = mask[:, :n_rows]
                bad_rows = np.flatnonzero(mask.any(axis=0))
                for b in bad_rows[:MAX_FAILS_PER_SIG]:
                    t = int(np.flatnonzero(mask[:, b])[0])
                    add(int(b), f"{P}/{label}/{defect}/{tag}", f"{label} at step {t + 1}: {show(arr[t, b], decl)}")
            else:
                mask = mask[:n_rows]
                for b in np.flatnonzero(mask)[:MAX_FAILS_PER_SIG]:
                    add(int(b), f"{P}/{label}/{defect}/{tag}", f"{label}: {show(arr[b], decl)}")

    def show_box(x, decl):
        x = np.asarray(x, dtype=np.float64).reshape(-1)
        if decl["kind"] != "box":
            return f"value {x.tolist()} declared Discrete({decl['n']})"
        lo, hi = decl["low"].astype(np.float64).reshape(-1), decl["high"].astype(np.float64).reshape(-1)
        bad = np.flatnonzero(np.isnan(x) | (x < lo) | (x > hi))[:4]
        return "; ".join(f"[{int(i)}]={float(x[i])!r} declared [{float(lo[i])!r}, {float(hi[i])!r}]" for i in bad)

    members(o0, odecl, 1, "reset-obs", show_box)
    members(obs, odecl, 2, "obs", show_box)
    if o_succ is not None:
        members(o_succ, odecl, 2, "successor-obs", show_box)
        ctx.guard("successor-obs-of-terminal-states", int(np.asarray(term)[:, :n_rows].sum()))
    members(smp, adecl, 2, "sample", show_box)

    for label, arr, want in (("reward", rew, "float"), ("terminal", term, "bool"), ("truncate", trunc, "bool")):
        defect = scalar_kind_defect(arr.shape[2:], arr.dtype, want)
        if defect is not None:
            add(0, f"{P}/{label}/{defect.split(' ')[0]}/{tag}", f"{label}: {defect}")
        elif want == "float":
            mask = ~np.isfinite(arr.astype(np.float64))[:, :n_rows]
            for b in np.flatnonzero(mask.any(axis=0))[:MAX_FAILS_PER_SIG]:
                t = int(np.flatnonzero(mask[:, b])[0])
                add(int(b), f"{P}/reward/non-finite/{tag}", f"reward at step {t + 1} is {float(arr[t, b])!r}")

    # vacuity counters (real rows only)
    real = slice(0, n_rows)
    if term.ndim == 2 and term.dtype.kind == "b":
        ctx.guard("steps-terminal", int(term[:, real].sum()))
        ctx.guard("steps-truncated", int(trunc[:, real].sum()) if trunc.ndim == 2 else 0)
    if odecl["kind"] == "box" and obs.shape[2:] == odecl["low"].shape:
        fin_lo, fin_hi = np.isfinite(odecl["low"]), np.isfinite(odecl["high"])
        touch = ((obs[:, real] == odecl["low"]) & fin_lo) | ((obs[:, real] == odecl["high"]) & fin_hi)
        ctx.guard("obs-components-exactly-on-a-finite-bound", int(touch.sum()))
        ctx.guard("obs-components-with-finite-bounds-checked", int((fin_lo | fin_hi).sum()) * d * n_rows)
    ctx.guard("observations-judged", (d + 1) * n_rows)
    ctx.guard(f"judged:{name}", n_rows)
    ctx.guard("sampled-actions-judged", d * n_rows)
    if adecl["kind"] == "box" and act.shape[2:] == adecl["low"].shape:
        ctx.guard("sampled-actions-stepped", int((np.abs(act[:, real] - smp[:, real]).reshape(d, n_rows, -1).max(axis=2) == 0).sum()))
    else:
        ctx.guard("sampled-actions-stepped", int((act[:, real] == smp[:, real]).sum()))
    return fails


# ---------------------------------------------------------------------------------------------
# clause: tree
# ---------------------------------------------------------------------------------------------
def _group(cases, keyfn):
    groups: dict = {}
    for i, c in enumerate(cases):
        groups.setdefault(keyfn(c), []).append(i)
    return groups


def run_tree_rows(env, name, rows_k, rows_w):
    """Execute rows (key int, encoded word) in fixed-size blocks; returns concatenated numpy outputs."""
    adecl = declared(env.action_space)
    table = jnp.asarray(action_table(adecl)) if adecl["kind"] == "box" else jnp.zeros((4,), dtype=int)
    block = BLOCK[FAMILY[name]]
    n = len(rows_k)
    ks, ws = _pad(list(rows_k), block), _pad(list(rows_w), block)
    o0s, outss = [], []
    for i in range(0, len(ks), block):
        kints = jnp.asarray(ks[i : i + block], dtype=jnp.int32)
        syms = jnp.asarray(np.asarray(ws[i : i + block], dtype=np.int32).T)
        o0, outs = _tree_run(env, kints, syms, table, FAMILY[name] == "classic")
        o0s.append(np.asarray(o0))
        outss.append([np.asarray(x) for x in outs])
    o0 = np.concatenate(o0s, axis=0)
    outs = [np.concatenate([o[j] for o in outss], axis=1) for j in range(len(outss[0]))]
    return o0, outs, n


def clause_tree(cases, ctx: Ctx):
    out = []
    groups = _group(cases, lambda c: (c["env"], json.dumps(c["cfg"], sort_keys=True), json.dumps(c["stack"]), len(c["acts"])))
    for (name, cfgs, stacks, d), idxs in groups.items():
        cfg, stack = json.loads(cfgs), json.loads(stacks)
        try:
            env = env_for(name, cfg, stack)
            adecl = declared(env.action_space)
            rows_k = [int(cases[i]["key"]) for i in idxs]
            rows_w = [encode_word(cases[i]["acts"], adecl) for i in idxs]
            o0, outs, n = run_tree_rows(env, name, rows_k, rows_w)
        except HarnessError:
            raise
        except Exception as e:
            cs = crash_sig(e, "tree", name, stack)
            if cs is None:
                raise
            out.append((idxs[0], cs[0], f"{name} cfg={cfg_tag(cfg)} stack={stack_tag(stack)}: {cs[1]}"))
            continue
        out += judge_batch(
            "tree", name, cfg, stack, env, o0, outs,
            lambda r: idxs[r], lambda r: f"key={cases[idxs[r]]['key']} acts={cases[idxs[r]]['acts']!r}", ctx, n,
        )
        nodes = {(cases[i]["key"], cases[i]["acts"][:j]) for i in idxs for j in range(d + 1)}
        ctx.states += len(nodes)
        ctx.transitions += len(nodes) - len({cases[i]["key"] for i in idxs})
        ctx.traces += len(idxs)
    return out


# ---------------------------------------------------------------------------------------------
# clause: long (scripted policies over a long horizon, classic control)
# ---------------------------------------------------------------------------------------------
def encode_policy(pol, adecl):
    hi_sym = (adecl["n"] - 1) if adecl["kind"] == "discrete" else SYM_BOX["h"]
    lo_sym = 0 if adecl["kind"] == "discrete" else SYM_BOX["l"]

    def sym(x):
        if x == "hi":
            return hi_sym
        if x == "lo":
            return lo_sym
        return encode_word(x, adecl)[0]

    if pol[0] == "const":
        return dict(kind=0, period=1, comp=0, sign=1, hi=sym(pol[1]), lo=sym(pol[1]))
    if pol[0] == "square":
        return dict(kind=1, period=int(pol[1]), comp=0, sign=1, hi=sym("hi"), lo=sym("lo"))
    if pol[0] == "bang":
        return dict(kind=2, period=1, comp=int(pol[1]), sign=int(pol[2]), hi=sym("hi"), lo=sym("lo"))
    raise HarnessError(f"unknown policy {pol}")


def policy_family(name: str, obs_dim: int):
    pols = [["const", a] for a in alphabet(name)]
    pols += [["square", p] for p in (1, 2, 5, 10, 25, 50)]
    pols += [["bang", j, s] for j in range(obs_dim) for s in (1, -1)]
    return pols


def clause_long(cases, ctx: Ctx):
    out = []
    groups = _group(cases, lambda c: (c["env"], json.dumps(c["cfg"], sort_keys=True), json.dumps(c["stack"]), int(c["H"])))
    for (name, cfgs, stacks, H), idxs in groups.items():
        cfg, stack = json.loads(cfgs), json.loads(stacks)
        try:
            env = env_for(name, cfg, stack)
            adecl = declared(env.action_space)
            table = jnp.asarray(action_table(adecl)) if adecl["kind"] == "box" else jnp.zeros((4,), dtype=int)
            block = 64
            rows = _pad([(int(cases[i]["key"]), encode_policy(cases[i]["pol"], adecl)) for i in idxs], block)
            o0s, outss = [], []
            for i in range(0, len(rows), block):
                kints = jnp.asarray([r[0] for r in rows[i : i + block]], dtype=jnp.int32)
                pol = {f: jnp.asarray([r[1][f] for r in rows[i : i + block]], dtype=jnp.int32) for f in ("kind", "period", "comp", "sign", "hi", "lo")}
                o0, outs = _long_run(env, kints, pol, table, jnp.arange(H), FAMILY[name] == "classic")
                o0s.append(np.asarray(o0))
                outss.append([np.asarray(x) for x in outs])
            o0 = np.concatenate(o0s, axis=0)
            outs = [np.concatenate([o[j] for o in outss], axis=1) for j in range(len(outss[0]))]
        except HarnessError:
            raise
        except Exception as e:
            cs = crash_sig(e, "long", name, stack)
            if cs is None:
                raise
            out.append((idxs[0], cs[0], f"{name} cfg={cfg_tag(cfg)} stack={stack_tag(stack)}: {cs[1]}"))
            continue
        out += judge_batch(
            "long", name, cfg, stack, env, o0, outs,
            lambda r: idxs[r], lambda r: f"key={cases[idxs[r]]['key']} policy={cases[idxs[r]]['pol']} H={H}", ctx, len(idxs),
        )
        ctx.transitions += H * len(idxs)
        ctx.traces += len(idxs)
    return out


# ---------------------------------------------------------------------------------------------
# clause: typing (abstract evaluation; decides shape / dtype for all states of a configuration)
# ---------------------------------------------------------------------------------------------
def clause_typing(cases, ctx: Ctx):
    out = []
    for i, c in enumerate(cases):
        name, cfg, stack = c["env"], c["cfg"], c["stack"]
        tag = f"{name}/{stack_tag(stack)}"
        pre = f"{name} cfg={cfg_tag(cfg)} stack={stack_tag(stack)} (abstract evaluation)"
        try:
            env = env_for(name, cfg, stack)
            odecl, adecl = declared(env.observation_space), declared(env.action_space)
            key = jr.key(0)
            state, obs0, _ = eqx.filter_eval_shape(lambda k: env.reset(key=k), key)
            smp = eqx.filter_eval_shape(lambda k: env.action_space.sample(key=k), key)
            _, obs, rew, term, trunc, _ = eqx.filter_eval_shape(lambda s, a, k: env.step(s, a, key=k), state, smp, key)
        except HarnessError:
            raise
        except Exception as e:
            cs = crash_sig(e, "typing", name, stack)
            if cs is None:
                raise
            out.append((i, cs[0], f"{pre}: {cs[1]}"))
            continue
        for label, st, decl in (("reset-obs", obs0, odecl), ("obs", obs, odecl), ("sample", smp, adecl)):
            defect = judge_struct(st, decl)
            if defect is not None:
                out.append((i, f"{P}/{label}/{defect.split(' ')[0]}/{tag if label != 'sample' else name}", f"{pre}: {label} {defect}"))
        for label, st, want in (("reward", rew, "float"), ("terminal", term, "bool"), ("truncate", trunc, "bool")):
            defect = scalar_kind_defect(st.shape, st.dtype, want)
            if defect is not None:
                out.append((i, f"{P}/{label}/{defect.split(' ')[0]}/{tag}", f"{pre}: {label} {defect}"))
        ctx.guard("configurations-typed-abstractly")
        if cfg:
            _TRACED_OTHER[name] = _TRACED_OTHER.get(name, 0) + 1
    return out


# ---------------------------------------------------------------------------------------------
# clause: purity (no Python-side state)
# ---------------------------------------------------------------------------------------------
def purity_rows(name, keys, depth):
    words = ["".join(w) for w in itertools.product(alphabet(name), repeat=depth)]
    if name in DISCRETE_ACTION:
        words.append("s" * depth)
    return [(int(k), w) for k in keys for w in words]


def batch_digests(env, name, keys, depth, max_rows=None) -> dict:
    adecl = declared(env.action_space)
    rows = purity_rows(name, keys, depth)
    if max_rows:  # a fixed stride over the enumerated tree (all keys stay represented); same compiled batch function
        stride = -(-len(rows) // int(max_rows))
        rows = rows[::stride]
    o0, outs, _ = run_tree_rows(env, name, [r[0] for r in rows], [encode_word(r[1], adecl) for r in rows])
    arrays = dict(zip(("reset_obs", "obs", "reward", "terminal", "truncate", "sample", "action"), [o0] + list(outs)))
    return {k: hashlib.sha1(str(v.dtype).encode() + str(v.shape).encode() + np.ascontiguousarray(v).tobytes()).hexdigest() for k, v in arrays.items()}


def _child_init():
    import threading
    import time

    parent = os.getppid()

    def watchdog():
        while True:
            time.sleep(2.0)
            if os.getppid() != parent:
                os._exit(1)

    threading.Thread(target=watchdog, daemon=True).start()
    from mc.core import setup_runtime

    setup_runtime(None)  # XLA_FLAGS etc. are inherited from the spawning process: identical compiler settings


def _child_digest(case):
    env = build_env(case["env"], case["cfg"], case["stack"])
    return batch_digests(env, case["env"], case["keys"], int(case["depth"]), case.get("max_rows"))


def start_fresh_process(case):
    """Spawn a fresh interpreter that computes the digests of the same batch; returns (executor, future)."""
    import concurrent.futures as cf
    import multiprocessing as mp

    ex = cf.ProcessPoolExecutor(1, mp_context=mp.get_context("spawn"), initializer=_child_init)
    return ex, ex.submit(_child_digest, {k: case.get(k) for k in ("env", "cfg", "stack", "keys", "depth", "max_rows")})


_TRACED_OTHER: dict = {}


def disturb(name: str, cfg: dict):
    """Python-side activity between the two in-process runs: an unrelated environment is reset and
    stepped, and another instance of the class under test (a different documented configuration
    where there is one) is constructed and traced."""
    other = build_env("Pendulum" if name == "CartPole" else "CartPole", {}, [])
    s, _, _ = other.reset(key=jr.key(4242))
    for t in range(3):
        a = other.action_space.sample(key=jr.key(t))
        s, *_ = other.step(s, a, key=jr.key(100 + t))
    if _TRACED_OTHER.get(name, 0) > 0:
        return  # clause_typing already constructed and traced other configurations of this class in this process
    alt = next((c for c in CONFIGS[name] if c != cfg), {})
    twin = build_env(name, alt, [])
    key = jr.key(7)
    st, _, _ = eqx.filter_eval_shape(lambda k: twin.reset(key=k), key)
    smp = eqx.filter_eval_shape(lambda k: twin.action_space.sample(key=k), key)
    eqx.filter_eval_shape(lambda s_, a_, k: twin.step(s_, a_, key=k), st, smp, key)


def clause_purity(cases, ctx: Ctx):
    out = []
    for i, c in enumerate(cases):
        name, cfg, stack = c["env"], c["cfg"], c["stack"]
        tag = f"{name}/{stack_tag(stack)}"
        pre = f"{name} cfg={cfg_tag(cfg)} stack={stack_tag(stack)} keys={c['keys']} depth={c['depth']}"
        # "child": False - no second process; "overlap" - the second process runs while this one re-runs
        # (scheduling only); anything else - the second process runs afterwards
        mode = c.get("child", True)
        child = start_fresh_process(c) if mode == "overlap" else None
        try:
            try:
                a = batch_digests(env_for(name, cfg, stack), name, c["keys"], int(c["depth"]), c.get("max_rows"))
                disturb(name, cfg)
                jax.clear_caches()
                eqx.clear_caches()
                b = batch_digests(build_env(name, cfg, stack), name, c["keys"], int(c["depth"]), c.get("max_rows"))
            except HarnessError:
                raise
            except Exception as e:
                cs = crash_sig(e, "purity", name, stack)
                if cs is None:
                    raise
                out.append((i, cs[0], f"{pre}: {cs[1]}"))
                continue
            diff = sorted(k for k in a if a[k] != b[k])
            if diff:
                out.append((i, f"{P}/purity/second-run-in-process-differs/{tag}", f"{pre}: outputs {diff} differ between two runs of the same batch in one process (freshly constructed environment, caches dropped, unrelated environment stepped in between)"))
            if mode:
                if child is None:
                    child = start_fresh_process(c)
                try:
                    cdig = child[1].result(timeout=1800)
                except Exception as e:
                    raise HarnessError(f"purity: the spawned process failed for {pre}: {type(e).__name__}: {e}")
                diff = sorted(k for k in a if a[k] != cdig[k])
                if diff:
                    out.append((i, f"{P}/purity/second-process-differs/{tag}", f"{pre}: outputs {diff} differ between this process and a freshly spawned one"))
                ctx.guard("purity-batches-compared-across-processes")
        finally:
            if child is not None:
                child[0].shutdown(wait=False, cancel_futures=True)
        ctx.guard("purity-batches-rerun-in-process")
    return out


def clause_mix(cases, ctx: Ctx):
    out = []
    # order matters for the purity batches only: the tree run traces the batch function first, the abstract
    # evaluations of other configurations of the same class come in between, the purity re-run last
    for kind, fn in (("tree", clause_tree), ("long", clause_long), ("typing", clause_typing), ("purity", clause_purity)):
        idxs = [i for i, c in enumerate(cases) if c["kind"] == kind]
        if idxs:
            t0 = time.time()
            out += [(idxs[j], s, m) for (j, s, m) in fn([cases[i] for i in idxs], ctx)]
            if os.environ.get("C02_TIMING"):
                envs = sorted({cases[i]["env"] for i in idxs})
                print(f"[C02 timing pid={os.getpid()}] {kind:<7} {','.join(envs)}: {len(idxs)} cases {time.time() - t0:.1f}s (t={time.time() - _T0:.0f}s)", file=sys.stderr, flush=True)
    return out


CLAUSES = {"mix": clause_mix, "tree": clause_tree, "long": clause_long, "typing": clause_typing, "purity": clause_purity}


# ---------------------------------------------------------------------------------------------
# enumeration
# ---------------------------------------------------------------------------------------------
def tree_cases(name, cfg, stack, keys, depth):
    words = ["".join(w) for w in itertools.product(alphabet(name), repeat=depth)]
    if name in DISCRETE_ACTION:
        words.append("s" * depth)
    return [dict(kind="tree", env=name, cfg=cfg, stack=stack, key=int(k), acts=w) for k in keys for w in words]


OBS_DIM = {"CartPole": 4, "MountainCar": 2, "ContinuousMountainCar": 2, "Acrobot": 6, "Pendulum": 3}


def explore(ctx: Ctx):
    thorough = ctx.tier == "thorough"
    K = key_ints(ctx.seed, 8)
    cases: list[dict] = []
    plan: dict = {}

    only = [x for x in os.environ.get("C02_ONLY", "").split(",") if x]  # development aid: restrict the environments
    concrete: set = set()  # (env, cfg, stack) combinations that get a concrete tree run in this tier

    def add_tree(name, cfg, stack, nkeys, depth):
        cs = tree_cases(name, cfg, stack, K[:nkeys], depth)
        cases.extend(cs)
        concrete.add((name, json.dumps(cfg, sort_keys=True), json.dumps(stack)))
        plan.setdefault(name, []).append(f"tree {cfg_tag(cfg)} {stack_tag(stack)} d={depth} |K|={nkeys} paths={len(cs)}")

    def add_typing(name, cfg, stack):
        # abstract evaluation only where this tier has no concrete run of the same combination
        # (a concrete run judges shape and dtype as well)
        if (name, json.dumps(cfg, sort_keys=True), json.dumps(stack)) not in concrete:
            cases.append(dict(kind="typing", env=name, cfg=cfg, stack=stack))

    def add_purity(name, stack, depth, child):
        cases.append(dict(kind="purity", env=name, cfg={}, stack=stack, keys=[int(k) for k in K[:2]], depth=depth, child=child, max_rows=BLOCK[FAMILY[name]]))

    for name, (_, _, fam) in ENVS.items():
        if only and name not in only:
            continue
        disc = name in DISCRETE_ACTION
        cfgs = CONFIGS[name]
        all_in_one = applicable_stacks(name, "all-in-one")[0]
        if fam == "classic":
            d_main = (8 if disc else 6) if thorough else (6 if disc else 4)
            d_side = (6 if disc else 4) if thorough else (4 if disc else 3)
            k_main, k_side = ((8 if disc else 4), 4) if thorough else (4, 2)
            add_tree(name, {}, [], k_main, d_main)
            for cfg in cfgs:
                add_tree(name, cfg, [], k_side, d_side)
            for stack in applicable_stacks(name, "each+"):
                add_tree(name, {}, stack, k_side, d_side)
            for cfg in [c for c in cfgs if "solver" not in c]:
                add_tree(name, cfg, all_in_one, k_side, d_side)
            H = 2000 if thorough else 400
            long_stacks = [[], S_RO, S_CO] + ([S_FO, S_CR] if thorough else []) + ([] if disc else [S_REV_RO_CA] + ([S_REV_BOX] if thorough else []))
            for cfg in [{}] + cfgs:
                for stack in long_stacks:
                    for pol in policy_family(name, OBS_DIM[name]):
                        for k in K[: (2 if thorough else 1)]:
                            cases.append(dict(kind="long", env=name, cfg=cfg, stack=stack, key=int(k), pol=pol, H=H))
            for cfg in [{}] + cfgs:
                for stack in [[]] + applicable_stacks(name, "each+"):
                    add_typing(name, cfg, stack)
            add_purity(name, [], d_side, True)
            if thorough:
                add_purity(name, all_in_one, d_side, True)
        elif fam == "mujoco":
            add_tree(name, {}, [], 2, 4 if thorough else 3)
            add_tree(name, {}, all_in_one, 2, 3)
            if not thorough and name in MUJOCO_REPRESENTATIVES[:2]:
                add_tree(name, {}, S_CA, 1, 2)  # ClipAction alone: nothing above it clips a non-finite reward back into range
            if thorough:
                for cfg in cfgs:
                    add_tree(name, cfg, [], 2, 3)
                if name in MUJOCO_REPRESENTATIVES:
                    for stack in applicable_stacks(name, "each"):
                        add_tree(name, {}, stack, 2, 3)
            for cfg in cfgs:
                add_typing(name, cfg, [])
            if thorough:
                for stack in applicable_stacks(name, "each+"):
                    add_typing(name, {}, stack)
            add_purity(name, [], 4 if thorough else 3, True if thorough else ("overlap" if name in MUJOCO_REPRESENTATIVES[:3] else False))
        else:  # g1
            add_tree(name, {}, [], 2, 3 if thorough else 2)
            if thorough:
                for cfg in cfgs:
                    add_tree(name, cfg, [], 2, 2)
                add_tree(name, {}, all_in_one, 2, 2)
            for cfg in cfgs:
                add_typing(name, cfg, [])
            if thorough:
                add_typing(name, {}, all_in_one)
            add_purity(name, [], 3 if thorough else 2, True if thorough else ("overlap" if name == "G1Standing" else False))
    # the default-argument rescaling wrappers over a box with an unbounded component
    # (a stack whose construction the library rejects - rescale_box now asserts Gymnasium's precondition - does not
    #  exist, so there is nothing to explore; it is explored only while it can be built)
    if not only or "CartPole" in only:
        try:
            build_env("CartPole", {}, S_RO_DEFAULT)
            add_tree("CartPole", {}, S_RO_DEFAULT, 2, 2)
        except AssertionError:
            ctx.guard("default-rescale-over-unbounded-box-rejected-at-construction")

    for c in cases:
        if c["kind"] == "tree":
            if c["env"] in DISCRETE_ACTION or any(ch != "z" for ch in c["acts"]):
                ctx.nontriv(("tree", c["env"], cfg_tag(c["cfg"]), stack_tag(c["stack"]), c["key"], c["acts"]))
        else:
            ctx.nontriv((c["kind"], c["env"], cfg_tag(c["cfg"]), stack_tag(c["stack"]), json.dumps(c.get("pol")), c.get("key")))

    ctx.rule = (
        "one case = one history: reset key k of the key alphabet K, then an action word over the corner alphabet "
        "(Discrete: every action, plus the all-sampled word; Box: all-low / all-high / midpoint / alternating low-high / "
        "action_space.sample) - the COMPLETE tree of words to depth d per (environment, constructor configuration, wrapper stack), "
        "stepped with the Gym-style step so episodes end and reset; plus, for classic control, H-step runs under every member of a "
        "finite scripted-policy family (constant, square waves, bang-bang on the sign of each observation component); plus abstract "
        "evaluation (shape/dtype for all states) of every documented configuration and stack; plus the purity batches. "
        "non-trivial = a tree path that applies at least one bound-corner or sampled action (or any discrete action), and every "
        "long / typing / purity case"
    )
    ctx.assumptions = [
        "keys limited to the alphabet K derived from VERIF_SEED (step keys and action-sample keys are fold_in children of the reset key)",
        "actions limited to the corner alphabet; corners of unbounded action dimensions (ClipAction declares Box(-inf, inf)) are represented by -+1e6",
        "MuJoCo / G1 horizons are d steps from a reset (quick 3 / 2, thorough 4 / 3); nothing is claimed about longer physics roll-outs",
        "shape and dtype are decided by abstract evaluation for all states; bounds / NaN / finiteness only on the enumerated histories",
        "float32 (jax default), CPU backend; membership is exact (no tolerance): observation and bounds are compared after exact widening to float64",
        "bitwise comparison across processes assumes identical XLA flags (inherited) on the same machine",
        "TransformAction / TransformObservation / TransformReward with user functions are not enumerated (their spaces are user-declared)",
    ]
    ctx.notes["cases_by_kind"] = {k: sum(1 for c in cases if c["kind"] == k) for k in ("tree", "long", "typing", "purity")}
    ctx.notes["plan"] = plan
    ctx.notes["keys"] = [int(k) for k in K]

    # run_parallel starts groups in order of decreasing case count; the three G1 tasks have the fewest
    # cases and the longest compiles, so each (thorough: its bare default configuration) rides with one
    # classic environment (most cases, started first) - scheduling only, the cases themselves are independent
    ride = {"G1Locomotion": "CartPole", "G1Standing": "MountainCar", "G1Standup": "Acrobot"}
    if thorough:

        def gk(c):
            if FAMILY[c["env"]] == "classic":
                return (c["env"],)
            if c["env"] in ride and not c["cfg"] and not c["stack"]:
                return (ride[c["env"]],)
            return (c["env"], json.dumps(c["cfg"], sort_keys=True), json.dumps(c["stack"]))

    else:
        gk = lambda c: ride.get(c["env"], c["env"])  # noqa: E731
    ctx.run_parallel("mix", cases, workers=6, group_key=gk, threads=2)
    if only:
        return  # development runs on a subset: vacuity guards are for the full enumeration
    ctx.require(
        "steps-terminal", "steps-truncated", "obs-components-exactly-on-a-finite-bound", "observations-judged",
        "sampled-actions-judged", "sampled-actions-stepped", "configurations-typed-abstractly",
        "purity-batches-rerun-in-process", "purity-batches-compared-across-processes", "successor-obs-of-terminal-states",
        *[f"judged:{name}" for name in ENVS],
    )
