"""C08 - on-policy losses equal the published objectives (PPO clip, A2C, REINFORCE).

The real static loss functions (PPO.ppo_loss, A2C.a2c_loss, REINFORCE.reinforce_loss) and their
filter_value_and_grad wrappers are evaluated on every rollout buffer over a finite grid that
straddles both clip edges, all value-clip regions, all flag / coefficient settings, with a tabular
actor-critic policy whose parameters ARE the per-row logits and values (row i observes state i, so
per-sample gradients are separated).  Oracle: float64 objectives of the statement, closed-form
gradients (self-validated against central differences of the float64 reference), the gradient-
support corollary, on-policy corollary (ratios 1, KL 0) on buffers collected by the real
collector, and a float64 clip-by-global-norm -> Adam reference for two consecutive updates.
Open conventions accepted either way, per case: value-loss scale kappa in {1/2, 1}; advantage
normalisation with ddof in {0, 1}.
"""

from __future__ import annotations

import itertools
from typing import ClassVar

import equinox as eqx
import jax
import numpy as np
from jax import numpy as jnp
from jax import random as jr

from lerax.algorithm import A2C, PPO, REINFORCE
from lerax.buffer import RolloutBuffer
from lerax.policy import AbstractActorCriticPolicy
from lerax.space import AbstractSpace, Discrete

from mc import refs
from mc.core import Ctx
from mc.policies import CounterState

LEVEL = "exploration"
EPS = 0.2
A_N = 3  # actions


class TabularAC(AbstractActorCriticPolicy):
    name: ClassVar[str] = "TabularAC"
    action_space: AbstractSpace
    observation_space: AbstractSpace
    logits: jax.Array  # [N, A]
    values: jax.Array  # [N]

    def __init__(self, logits, values):
        logits = jnp.asarray(logits, dtype=float)
        self.action_space = Discrete(logits.shape[-1])
        self.observation_space = Discrete(logits.shape[-2])
        self.logits = logits
        self.values = jnp.asarray(values, dtype=float)

    def reset(self, *, key):
        return CounterState(jnp.asarray(0, dtype=int))

    def _dist(self, obs):
        lg = self.logits[obs]
        return lg - jax.nn.logsumexp(lg)

    def __call__(self, state, observation, *, key=None, action_mask=None):
        return state, jnp.argmax(self.logits[observation])

    def action_and_value(self, state, observation, *, key, action_mask=None):
        lp = self._dist(observation)
        a = jr.categorical(key, lp)
        return state, a, self.values[observation], lp[a]

    def evaluate_action(self, state, observation, action, *, action_mask=None):
        lp = self._dist(observation)
        ent = -jnp.sum(jnp.exp(lp) * lp)
        return state, self.values[observation], lp[action], ent

    def value(self, state, observation):
        return state, self.values[observation]


def make_buffer(B, act, adv, ret, old_lp, old_v, lead=()):
    z = jnp.zeros(lead + (B,), dtype=int)
    obs = jnp.broadcast_to(jnp.arange(B), lead + (B,))
    return RolloutBuffer(
        observations=obs, actions=jnp.asarray(act, dtype=int), rewards=jnp.zeros(lead + (B,)), dones=jnp.zeros(lead + (B,), bool),
        log_probs=jnp.asarray(old_lp, float), values=jnp.asarray(old_v, float), states=CounterState(z), returns=jnp.asarray(ret, float),
        advantages=jnp.asarray(adv, float),
    )


# ---------------------------------------------------------------------------------------
# float64 reference objectives
# ---------------------------------------------------------------------------------------
def log_softmax(lg):
    m = lg.max(-1, keepdims=True)
    return lg - m - np.log(np.exp(lg - m).sum(-1, keepdims=True))


def ref_terms(c, logits, values):
    """all ingredients for one case (numpy float64); logits [B,A], values [B]"""
    B = len(c["act"])
    lsm = log_softmax(logits)
    lp = lsm[np.arange(B), c["act"]]
    ent = -(np.exp(lsm) * lsm).sum(-1)
    return lp, ent


def normalise(adv, ddof):
    eps32 = float(np.finfo(np.float32).eps)
    return (adv - adv.mean()) / (adv.std(ddof=ddof) + eps32)


def ppo_ref(c, logits, values, ddof=0, kappa=0.5, value_rule="max"):
    adv = np.asarray(c["adv"], dtype=np.float64)
    ret = np.asarray(c["ret"], dtype=np.float64)
    old_lp = np.asarray(c["old_lp"], dtype=np.float64)
    old_v = np.asarray(c["old_v"], dtype=np.float64)
    lp, ent = ref_terms(c, logits, values)
    logr = lp - old_lp
    r = np.exp(logr)
    if c["normalize"]:
        adv = normalise(adv, ddof)
    eps = c.get("eps", EPS)
    pol = -np.mean(np.minimum(r * adv, np.clip(r, 1 - eps, 1 + eps) * adv))
    e_u = (values - ret) ** 2
    if c["clip_value"]:
        vc = old_v + np.clip(values - old_v, -eps, eps)
        e_c = (vc - ret) ** 2
        err = np.maximum(e_u, e_c) if value_rule == "max" else np.minimum(e_u, e_c)
    else:
        err = e_u
    val = kappa * err.mean()
    ent_loss = -ent.mean()
    kl = np.mean(r - 1.0 - logr)
    total = pol + c["cv"] * val + c["ce"] * ent_loss
    return dict(total=total, policy=pol, value=val, entropy=ent_loss, kl=kl, r=r, adv=adv)


def pg_ref(c, logits, values, ddof=0, kappa=0.5, with_entropy=True):
    """A2C / REINFORCE: -E[log pi * A] + c_v * value (+ c_e * entropy)"""
    adv = np.asarray(c["adv"], dtype=np.float64)
    ret = np.asarray(c["ret"], dtype=np.float64)
    lp, ent = ref_terms(c, logits, values)
    if c["normalize"]:
        adv = normalise(adv, ddof)
    pol = -np.mean(lp * adv)
    val = kappa * np.mean((values - ret) ** 2)
    ent_loss = -ent.mean()
    total = pol + c["cv"] * val + (c["ce"] * ent_loss if with_entropy else 0.0)
    return dict(total=total, policy=pol, value=val, entropy=ent_loss)


def numgrad(f, logits, values, h=1e-6):
    gl = np.zeros_like(logits)
    gv = np.zeros_like(values)
    for idx in np.ndindex(*logits.shape):
        p, m = logits.copy(), logits.copy()
        p[idx] += h
        m[idx] -= h
        gl[idx] = (f(p, values) - f(m, values)) / (2 * h)
    for i in range(len(values)):
        p, m = values.copy(), values.copy()
        p[i] += h
        m[i] -= h
        gv[i] = (f(logits, p) - f(logits, m)) / (2 * h)
    return gl, gv


# ---------------------------------------------------------------------------------------
# real evaluation
# ---------------------------------------------------------------------------------------
_REAL = {}


def real_loss(algo, B, normalize, clip_value, eps=EPS):
    k = (algo, B, normalize, clip_value, eps)
    if k not in _REAL:
        if algo == "PPO":

            @eqx.filter_jit
            def f(lg, v, act, adv, ret, old_lp, old_v, cv, ce):
                def one(lg, v, act, adv, ret, old_lp, old_v, cv, ce):
                    pol = TabularAC(lg, v)
                    buf = make_buffer(B, act, adv, ret, old_lp, old_v)
                    (loss, st), g = PPO.ppo_loss_grad(pol, buf, normalize, eps, clip_value, cv, ce)
                    return dict(total=loss, stats_total=st.total_loss, policy=st.policy_loss, value=st.value_loss, entropy=st.entropy_loss, kl=st.approx_kl, g_logits=g.logits, g_values=g.values)

                return jax.vmap(one)(lg, v, act, adv, ret, old_lp, old_v, cv, ce)

        elif algo == "A2C":

            @eqx.filter_jit
            def f(lg, v, act, adv, ret, old_lp, old_v, cv, ce):
                def one(lg, v, act, adv, ret, old_lp, old_v, cv, ce):
                    pol = TabularAC(lg, v)
                    buf = make_buffer(B, act, adv, ret, old_lp, old_v)
                    (loss, st), g = A2C.a2c_loss_grad(pol, buf, normalize, cv, ce)
                    return dict(total=loss, stats_total=st.total_loss, policy=st.policy_loss, value=st.value_loss, entropy=st.entropy_loss, kl=jnp.zeros(()), g_logits=g.logits, g_values=g.values)

                return jax.vmap(one)(lg, v, act, adv, ret, old_lp, old_v, cv, ce)

        else:

            @eqx.filter_jit
            def f(lg, v, act, adv, ret, old_lp, old_v, cv, ce):
                def one(lg, v, act, adv, ret, old_lp, old_v, cv, ce):
                    pol = TabularAC(lg, v)
                    buf = make_buffer(B, act, adv, ret, old_lp, old_v)
                    (loss, st), g = REINFORCE.reinforce_loss_grad(pol, buf, normalize, cv)
                    return dict(total=loss, stats_total=st.total_loss, policy=st.policy_loss, value=st.value_loss, entropy=jnp.zeros(()), kl=jnp.zeros(()), g_logits=g.logits, g_values=g.values)

                return jax.vmap(one)(lg, v, act, adv, ret, old_lp, old_v, cv, ce)

        _REAL[k] = f
    return _REAL[k]


LOGITS_ROW = [[0.5, -0.25, 0.0], [1.0, 0.0, -1.0], [-0.5, 0.75, 0.25], [0.0, 0.0, 0.5]]


def materialise(c):
    """case -> arrays; old log-prob is chosen so that the ratio is the case's ratio"""
    B = len(c["act"])
    logits = np.asarray([LOGITS_ROW[i % 4] for i in range(B)], dtype=np.float64)
    values = np.asarray(c["v"], dtype=np.float64)
    lsm = log_softmax(logits)
    lp = lsm[np.arange(B), c["act"]]
    old_lp = lp - np.log(np.asarray(c["ratio"], dtype=np.float64))
    c2 = dict(c, old_lp=old_lp.astype(np.float32).astype(np.float64).tolist())
    return logits, values, c2


def clause_loss(cases, ctx: Ctx):
    """case: {algo, act[B], adv[B], ratio[B], v[B], old_v[B], ret[B], normalize, clip_value, cv, ce}"""
    out = []
    groups = {}
    for i, c in enumerate(cases):
        groups.setdefault((c["algo"], len(c["act"]), c["normalize"], c["clip_value"], c.get("eps", EPS)), []).append(i)
    for (algo, B, nz, cvf, eps_g), idxs in groups.items():
        mats = [materialise(cases[i]) for i in idxs]
        lg = np.stack([m[0] for m in mats])
        v = np.stack([m[1] for m in mats])
        cs = [m[2] for m in mats]
        arr = lambda k: np.asarray([c[k] for c in cs])
        res = real_loss(algo, B, nz, cvf, eps_g)(jnp.asarray(lg, float), jnp.asarray(v, float), jnp.asarray(arr("act")), jnp.asarray(arr("adv"), float),
                                        jnp.asarray(arr("ret"), float), jnp.asarray(arr("old_lp"), float), jnp.asarray(arr("old_v"), float),
                                        jnp.asarray(arr("cv"), float), jnp.asarray(arr("ce"), float))
        res = {k: np.asarray(x, dtype=np.float64) for k, x in res.items()}
        for n, c in enumerate(cs):
            # real float32 logits/values round-trip: reference uses the same float32-representable numbers
            lg64, v64 = lg[n].astype(np.float32).astype(np.float64), v[n].astype(np.float32).astype(np.float64)
            ok = False
            refs_tried = []
            grad_fail = None
            for ddof, kappa in itertools.product((0, 1) if c["normalize"] else (0,), (0.5, 1.0)):
                r = ppo_ref(c, lg64, v64, ddof, kappa) if algo == "PPO" else pg_ref(c, lg64, v64, ddof, kappa, with_entropy=(algo == "A2C"))
                refs_tried.append((ddof, kappa, r))
                fields = ["total", "policy", "value"] + (["entropy", "kl"] if algo == "PPO" else (["entropy"] if algo == "A2C" else []))
                if not all(refs.close(res[f][n], r[f], 2e-5) or abs(res[f][n] - r[f]) < 2e-6 for f in fields):
                    continue
                if c.get("grad"):
                    # gradients: central differences of the float64 reference under this convention
                    f64 = (lambda L, V: ppo_ref(c, L, V, ddof, kappa)["total"]) if algo == "PPO" else (lambda L, V: pg_ref(c, L, V, ddof, kappa, with_entropy=(algo == "A2C"))["total"])
                    gl, gv = numgrad(f64, lg64, v64)
                    if not (np.all(np.abs(res["g_logits"][n] - gl) <= 2e-4 * np.maximum(1.0, np.abs(gl))) and np.all(np.abs(res["g_values"][n] - gv) <= 2e-4 * np.maximum(1.0, np.abs(gv)))):
                        grad_fail = grad_fail or (gl, gv)
                        continue
                ok = True
                chosen = (ddof, kappa, r)
                break
            desc = f"{algo} B={B} clip_coefficient={eps_g} act={c['act']} adv={c['adv']} ratio={c['ratio']} v={c['v']} old_v={c['old_v']} ret={c['ret']} normalize={c['normalize']} clip_value={c['clip_value']} cv={c['cv']} ce={c['ce']}"
            if not ok and grad_fail is not None:
                gl, gv = grad_fail
                out.append((idxs[n], f"C08/{algo.lower()}/gradient", f"{desc}: gradient logits {res['g_logits'][n].tolist()} values {res['g_values'][n].tolist()}; reference {gl.tolist()} {gv.tolist()}"))
                continue
            if not ok:
                cl = lambda x, y: refs.close(x, y, 2e-5) or abs(x - y) < 2e-6
                # a term is wrong only if NO accepted convention reproduces it
                wrong = [f for f in ("policy", "value", "entropy", "kl") if f in refs_tried[0][2] and f in fields and not any(cl(res[f][n], t[2][f]) for t in refs_tried)]
                ddof, kappa, r = min(refs_tried, key=lambda t: sum(0 if cl(res[f][n], t[2][f]) else 1 for f in fields))
                if not wrong:
                    sig = f"C08/{algo.lower()}/total"
                else:
                    sig = f"C08/{algo.lower()}/{wrong[0]}-loss"
                    if wrong[0] == "value" and algo == "PPO" and c["clip_value"]:
                        if any(refs.close(res["value"][n], ppo_ref(c, lg64, v64, t[0], t[1], value_rule="min")["value"], 2e-5) for t in refs_tried):
                            sig = "C08/ppo/value-loss/clipped-takes-the-smaller-error"
                out.append((idxs[n], sig, f"{desc}: implementation total={res['total'][n]} policy={res['policy'][n]} value={res['value'][n]} entropy={res['entropy'][n]} kl={res['kl'][n]}; reference total={r['total']} policy={r['policy']} value={r['value']} entropy={r['entropy']}" + (f" kl={r['kl']}" if 'kl' in r else "")))
                continue
            ddof, kappa, r = chosen
            if not refs.close(res["stats_total"][n], res["total"][n], 1e-6):
                out.append((idxs[n], f"C08/{algo.lower()}/stats-total", f"{desc}: reported total_loss {res['stats_total'][n]} != minimised loss {res['total'][n]}"))
            if c.get("grad"):
                ctx.guard("gradient-cases")
                if algo == "PPO" and c["cv"] == 0 and c["ce"] == 0:
                    rr, aa = r["r"], r["adv"]
                    for i in range(B):
                        clipped_out = (rr[i] > 1 + eps_g and aa[i] > 0) or (rr[i] < 1 - eps_g and aa[i] < 0)
                        gnorm = np.abs(res["g_logits"][n][i]).max()
                        if clipped_out:
                            ctx.guard("support-clipped-out-rows")
                            if gnorm != 0.0:
                                out.append((idxs[n], "C08/ppo/gradient-support/clipped-sample-has-gradient", f"{desc}: row {i} has ratio {rr[i]:.3f} beyond the clip edge in the direction of its advantage {aa[i]:.3f} but policy gradient {res['g_logits'][n][i].tolist()}"))
                        elif abs(aa[i]) > 1e-6:
                            ctx.guard("support-active-rows")
                            if gnorm == 0.0:
                                out.append((idxs[n], "C08/ppo/gradient-support/active-sample-has-no-gradient", f"{desc}: row {i} ratio {rr[i]:.3f} advantage {aa[i]:.3f} contributes no policy gradient"))
            if algo == "PPO" and c["clip_value"]:
                e_u = (v64 - np.asarray(c["ret"])) ** 2
                vc = np.asarray(c["old_v"]) + np.clip(v64 - np.asarray(c["old_v"]), -eps_g, eps_g)
                e_c = (vc - np.asarray(c["ret"])) ** 2
                ctx.guard("value-clipped-larger", int((e_c > e_u + 1e-9).sum()))
                ctx.guard("value-clipped-smaller", int((e_c < e_u - 1e-9).sum()))
    return out


# ---------------------------------------------------------------------------------------
# on-policy corollary: data collected by the current policy => all ratios 1, approx_kl 0
# ---------------------------------------------------------------------------------------
def clause_onpolicy(cases, ctx: Ctx):
    from lerax.callback import CallbackList
    from lerax.policy import MLPActorCriticPolicy
    from lerax.wrapper import TimeLimit

    from mc.collect import PROBES
    from mc.mdp import TabEnv

    out = []
    for ci, c in enumerate(cases):
        env = TimeLimit(TabEnv(np.asarray(c["T"]), c["term"], c["init"], M=c.get("M"), act_kind=c["act_kind"], obs_kind="onehot"), 3)
        pol = MLPActorCriticPolicy(env, feature_size=4, feature_width=8, value_width=8, action_width=8, key=jr.key(c["key"]), log_std_init=c.get("log_std", 0.0))
        algo = PROBES["PPO"](num_envs=c["num_envs"], num_steps=c["num_steps"], num_batches=1, num_epochs=1)
        cb = CallbackList(callbacks=[])
        st0 = algo.reset(env, pol, key=jr.key(c["key"] + 1), callback=cb)
        st1 = eqx.filter_jit(lambda s, k: algo.iteration(s, key=k, callback=cb))(st0, jr.key(c["key"] + 2))
        buf = st1.policy.flatten_axes()
        loss, stats = PPO.ppo_loss(pol, buf, False, EPS, False, 0.0, 0.0)
        adv = np.asarray(buf.advantages, dtype=np.float64)
        kl = float(stats.approx_kl)
        ctx.guard("onpolicy-clipped-actions", int(np.sum(np.abs(np.asarray(buf.actions)) > 1.0)) if c["act_kind"] in ("box", "boxvec") else 0)
        if abs(kl) > 1e-5:
            out.append((ci, "C08/ppo/on-policy/approx-kl-not-zero", f"{c['act_kind']} MDP key {c['key']}: approx_kl={kl} on data collected by the evaluated policy"))
        if not refs.close(float(stats.policy_loss), -adv.mean(), 1e-4):
            out.append((ci, "C08/ppo/on-policy/ratios-not-one", f"{c['act_kind']} MDP key {c['key']}: policy_loss {float(stats.policy_loss)} != -mean(advantage) {-adv.mean()} (all ratios should be 1)"))
        # A2C / REINFORCE on the same fresh data: the re-evaluated log-probabilities are the stored ones (mask included)
        slp = np.asarray(buf.log_probs, dtype=np.float64)
        want = -(slp * adv).mean()
        masked = c.get("M") is not None
        for nm, (_, st2) in (("a2c", A2C.a2c_loss(pol, buf, False, 0.0, 0.0)), ("reinforce", REINFORCE.reinforce_loss(pol, buf, False, 0.0))):
            if not refs.close(float(st2.policy_loss), want, 1e-4):
                out.append((ci, f"C08/{nm}/on-policy/log-probs-differ-from-collection", f"{c['act_kind']} MDP key {c['key']}{' with action masks' if masked else ''}: policy_loss {float(st2.policy_loss)} != -mean(stored log-prob * advantage) {want}"))
        if masked:
            ctx.guard("onpolicy-masked-rows", int((~np.asarray(buf.action_masks)).any(-1).sum()))
    return out


# ---------------------------------------------------------------------------------------
# optimiser: clip_by_global_norm -> adam, two consecutive updates
# ---------------------------------------------------------------------------------------
def clause_optimiser(cases, ctx: Ctx):
    out = []
    for ci, c in enumerate(cases):
        B = 2
        algo_name = c["algo"]
        lr, mg = c["lr"], c["max_grad_norm"]
        if algo_name == "PPO":
            algo = PPO(num_envs=1, num_steps=B, num_batches=1, num_epochs=1, learning_rate=lr, max_grad_norm=mg, normalize_advantages=False, entropy_loss_coefficient=0.0, value_loss_coefficient=0.5)
        elif algo_name == "A2C":
            algo = A2C(num_envs=1, num_steps=B, learning_rate=lr, max_grad_norm=mg, normalize_advantages=False)
        else:
            algo = REINFORCE(num_envs=1, num_steps=B, learning_rate=lr, max_grad_norm=mg, normalize_advantages=False)
        pol = TabularAC(np.asarray([LOGITS_ROW[0], LOGITS_ROW[1]]), np.asarray([0.0, 0.0]))
        opt = algo.optimizer.init(eqx.filter(pol, eqx.is_inexact_array))
        bufs = []
        for scale in c["scales"]:  # gradient magnitude knobs: first >> max_grad_norm, second << (or vice versa)
            lsm = log_softmax(np.asarray([LOGITS_ROW[0], LOGITS_ROW[1]], dtype=np.float64))
            act = [0, 2]
            old_lp = lsm[np.arange(B), act]
            bufs.append(make_buffer(B, act, [scale, -0.5 * scale], [scale * 3.0, -scale], old_lp, [0.0, 0.0]))

        def grads_of(p, buf):
            if algo_name == "PPO":
                (_, _), g = PPO.ppo_loss_grad(p, buf, False, EPS, False, 0.5, 0.0)
            elif algo_name == "A2C":
                (_, _), g = A2C.a2c_loss_grad(p, buf, False, algo.value_loss_coefficient, algo.entropy_loss_coefficient)
            else:
                (_, _), g = REINFORCE.reinforce_loss_grad(p, buf, False, algo.value_loss_coefficient)
            return np.concatenate([np.asarray(g.logits, dtype=np.float64).ravel(), np.asarray(g.values, dtype=np.float64).ravel()])

        theta = lambda p: np.concatenate([np.asarray(p.logits, dtype=np.float64).ravel(), np.asarray(p.values, dtype=np.float64).ravel()])
        m = np.zeros(8)
        vv = np.zeros(8)
        th_ref = theta(pol)
        p_real, norms = pol, []
        for t, buf in enumerate(bufs, start=1):
            g = grads_of(p_real, buf)  # the real gradient at the real iterate (its correctness is the gradient clause's job)
            gn = np.sqrt((g**2).sum())
            norms.append(gn)
            if gn > mg:
                g = g * mg / gn
            m = 0.9 * m + 0.1 * g
            vv = 0.999 * vv + 0.001 * g * g
            th_ref = theta(p_real) - lr * (m / (1 - 0.9**t)) / (np.sqrt(vv / (1 - 0.999**t)) + 1e-8)
            if algo_name == "PPO":
                p_real, opt, _ = algo.train_batch(p_real, opt, buf)
            else:
                p_real, opt, _ = algo.train(p_real, opt, buf, key=jr.key(0))
            got = theta(p_real)
            if not np.all(np.abs(got - th_ref) <= 2e-3 * lr + 1e-7):
                out.append((ci, f"C08/optimiser/{algo_name.lower()}/update-{t}", f"{algo_name} lr={lr} max_grad_norm={mg} gradient norms {norms}: parameters after update {t} {got.tolist()}, float64 clip->Adam reference {th_ref.tolist()}"))
                break
        ctx.guard("opt-first-clipped", int(len(norms) > 1 and norms[0] > mg and norms[1] < mg))
        ctx.guard("opt-second-clipped", int(len(norms) > 1 and norms[0] < mg and norms[1] > mg))
    return out


# ---------------------------------------------------------------------------------------
# wiring: the algorithm's own train() must evaluate its loss with ITS hyper-parameters
# ---------------------------------------------------------------------------------------
def clause_wiring(cases, ctx: Ctx):
    """case: {algo, normalize, clip_value, eps, cv, ce}: every knob away from its default and from every other knob.  SGD(1) is swapped in
    for the optimiser, so the step applied by the real train() is minus the gradient it computed; it must equal the gradient of the
    (separately verified) static loss evaluated with the hyper-parameters the algorithm object was constructed with."""
    import optax

    out = []
    B = 3
    lg = np.asarray([LOGITS_ROW[0], LOGITS_ROW[1], LOGITS_ROW[2]])
    lsm = log_softmax(lg.astype(np.float64))
    act = [0, 2, 1]
    # old log-probs put the ratios at 0.7, 1.3 and 1.0: inside the 0.4 clip range, outside the 0.2 one
    old_lp = lsm[np.arange(B), act] - np.log(np.asarray([0.7, 1.3, 1.0]))
    buf = make_buffer(B, act, [1.5, 1.0, -0.5], [2.0, -1.0, 0.5], old_lp, [0.0, 0.3, -0.2])
    theta = lambda p: np.concatenate([np.asarray(p.logits, dtype=np.float64).ravel(), np.asarray(p.values, dtype=np.float64).ravel()])
    flat = lambda g: np.concatenate([np.asarray(g.logits, dtype=np.float64).ravel(), np.asarray(g.values, dtype=np.float64).ravel()])
    for ci, c in enumerate(cases):
        name, nz, clv, eps, cv, ce = c["algo"], c["normalize"], c["clip_value"], c["eps"], c["cv"], c["ce"]
        pol = TabularAC(lg, np.asarray([0.4, -0.6, 0.1]))
        if name == "PPO":
            algo = PPO(num_envs=1, num_steps=B, num_batches=1, num_epochs=1, normalize_advantages=nz, clip_coefficient=eps, clip_value_loss=clv,
                       value_loss_coefficient=cv, entropy_loss_coefficient=ce)
            (_, _), g = PPO.ppo_loss_grad(pol, buf, nz, eps, clv, cv, ce)
            alts = {"clip_coefficient": lambda: PPO.ppo_loss_grad(pol, buf, nz, 0.2, clv, cv, ce), "clip_value_loss": lambda: PPO.ppo_loss_grad(pol, buf, nz, eps, not clv, cv, ce),
                    "normalize_advantages": lambda: PPO.ppo_loss_grad(pol, buf, not nz, eps, clv, cv, ce), "coefficients-swapped": lambda: PPO.ppo_loss_grad(pol, buf, nz, eps, clv, ce, cv)}
        elif name == "A2C":
            algo = A2C(num_envs=1, num_steps=B, normalize_advantages=nz, value_loss_coefficient=cv, entropy_loss_coefficient=ce)
            (_, _), g = A2C.a2c_loss_grad(pol, buf, nz, cv, ce)
            alts = {"normalize_advantages": lambda: A2C.a2c_loss_grad(pol, buf, not nz, cv, ce), "coefficients-swapped": lambda: A2C.a2c_loss_grad(pol, buf, nz, ce, cv)}
        else:
            algo = REINFORCE(num_envs=1, num_steps=B, normalize_advantages=nz, value_loss_coefficient=cv)
            (_, _), g = REINFORCE.reinforce_loss_grad(pol, buf, nz, cv)
            alts = {"normalize_advantages": lambda: REINFORCE.reinforce_loss_grad(pol, buf, not nz, cv)}
        object.__setattr__(algo, "optimizer", optax.sgd(1.0))
        opt = algo.optimizer.init(eqx.filter(pol, eqx.is_inexact_array))
        new, _, _ = algo.train(pol, opt, buf, key=jr.key(c["key"]))
        got = theta(pol) - theta(new)
        want = flat(g)
        ctx.guard("wiring-gradient-nonzero", int(np.abs(want).max() > 1e-3))
        if not np.all(refs.close(got, want, 1e-4)):
            sig = f"C08/wiring/{name.lower()}"
            for k, fn in alts.items():
                ga = flat(fn()[1])
                if not np.all(refs.close(ga, want, 1e-4)) and np.all(refs.close(got, ga, 1e-4)):
                    sig += f"/{k}"
                    break
            out.append((ci, sig, f"{name}(normalize_advantages={nz}, clip_coefficient={eps}, clip_value_loss={clv}, value_loss_coefficient={cv}, entropy_loss_coefficient={ce}).train "
                                 f"applied the step {got.tolist()} (SGD, lr 1); the gradient of its objective with these hyper-parameters is {want.tolist()}"))
    return out


CLAUSES = {"loss": clause_loss, "onpolicy": clause_onpolicy, "optimiser": clause_optimiser, "wiring": clause_wiring}

ADV = [-2.0, -0.5, 0.0, 0.5, 2.0]
RATIO = [0.5, 0.79, 0.81, 1.0, 1.19, 1.21, 2.0]
VAL = [(v, r) for v in (0.1, 0.5, -0.5) for r in (1.0, -1.0, 0.3)]  # (new value, return); old value is 0


def explore(ctx: Ctx):
    thorough = ctx.tier == "thorough"
    ctx.rule = (
        "every buffer of B rows over advantage{-2,-.5,0,.5,2} x ratio{.5,.79,.81,1,1.19,1.21,2} x (value,return) grid covering "
        "|V-V_old| inside / beyond +-eps on both sides with the clipped error both larger and smaller than the unclipped, x "
        "normalize_advantages x clip_value_loss x (c_v, c_e) settings, for PPO, A2C, REINFORCE (B=1 full, B=2 all pairs, B=3/4 "
        "reduced alphabets), gradients on the sub-grid marked grad. non-trivial = a case with a ratio outside the clip interval "
        "or a value change beyond the value clip"
    )
    ctx.assumptions = ["value-loss scale kappa in {1/2,1} and normalisation ddof in {0,1} accepted per case (statement leaves them open)",
                       "float32 implementation vs float64 reference at 2e-5 relative; gradients at 2e-4"]
    coefs = [(0.5, 0.0), (1.0, 0.01), (0.0, 0.0)]
    rows = [(a, r, v, ret) for a in ADV for r in RATIO for (v, ret) in VAL]
    cases = []

    def add(algo, rws, normalize, clip_value, cv, ce, grad):
        if normalize and np.std([x[0] for x in rws]) < 1e-6:
            ctx.guard("skipped-zero-variance-advantages")  # (A-mean)/(0+eps) is undefined by the statement and ill-conditioned
            return
        cases.append(dict(algo=algo, act=[(i + j) % A_N for j, i in enumerate(range(len(rws)))], adv=[x[0] for x in rws], ratio=[x[1] for x in rws],
                          v=[x[2] for x in rws], old_v=[0.0] * len(rws), ret=[x[3] for x in rws], normalize=normalize, clip_value=clip_value, cv=cv, ce=ce, grad=grad))

    # B=1 (normalisation is degenerate for B=1: only without)
    for rw in rows:
        for cvf in (False, True):
            for cv, ce in coefs:
                add("PPO", [rw], False, cvf, cv, ce, True)
    # B=2: all ordered pairs over a reduced row alphabet x all flags
    rows2 = [(a, r, v, ret) for a in (-2.0, 0.5, 0.0) for r in (0.5, 0.81, 1.21, 2.0) for (v, ret) in ((0.1, 1.0), (0.5, 0.3), (-0.5, -1.0), (0.5, -1.0))]
    if thorough:
        rows2 = [(a, r, v, ret) for a in ADV for r in RATIO for (v, ret) in ((0.1, 1.0), (0.5, 0.3), (-0.5, -1.0), (0.5, -1.0), (-0.5, 0.3))]
    for r1, r2 in itertools.product(rows2, repeat=2):
        for nz in (False, True):
            for cvf in (False, True):
                for cv, ce in (coefs if thorough else coefs[:2]):
                    add("PPO", [r1, r2], nz, cvf, cv, ce, False)
    # advantages of a small scale (rewards ~1e-3): normalisation must still bring them to unit scale
    for sc in (1e-2, 1e-3, 1e-4):
        for r1, r2 in itertools.product(rows2[::7], repeat=2):
            for algo in ("PPO", "A2C", "REINFORCE"):
                add(algo, [(r1[0] * sc,) + r1[1:], (r2[0] * sc,) + r2[1:]], True, False, 0.5, 0.0, False)
    # gradient sub-grid B=2 and B=3
    rows_g = [(a, r, v, ret) for a in (-2.0, 0.5) for r in (0.5, 0.81, 1.21, 2.0) for (v, ret) in ((0.1, 1.0), (0.5, -1.0))]
    for r1, r2 in itertools.product(rows_g, repeat=2):
        for nz in (False, True):
            for cvf in (False, True):
                add("PPO", [r1, r2], nz, cvf, 0.0, 0.0, True)
                add("PPO", [r1, r2], nz, cvf, 0.5, 0.01, True)
    rows3 = rows_g[:: (1 if thorough else 3)]
    for rs in itertools.product(rows3, repeat=3):
        add("PPO", list(rs), True, True, 0.5, 0.01, thorough)
        add("PPO", list(rs), True, False, 0.0, 0.0, True)
    if thorough:
        for rs in itertools.product(rows_g[::4], repeat=4):
            add("PPO", list(rs), True, True, 1.0, 0.01, False)
    # a second clip coefficient (0.4): ratios .79/.81/1.19/1.21 now lie INSIDE the interval, 0.5 and 2.0 outside;
    # value changes of 0.1 inside, 0.5 outside
    for r1, r2 in itertools.product(rows_g, repeat=2):
        for cvf in (False, True):
            cases.append(dict(cases[0], act=[0, 1], adv=[r1[0], r2[0]], ratio=[r1[1], r2[1]], v=[r1[2], r2[2]], old_v=[0.0, 0.0], ret=[r1[3], r2[3]],
                              normalize=False, clip_value=cvf, cv=0.5, ce=0.0, grad=True, eps=0.4))
    # A2C / REINFORCE: log-prob objective (the ratio entry only fixes the stored log-prob, which they must ignore)
    for algo in ("A2C", "REINFORCE"):
        for rw in rows[:: (1 if thorough else 4)]:
            add(algo, [rw], False, False, 0.5, 0.01 if algo == "A2C" else 0.0, True)
        for r1, r2 in itertools.product(rows_g, repeat=2):
            for nz in (False, True):
                add(algo, [r1, r2], nz, False, 0.5, 0.01 if algo == "A2C" else 0.0, True)
                add(algo, [r1, r2], nz, False, 1.0, 0.0, False)
    ctx.run("loss", cases, chunk=100000)
    nt = 0
    for c in cases:
        if any(r < 1 - EPS or r > 1 + EPS for r in c["ratio"]) or any(abs(v) > EPS for v in c["v"]):
            nt += 1
    ctx.nontrivial = set(range(nt))
    onp = []
    Tm = [[0, 1], [1, 0]]
    for kind in ("discrete", "box", "boxvec", "multidiscrete", "multibinary"):
        for k in range(4 if thorough else 2):
            onp.append(dict(T=Tm, term=[False, False], init=[True, True], act_kind=kind, key=ctx.seed * 1000 + k, num_envs=2, num_steps=8, log_std=1.0))
    for M in ([[True, True], [True, False]], [[False, True], [True, True]], [[True, False], [False, True]]):
        for k in range(2):
            onp.append(dict(T=Tm, term=[False, False], init=[True, True], act_kind="discrete", key=ctx.seed * 1000 + 50 + k, num_envs=2, num_steps=8, M=M))
    ctx.run("onpolicy", onp)
    opt = []
    for algo in ("PPO", "A2C", "REINFORCE"):
        for lr in (1e-2, 3e-4):
            for mg in (0.5, 0.05):
                opt.append(dict(algo=algo, lr=lr, max_grad_norm=mg, scales=[50.0, 0.01]))
                opt.append(dict(algo=algo, lr=lr, max_grad_norm=mg, scales=[0.01, 50.0]))
    ctx.run("optimiser", opt)
    wiring = [dict(algo=a, normalize=nz, clip_value=clv, eps=0.4, cv=cv, ce=ce, key=ctx.seed)
              for a in ("PPO", "A2C", "REINFORCE") for nz in (False, True) for clv in ((False, True) if a == "PPO" else (False,))
              for (cv, ce) in ((0.7, 0.3), (0.25, 0.0))]
    ctx.run("wiring", wiring)
    ctx.notes["wiring_cases"] = len(wiring)
    ctx.notes["loss_cases"] = len(cases)
    ctx.require("gradient-cases", "support-clipped-out-rows", "support-active-rows", "value-clipped-larger", "value-clipped-smaller",
                "opt-first-clipped", "opt-second-clipped", "onpolicy-clipped-actions", "wiring-gradient-nonzero", "onpolicy-masked-rows")
