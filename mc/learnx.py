"""Helpers shared by the checks that drive whole training runs (C10, C11, C19)."""

from __future__ import annotations

from typing import Any

import equinox as eqx
import jax
import numpy as np
from jax import random as jr

from lerax.algorithm import A2C, DQN, PPO, REINFORCE, SAC
from lerax.callback import AbstractLoggingBackend, LoggingCallback
from lerax.policy import MLPActorCriticPolicy, MLPQPolicy, MLPSACPolicy
from lerax.wrapper import TimeLimit

from mc.mdp import TabEnv


class RecordingBackend(AbstractLoggingBackend):
    """Logging backend that appends everything it receives to a Python list (static field)."""

    records: list = eqx.field(static=True)

    def __init__(self):
        self.records = []

    def open(self, name: str) -> None:
        self.records.append(("open", name))

    def log_hparams(self, hparams: dict[str, Any]) -> None:
        self.records.append(("hparams", dict(hparams)))

    def log_scalars(self, scalars, step) -> None:
        self.records.append(("scalars", {k: float(np.asarray(v)) for k, v in scalars.items()}, int(np.asarray(step))))

    def log_video(self, tag, frames, step, fps) -> None:
        self.records.append(("video", tag, int(step)))

    def close(self) -> None:
        self.records.append(("close",))

    def scalars(self):
        return [r for r in self.records if r[0] == "scalars"]

    def __hash__(self):
        return id(self)

    def __eq__(self, other):
        return self is other


CHAIN_T = [[1, 0], [2, 1], [0, 2]]  # 3-state ring, both actions move


def tiny_env(act_kind: str, tl: int = 3, term_state: int | None = 2, S: int = 3):
    T = np.asarray(CHAIN_T if S == 3 else [[1, 0], [0, 1]])
    term = [i == term_state for i in range(S)]
    init = [not t for t in term]
    env = TabEnv(T, term, init, act_kind=act_kind, obs_kind="onehot")
    return TimeLimit(env, tl) if tl else env


def make_policy(kind: str, env, key: int, **kw):
    k = jr.key(key)
    if kind == "ac":
        return MLPActorCriticPolicy(env, feature_size=4, feature_width=8, value_width=8, action_width=8, key=k, **kw)
    if kind == "q":
        return MLPQPolicy(env, width_size=8, depth=1, key=k, **kw)
    if kind == "sac":
        return MLPSACPolicy(env, key=k, **kw)
    raise ValueError(kind)


ALGO_POLICY = {"PPO": "ac", "A2C": "ac", "REINFORCE": "ac", "DQN": "q", "SAC": "sac"}
ALGO_ACT = {"PPO": "discrete", "A2C": "discrete", "REINFORCE": "discrete", "DQN": "discrete", "SAC": "box"}


def make_algo(name: str, num_envs: int, num_steps: int, **kw):
    if name == "PPO":
        return PPO(num_envs=num_envs, num_steps=num_steps, num_batches=kw.pop("num_batches", 1), num_epochs=kw.pop("num_epochs", 1), learning_rate=kw.pop("learning_rate", 1e-2), **kw)
    if name == "A2C":
        return A2C(num_envs=num_envs, num_steps=num_steps, learning_rate=kw.pop("learning_rate", 1e-2), **kw)
    if name == "REINFORCE":
        return REINFORCE(num_envs=num_envs, num_steps=num_steps, learning_rate=kw.pop("learning_rate", 1e-2), **kw)
    if name == "DQN":
        return DQN(num_envs=num_envs, num_steps=num_steps, buffer_size=kw.pop("buffer_size", 32), learning_starts=kw.pop("learning_starts", 2),
                   batch_size=kw.pop("batch_size", 2), learning_rate=kw.pop("learning_rate", 1e-2), **kw)
    if name == "SAC":
        return SAC(num_envs=num_envs, num_steps=num_steps, buffer_size=kw.pop("buffer_size", 32), learning_starts=kw.pop("learning_starts", 2),
                   batch_size=kw.pop("batch_size", 2), q_width_size=kw.pop("q_width_size", 8), q_depth=kw.pop("q_depth", 1),
                   policy_lr=kw.pop("policy_lr", 1e-2), q_lr=kw.pop("q_lr", 1e-2), **kw)
    raise ValueError(name)


def leaves_np(tree):
    return [np.asarray(x) for x in jax.tree.leaves(eqx.filter(tree, eqx.is_array))]


def same_bits(a, b) -> bool:
    la, lb = leaves_np(a), leaves_np(b)
    return len(la) == len(lb) and all(x.shape == y.shape and x.dtype == y.dtype and x.tobytes() == y.tobytes() for x, y in zip(la, lb))
