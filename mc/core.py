"""Core of the bounded-exhaustive explorer used by every property check.

Nothing here samples: callers enumerate finite case spaces; this module runs *clauses* over
the cases (a clause = a function `cases -> [(index, signature, message)]` executing the real
lerax code and judging it with a reference), confirms every failure by re-executing the single
failing case from scratch, writes replay files, matches signatures against the committed
known-findings file, and writes the evidence file.

Exit protocol (see DESIGN.md section 3):
  0  property held on everything explored (KNOWN-FINDING lines possible)
  1  + "VIOLATION property=<id> replay=<path>"   a violation not listed as known
  2  + "HARNESS-ERROR ..."                        the machinery itself failed (never VIOLATION)
"""

from __future__ import annotations

import hashlib
import importlib
import itertools
import json
import os
import sys
import time
import traceback

VERIF = os.path.dirname(os.path.dirname(os.path.abspath(__file__)))
LERAX_SRC = os.path.abspath(os.environ.get("LERAX_SRC", "/repo/src"))
GUARD = "LERAX_VERIF"


def setup_runtime(threads: int | None = None) -> None:
    """Must run before jax is imported."""
    os.environ.setdefault("JAX_PLATFORMS", "cpu")
    os.environ[GUARD] = "1"
    os.environ.setdefault("TF_CPP_MIN_LOG_LEVEL", "3")
    os.environ.setdefault("PYTHONHASHSEED", "0")
    os.environ.setdefault("MUJOCO_GL", "egl")
    if threads is not None:
        os.environ["XLA_FLAGS"] = (
            os.environ.get("XLA_FLAGS", "")
            + f" --xla_cpu_multi_thread_eigen=false intra_op_parallelism_threads={threads}"
        ).strip()
        os.environ["OMP_NUM_THREADS"] = str(threads)
    if LERAX_SRC not in sys.path:
        sys.path.insert(0, LERAX_SRC)
    if VERIF not in sys.path:
        sys.path.insert(0, VERIF)
    import jax  # noqa

    cache = os.environ.get("VERIF_JAX_CACHE", os.path.join(VERIF, ".cache", "jax"))
    if cache and cache != "off":
        try:
            os.makedirs(cache, exist_ok=True)
            jax.config.update("jax_compilation_cache_dir", cache)
            jax.config.update("jax_persistent_cache_min_compile_time_secs", 1.0)
            jax.config.update("jax_persistent_cache_min_entry_size_bytes", 0)
        except Exception:  # cache is an optimisation only
            pass
    import lerax  # noqa

    got = os.path.abspath(os.path.dirname(lerax.__file__))
    want = os.path.join(LERAX_SRC, "lerax")
    if got != want:
        raise HarnessError(f"lerax imported from {got}, expected {want}")


class HarnessError(Exception):
    pass


def jsonable(x):
    """Convert numpy / jax scalars and arrays to plain JSON values."""
    import numpy as np

    if isinstance(x, dict):
        return {str(k): jsonable(v) for k, v in x.items()}
    if isinstance(x, (list, tuple)):
        return [jsonable(v) for v in x]
    if isinstance(x, (str, bool, int)) or x is None:
        return x
    if isinstance(x, float):
        if x != x:
            return "nan"
        if x in (float("inf"), float("-inf")):
            return "inf" if x > 0 else "-inf"
        return x
    if isinstance(x, (np.bool_,)):
        return bool(x)
    if isinstance(x, np.integer):
        return int(x)
    if isinstance(x, np.floating):
        return jsonable(float(x))
    if hasattr(x, "tolist"):
        return jsonable(np.asarray(x).tolist())
    return repr(x)


def unjson_float(v):
    if v == "nan":
        return float("nan")
    if v == "inf":
        return float("inf")
    if v == "-inf":
        return float("-inf")
    return v


def chash(obj) -> str:
    return hashlib.sha1(
        json.dumps(jsonable(obj), sort_keys=True).encode()
    ).hexdigest()[:16]


def load_findings() -> list[dict]:
    path = os.path.join(VERIF, "known_findings.json")
    if not os.path.exists(path):
        return []
    with open(path) as f:
        out = json.load(f)["findings"]
    frag = os.path.join(VERIF, "known_findings.d")  # per-property fragments (development only)
    if os.path.isdir(frag):
        for name in sorted(os.listdir(frag)):
            if name.endswith(".json"):
                with open(os.path.join(frag, name)) as f:
                    out += json.load(f)["findings"]
    return out


def lib_frame(tb) -> str | None:
    """Innermost frame of the traceback that lies inside the lerax source tree."""
    hit = None
    for fs in traceback.extract_tb(tb):
        if os.path.abspath(fs.filename).startswith(LERAX_SRC + os.sep):
            hit = f"{os.path.relpath(fs.filename, LERAX_SRC)}:{fs.name}"
    return hit


class Ctx:
    """Per-run bookkeeping: coverage counters, violations, findings, evidence."""

    def __init__(self, pid: str, tier: str, seed: int, level: str, clauses: dict):
        self.pid, self.tier, self.seed, self.level = pid, tier, seed, level
        self.clauses = clauses
        self.t0 = time.time()
        self.evaluations = 0
        self.states = 0
        self.transitions = 0
        self.traces = 0
        self.nontrivial: set = set()
        self.samples: list = []
        self.guards: dict[str, int] = {}
        self.required_guards: set[str] = set()
        self.per_clause: dict[str, int] = {}
        self.outcomes: dict[str, set] = {}
        self.violations: dict[str, dict] = {}  # signature -> record
        self.known_hits: dict[str, dict] = {}
        self.notes: dict = {}
        self.assumptions: list[str] = []
        self.rule = ""
        self.exhaustive = True
        self.findings = [f for f in load_findings() if f["property"] == pid]
        self.replay_mode = False
        self.no_evidence = False
        self.accept_unreproduced: set[str] = set()

    # ---- coverage ------------------------------------------------------------------
    def tick(self, n: int = 1):
        self.evaluations += int(n)

    def nontriv(self, key):
        self.nontrivial.add(key if isinstance(key, (str, int, tuple)) else chash(key))

    def sample(self, obj, limit: int = 6):
        if len(self.samples) < limit:
            self.samples.append(jsonable(obj))

    def guard(self, name: str, n: int = 1):
        self.guards[name] = self.guards.get(name, 0) + int(n)
        # guards are hit from inside every clause loop: a cheap place to keep the process below the kernel's limit on memory mappings
        self._guard_calls = getattr(self, "_guard_calls", 0) + 1
        if self._guard_calls % 64 == 0:
            relieve_native_pressure()

    def require(self, *names: str):
        self.required_guards.update(names)

    def outcome(self, category: str, value):
        try:
            hash(value)
        except TypeError:
            value = chash(value)
        self.outcomes.setdefault(category, set()).add(value)

    # ---- running clauses -----------------------------------------------------------
    def run(self, clause: str, cases: list[dict], chunk: int | None = None):
        """Run clause over cases (all of them); record, confirm and file failures."""
        fn = self.clauses[clause]
        if not cases:
            return
        if chunk:
            for i in range(0, len(cases), chunk):
                self.run(clause, cases[i : i + chunk])
            return
        self.per_clause[clause] = self.per_clause.get(clause, 0) + len(cases)
        if len(self.samples) < 6 and clause not in {s.get("clause") for s in self.samples if isinstance(s, dict)}:
            self.sample({"clause": clause, "case": cases[0]})
        try:
            fails = list(fn(cases, self))
        except HarnessError:
            raise
        except Exception as e:  # isolate the crashing case
            if len(cases) == 1:
                where = lib_frame(e.__traceback__)
                if where is None:
                    raise
                fails = [(0, f"{self.pid}/{clause}/crash/{type(e).__name__}@{where}", f"library raised {type(e).__name__}: {e}"[:400])]
            else:
                fails = []
                where = lib_frame(e.__traceback__)
                if where is None:
                    raise
                # find the crashing cases one by one (bounded: first 3)
                found = 0
                for i, c in enumerate(cases):
                    try:
                        sub = list(fn([c], self))
                        fails += [(i, s, m) for (_, s, m) in sub]
                    except Exception as e2:
                        w2 = lib_frame(e2.__traceback__)
                        if w2 is None:
                            raise
                        fails.append((i, f"{self.pid}/{clause}/crash/{type(e2).__name__}@{w2}", f"library raised {type(e2).__name__}: {e2}"[:400]))
                        found += 1
                        if found >= 3:
                            break
                if not fails:
                    raise HarnessError(
                        f"clause {clause} raised on a batch but on no single case: {e!r}"
                    )
        self.tick(len(cases))
        seen_here = set()
        for idx, sig, msg in fails:
            if sig in self.violations or sig in self.known_hits or sig in seen_here:
                if sig in self.violations:
                    self.violations[sig]["count"] += 1
                elif sig in self.known_hits:
                    self.known_hits[sig]["count"] += 1
                continue
            seen_here.add(sig)
            self._file(clause, cases[idx], sig, msg)

    def run_parallel(self, clause: str, cases: list[dict], workers: int = 8, group_key=None, threads: int = 2):
        """Run a clause over cases in worker processes (spawned, each importing the property module
        afresh); failures come back as (index, signature, message) and are confirmed and filed here
        in the parent by re-executing the single case.  Cases with equal group_key stay together."""
        import concurrent.futures as cf
        import multiprocessing as mp

        if not cases:
            return
        workers = max(1, min(workers, int(os.environ.get("VERIF_WORKERS", workers))))
        groups: dict = {}
        for i, c in enumerate(cases):
            groups.setdefault(group_key(c) if group_key else i, []).append(i)
        chunks = [[] for _ in range(min(workers * 3, len(groups)))]
        for gi, (_, idxs) in enumerate(sorted(groups.items(), key=lambda kv: -len(kv[1]))):
            min(chunks, key=len).extend(idxs)
        chunks = [c for c in chunks if c]
        if workers == 1 or len(chunks) == 1:
            return self.run(clause, cases)
        self.per_clause[clause] = self.per_clause.get(clause, 0) + len(cases)
        if len(self.samples) < 6:
            self.sample({"clause": clause, "case": cases[0]})
        all_fails = []
        pending = list(chunks)
        nworkers = workers
        while pending:
            done_now, broken = [], False
            with cf.ProcessPoolExecutor(nworkers, mp_context=mp.get_context("spawn"), initializer=_winit, initargs=(threads,)) as ex:
                futs = {ex.submit(_wrun, self.pid, self.tier, self.seed, clause, [cases[i] for i in ch]): ch for ch in pending}
                for fut in cf.as_completed(futs):
                    ch = futs[fut]
                    try:
                        res = fut.result()
                    except cf.process.BrokenProcessPool:
                        broken = True  # a worker died (typically the out-of-memory killer); redo what is left with fewer workers
                        continue
                    done_now.append(ch)
                    if res.get("error"):
                        # re-run this chunk in-process so that the normal crash isolation applies
                        self.per_clause[clause] -= len(ch)
                        self.run(clause, [cases[i] for i in ch])
                        continue
                    self.tick(len(ch))
                    self.states += res["states"]
                    self.transitions += res["transitions"]
                    self.traces += res["traces"]
                    for g, n in res["guards"].items():
                        self.guard(g, n)
                    for cat, vals in res["outcomes"].items():
                        for v in vals:
                            self.outcome(cat, chash(v) if isinstance(v, (list, dict)) else v)
                    all_fails += [(ch[i], sig, msg) for (i, sig, msg) in res["fails"]]
            pending = [ch for ch in pending if ch not in done_now]
            if pending and broken:
                if nworkers == 1:
                    raise HarnessError(f"worker processes keep dying while running clause {clause} (out of memory?)")
                nworkers = max(1, nworkers // 2)
                print(f"note: a worker process died; retrying {len(pending)} chunk(s) with {nworkers} worker(s)", flush=True)
            elif pending:
                raise HarnessError("run_parallel: chunks left without a broken pool")
        seen_here = set()
        for idx, sig, msg in sorted(all_fails):
            if sig in self.violations or sig in self.known_hits or sig in seen_here:
                if sig in self.violations:
                    self.violations[sig]["count"] += 1
                elif sig in self.known_hits:
                    self.known_hits[sig]["count"] += 1
                continue
            seen_here.add(sig)
            self._file(clause, cases[idx], sig, msg)

    def _confirm(self, clause, case, sig) -> tuple[bool, str]:
        fn = self.clauses[clause]
        if os.environ.get("VERIF_FAULTLOG"):
            with open(os.environ["VERIF_FAULTLOG"] + ".confirm", "a") as f:
                f.write(json.dumps({"clause": clause, "sig": sig, "case": case}) + "\n")
        try:
            again = list(fn([case], self))
        except Exception as e:
            where = lib_frame(e.__traceback__)
            if where is None:
                raise
            again = [(0, f"{self.pid}/{clause}/crash/{type(e).__name__}@{where}", str(e)[:400])]
        sigs = [s for (_, s, _) in again]
        # a broken tree can produce dozens of distinct signatures, each confirmed by fresh compilations in this process:
        # drop the compiled executables regularly (the native JIT aborts once its code memory is exhausted)
        self._confirms = getattr(self, "_confirms", 0) + 1
        if self._confirms % 4 == 0 and "jax" in sys.modules:
            import gc

            sys.modules["jax"].clear_caches()
            gc.collect()
        return (sig in sigs), next((m for (_, s, m) in again if s == sig), "")

    def _file(self, clause, case, sig, msg):
        ok, msg2 = self._confirm(clause, case, sig)
        if not ok and any(sig.startswith(p) for p in self.accept_unreproduced):
            # purity clauses: a bitwise self-comparison that fails once and passes on re-execution is itself
            # evidence of hidden (Python-side) state
            ok, msg2 = True, msg + " [did not recur when the single case was re-executed in another process state]"
        if not ok:
            raise HarnessError(
                f"failure {sig} of clause {clause} did not reproduce on re-execution of the single case "
                f"(batch said: {msg})"
            )
        rec = {
            "property": self.pid,
            "clause": clause,
            "signature": sig,
            "message": msg2 or msg,
            "case": jsonable(case),
            "count": 1,
        }
        known = next(
            (f for f in self.findings if f["signature"] == sig and f.get("status") == "known"),
            None,
        )
        if known is not None:
            rec["what"] = known.get("what", "")
            self.known_hits[sig] = rec
            return
        if not self.replay_mode:
            d = os.path.join(os.environ.get("VERIF_REPLAY_DIR", os.path.join(VERIF, "replays")), self.pid)
            os.makedirs(d, exist_ok=True)
            path = os.path.join(d, chash(sig) + ".json")
            with open(path, "w") as f:
                json.dump({k: v for k, v in rec.items() if k != "count"}, f, indent=1)
            rec["replay"] = path
        self.violations[sig] = rec

    def fail_direct(self, clause: str, case: dict, sig: str, msg: str):
        """For checks whose failing case is already a single confirmed execution."""
        if sig in self.violations or sig in self.known_hits:
            return
        self._file(clause, case, sig, msg)

    # ---- finishing -----------------------------------------------------------------
    def finish(self) -> int:
        wall = time.time() - self.t0
        missing = [g for g in sorted(self.required_guards) if self.guards.get(g, 0) == 0]
        cov = {
            "evaluations": self.evaluations,
            "distinct_nontrivial": len(self.nontrivial),
            "rule": self.rule,
            "samples": self.samples or [{"note": "no cases"}],
            "states": self.states,
            "transitions": self.transitions,
            "traces_validated_against_impl": self.traces,
            "exhaustive": self.exhaustive,
            "per_clause_cases": self.per_clause,
            "vacuity_guards": self.guards,
            "distinct_outcomes": {k: len(v) for k, v in self.outcomes.items()},
            "known_findings_hit": sorted(self.known_hits),
            "lerax_src": LERAX_SRC,
        }
        cov.update(jsonable(self.notes))
        ev = {
            "property_id": self.pid,
            "tier": self.tier,
            "seed": self.seed,
            "level": self.level,
            "coverage": cov,
            "assumptions": self.assumptions,
            "wall_s": round(wall, 2),
            "violations": len(self.violations),
        }
        if not self.replay_mode and not self.no_evidence:
            d = os.path.join(VERIF, "evidence")
            os.makedirs(d, exist_ok=True)
            with open(os.path.join(d, f"{self.pid}.json"), "w") as f:
                json.dump(ev, f, indent=1)
        for sig, rec in sorted(self.known_hits.items()):
            print(f"KNOWN-FINDING: property={self.pid} {sig}: {rec.get('what') or rec['message']}")
        for sig, rec in sorted(self.violations.items()):
            print(f"  violation {sig} (x{rec['count']}): {rec['message']}")
            print(f"VIOLATION property={self.pid} replay={rec.get('replay', '-')}")
        stale = [
            f["signature"] for f in self.findings
            if f.get("status") == "known" and f["signature"] not in self.known_hits
            and f.get("tier", "quick") in ("quick", self.tier)
        ]
        print(
            f"[{self.pid} {self.tier} seed={self.seed}] evaluations={self.evaluations} "
            f"distinct_nontrivial={len(self.nontrivial)} states={self.states} "
            f"transitions={self.transitions} traces={self.traces} "
            f"violations={len(self.violations)} known={len(self.known_hits)} wall={wall:.1f}s"
        )
        if stale and not self.replay_mode:
            print(f"note: known findings not reproduced in this run (no longer failing?): {stale}")
        if self.violations:
            return 1
        if missing and not self.replay_mode:
            print(f"HARNESS-ERROR property={self.pid} vacuity guards never hit: {missing}")
            return 2
        return 0


@__import__("contextlib").contextmanager
def quiet_fds():
    """Temporarily send the process's stdout/stderr file descriptors to /dev/null (rich progress bars etc.)."""
    sys.stdout.flush()
    sys.stderr.flush()
    saved = os.dup(1), os.dup(2)
    dn = os.open(os.devnull, os.O_WRONLY)
    try:
        os.dup2(dn, 1)
        os.dup2(dn, 2)
        yield
    finally:
        sys.stdout.flush()
        sys.stderr.flush()
        os.dup2(saved[0], 1)
        os.dup2(saved[1], 2)
        for fd in (dn,) + saved:
            os.close(fd)


def _winit(threads):
    import threading

    parent = os.getppid()

    def watchdog():  # never outlive the parent (a killed check must not leave workers behind)
        while True:
            time.sleep(2.0)
            if os.getppid() != parent:
                os._exit(1)

    threading.Thread(target=watchdog, daemon=True).start()
    setup_runtime(threads=threads)


def _wrun(pid, tier, seed, clause, cases):
    try:
        mod = importlib.import_module(f"mc.props.{pid.lower()}")
        ctx = Ctx(pid, tier, seed, mod.LEVEL, mod.CLAUSES)
        ctx.no_evidence = True
        fails = list(mod.CLAUSES[clause](cases, ctx))
        return dict(
            fails=[(int(i), s, m) for (i, s, m) in fails], states=ctx.states, transitions=ctx.transitions,
            traces=ctx.traces, guards=ctx.guards, outcomes={k: [jsonable(v) for v in vs] for k, vs in ctx.outcomes.items()},
        )
    except Exception as e:
        return dict(error=f"{type(e).__name__}: {e}", tb=traceback.format_exc())


def key_ints(seed: int, n: int, salt: int = 0) -> list[int]:
    """The finite key alphabet K: integers fed to jax.random.key."""
    # kept inside int32 (keys are also fed to jnp.asarray): identical to seed*1000 + salt*100 + i for every seed below 2^31/1000
    return [(seed * 1000 + salt * 100 + i) % (2**31 - 1) for i in range(n)]


def main(argv=None) -> int:
    import argparse

    ap = argparse.ArgumentParser()
    ap.add_argument("prop")
    ap.add_argument("--tier", default=os.environ.get("VERIF_TIER", "quick"))
    ap.add_argument("--seed", type=int, default=int(os.environ.get("VERIF_SEED", "0") or 0))
    ap.add_argument("--replay", default=None)
    ap.add_argument("--no-evidence", action="store_true", help="do not rewrite evidence/<id>.json (mutation sweeps)")
    args = ap.parse_args(argv)
    pid = args.prop.upper()
    tier = args.tier if args.tier in ("quick", "thorough") else "quick"
    args.seed = abs(int(args.seed)) % 1_000_003  # key alphabets are derived as seed * 1000 + i and fed to int32 arrays: keep them in range
    if os.environ.get("VERIF_FAULTLOG"):  # development aid: where did a native crash happen?
        import faulthandler

        faulthandler.enable(file=open(os.environ["VERIF_FAULTLOG"], "w"), all_threads=True)
    if os.environ.get("VERIF_DUMP_AFTER"):
        import faulthandler

        faulthandler.dump_traceback_later(int(os.environ["VERIF_DUMP_AFTER"]), exit=True)
    try:
        setup_runtime()
        mod = importlib.import_module(f"mc.props.{pid.lower()}")
        ctx = Ctx(pid, tier, args.seed, mod.LEVEL, mod.CLAUSES)
        ctx.no_evidence = args.no_evidence
        if args.replay:
            ctx.replay_mode = True
            with open(args.replay) as f:
                rec = json.load(f)
            ctx.run(rec["clause"], [rec["case"]])
            if not ctx.violations and not ctx.known_hits:
                print(f"replay of {args.replay}: case passes on this tree")
            return ctx.finish()
        mod.explore(ctx)
        return ctx.finish()
    except HarnessError as e:
        print(f"HARNESS-ERROR property={pid} {e}")
        return _finish_partial(locals().get("ctx"), f"exploration stopped by a harness error: {e}")
    except Exception as e:
        traceback.print_exc()
        where = lib_frame(e.__traceback__)
        print(f"HARNESS-ERROR property={pid} uncaught {type(e).__name__} (lerax frame: {where}): {str(e)[:300]}")
        return _finish_partial(locals().get("ctx"), f"exploration stopped by an uncaught {type(e).__name__}")


def _finish_partial(ctx, why: str) -> int:
    """A harness error after violations were already confirmed and filed (typical on a badly broken tree: a later clause
    trips over the same defect in a way the harness does not anticipate): the confirmed violations are still reported."""
    if ctx is None or not ctx.violations:
        return 2
    ctx.notes["exploration_incomplete"] = why[:300]
    return ctx.finish()


def relieve_native_pressure(limit: int = 30000) -> bool:
    """Every compiled XLA executable holds several memory mappings; a long exploration that compiles one program per static
    configuration walks into vm.max_map_count (65530 here) and the native compiler then dies with SIGSEGV / SIGABRT.  When the
    process holds more than `limit` mappings the compiled executables are dropped (the jitted Python wrappers re-compile on demand)."""
    try:
        with open("/proc/self/maps", "rb") as f:
            n = sum(1 for _ in f)
    except OSError:
        return False
    if n <= limit or "jax" not in sys.modules:
        return False
    import gc

    sys.modules["jax"].clear_caches()
    gc.collect()
    return True


def product_dicts(**axes):
    keys = list(axes)
    for vals in itertools.product(*[axes[k] for k in keys]):
        yield dict(zip(keys, vals))
