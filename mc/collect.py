"""Drivers that push tabular MDPs x scripted policies through lerax's *real* collectors.

On-policy: a probe subclass overrides only `train` (it returns the rollout buffer in place of
the policy), so `algo.reset` + `algo.iteration` run unmodified - including the vmap over
parallel environments - and the buffer the learner would have trained on comes back out.
"""

from __future__ import annotations

import equinox as eqx
import jax
import numpy as np
from jax import numpy as jnp
from jax import random as jr

from lerax.algorithm import A2C, PPO, REINFORCE
from lerax.callback import CallbackList
from lerax.wrapper import TimeLimit

from mc.mdp import TabEnv, stack_envs
from mc.policies import ScriptedAC


def _probe(cls):
    class Probe(cls):
        def train(self, policy, opt_state, buffer, *, key):
            return buffer, opt_state, {}

    Probe.__name__ = f"Probe{cls.__name__}"
    return Probe


PROBES = {"PPO": _probe(PPO), "A2C": _probe(A2C), "REINFORCE": _probe(REINFORCE)}


def make_algo(name: str, num_envs: int, num_steps: int, gamma: float, lam: float):
    if name == "PPO":
        return PROBES[name](num_envs=num_envs, num_steps=num_steps, num_batches=1, num_epochs=1, gamma=gamma, gae_lambda=lam)
    if name == "A2C":
        return PROBES[name](num_envs=num_envs, num_steps=num_steps, gamma=gamma, gae_lambda=lam)
    if name == "REINFORCE":
        return PROBES[name](num_envs=num_envs, num_steps=num_steps, gamma=gamma)  # lambda fixed to 1
    raise ValueError(name)


def build_env(c: dict):
    env = TabEnv(
        np.asarray(c["T"]), c["term"], c["init"], M=c.get("M"), limit=c.get("limit", 0),
        act_kind=c["act_kind"], obs_kind=c["obs_kind"],
    )
    if c.get("tl"):
        env = TimeLimit(env, c["tl"])
    return env


def static_key(c: dict):
    return (
        c["algo"], c["S"], c["A"], c["act_kind"], c["obs_kind"], c.get("M") is not None,
        bool(c.get("tl")), c["num_envs"], c["num_steps"], len(c["script"]), c["gamma"], c["lam"],
    )


_RUNNERS = {}


def onpolicy_runner(algo):
    cb = CallbackList(callbacks=[])

    @eqx.filter_jit
    def run(envs, policies, keys):
        def one(env, policy, key):
            k1, k2 = jr.split(key)
            st0 = algo.reset(env, policy, key=k1, callback=cb)
            st1 = algo.iteration(st0, key=k2, callback=cb)
            return st0.step_state, st1.step_state, st1.policy, st1.iteration_count

        return jax.vmap(one)(envs, policies, keys)

    return run


def batch_envs(cases: list[dict]):
    """Stacked environments for cases sharing the same static structure, built from one
    template by replacing the table leaves with batched arrays (fast for 10^5 cases)."""
    c0 = cases[0]
    tmpl = build_env(c0)
    base = tmpl.env if c0.get("tl") else tmpl
    arr = lambda k, dt, default=None: jnp.asarray(np.asarray([c.get(k, default) if default is not None else c[k] for c in cases]), dtype=dt)
    n = len(cases)
    new_base = eqx.tree_at(
        lambda e: (e.T, e.term, e.init, e.limit, e.R),
        base,
        (arr("T", int), arr("term", bool), arr("init", bool), arr("limit", int, 0), jnp.broadcast_to(base.R, (n,) + base.R.shape)),
    )
    if c0.get("M") is not None:
        new_base = eqx.tree_at(lambda e: e.M, new_base, arr("M", bool))
    # Box bounds etc. inside spaces are array leaves too: broadcast every remaining unbatched leaf
    def bcast(x, y):
        return x
    if c0.get("tl"):
        env = eqx.tree_at(lambda w: (w.env, w.max_episode_steps), tmpl, (new_base, arr("tl", int)))
    else:
        env = new_base
    # leaves that were not replaced (space bounds) still lack the batch axis
    def fix(leaf):
        return leaf
    leaves, treedef = jax.tree.flatten(env)
    t_leaves = jax.tree.leaves(tmpl)
    out = []
    for new, old in zip(leaves, t_leaves):
        if new.ndim == old.ndim:  # untouched leaf -> broadcast
            new = jnp.broadcast_to(new, (n,) + new.shape)
        out.append(new)
    return jax.tree.unflatten(treedef, out), tmpl


def batch_policies(cases: list[dict], tmpl_env):
    from mc.policies import default_LP0, default_V

    c0 = cases[0]
    S = c0["S"]
    n = len(cases)
    pol = ScriptedAC(tmpl_env, np.asarray(c0["script"]), c0.get("V"), c0.get("LP0"), c0.get("VS", 0.0))
    dtype = pol.script.dtype
    script = jnp.asarray(np.asarray([c["script"] for c in cases]), dtype=dtype)
    V = jnp.asarray(np.asarray([c.get("V") or default_V(S).tolist() for c in cases]), dtype=float)
    LP0 = jnp.asarray(np.asarray([c.get("LP0") or default_LP0(S).tolist() for c in cases]), dtype=float)
    VS = jnp.asarray(np.asarray([c.get("VS", 0.0) for c in cases]), dtype=float)
    new = eqx.tree_at(lambda p: (p.script, p.V, p.LP0, p.VS), pol, (script, V, LP0, VS))
    leaves, treedef = jax.tree.flatten(new)
    t_leaves = jax.tree.leaves(pol)
    out = []
    for nl, ol in zip(leaves, t_leaves):
        if nl.ndim == ol.ndim:
            nl = jnp.broadcast_to(nl, (n,) + nl.shape)
        out.append(nl)
    return jax.tree.unflatten(treedef, out)


def run_onpolicy(cases: list[dict]):
    """All cases must share static_key. Returns numpy pytrees (init step state, final step
    state, buffer, iteration_count) with leading axis = case."""
    k = static_key(cases[0])
    c0 = cases[0]
    if k not in _RUNNERS:
        algo = make_algo(c0["algo"], c0["num_envs"], c0["num_steps"], c0["gamma"], c0["lam"])
        _RUNNERS[k] = onpolicy_runner(algo)
    envs, tmpl = batch_envs(cases)
    pols = batch_policies(cases, tmpl)
    keys = jax.vmap(jr.key)(jnp.asarray([c["key"] for c in cases]))
    out = _RUNNERS[k](envs, pols, keys)
    return jax.tree.map(np.asarray, out)


def unwrap_env_state(es, has_tl: bool):
    """-> (s, t, tl_count or None)"""
    if has_tl:
        return es.env_state.s, es.env_state.t, es.step_count
    return es.s, es.t, None


# ---------------------------------------------------------------------------------------
# off-policy: DQN with ScriptedQ (Discrete actions), SAC with ScriptedSAC (Box actions)
# ---------------------------------------------------------------------------------------
from lerax.algorithm import DQN, SAC  # noqa: E402

from mc.policies import ScriptedQ, ScriptedSAC  # noqa: E402


def off_static_key(c: dict):
    return (
        c["algo"], c["S"], c["A"], c["act_kind"], c["obs_kind"], bool(c.get("tl")), c["num_envs"],
        c["num_steps"], len(c["script"]), c["buffer_size"], c["learning_starts"], c["n_iter"], c["gamma"],
    )


def make_off_algo(c: dict):
    if c["algo"] == "DQN":
        return DQN(buffer_size=c["buffer_size"], gamma=c["gamma"], learning_starts=c["learning_starts"],
                   num_envs=c["num_envs"], num_steps=c["num_steps"], batch_size=1, target_update_interval=2)
    if c["algo"] == "SAC":
        return SAC(buffer_size=c["buffer_size"], gamma=c["gamma"], learning_starts=c["learning_starts"],
                   num_envs=c["num_envs"], num_steps=c["num_steps"], batch_size=1, q_width_size=4, q_depth=1)
    raise ValueError(c["algo"])


def offpolicy_runner(algo, n_iter: int):
    cb = CallbackList(callbacks=[])

    @eqx.filter_jit
    def run(envs, policies, keys):
        def one(env, policy, key):
            ks = jr.split(key, 1 + n_iter)
            st = algo.reset(env, policy, key=ks[0], callback=cb)
            snaps = [st.step_state.buffer]
            for i in range(n_iter):
                st = algo.iteration(st, key=ks[1 + i], callback=cb)
                snaps.append(st.step_state.buffer)
            return snaps, st.step_state.env_state, st.step_state.policy_state, st.iteration_count

        return jax.vmap(one)(envs, policies, keys)

    return run


def batch_off_policies(cases, tmpl_env):
    c0 = cases[0]
    n = len(cases)
    if c0["algo"] == "DQN":
        pol = ScriptedQ(tmpl_env, np.asarray(c0["script"]))
        script = jnp.asarray(np.asarray([c["script"] for c in cases]), dtype=int)
    else:
        pol = ScriptedSAC(tmpl_env, np.asarray(c0["script"]))
        script = jnp.asarray(np.rint(np.asarray([c["script"] for c in cases], dtype=np.float64) * 64.0), dtype=int)
    new = eqx.tree_at(lambda p: p.script, pol, script)
    leaves, treedef = jax.tree.flatten(new)
    t_leaves = jax.tree.leaves(pol)
    out = []
    for nl, ol in zip(leaves, t_leaves):
        if nl.ndim == ol.ndim:
            nl = jnp.broadcast_to(nl, (n,) + nl.shape)
        out.append(nl)
    return jax.tree.unflatten(treedef, out)


def run_offpolicy(cases: list[dict]):
    k = ("off",) + off_static_key(cases[0])
    c0 = cases[0]
    if k not in _RUNNERS:
        _RUNNERS[k] = offpolicy_runner(make_off_algo(c0), c0["n_iter"])
    envs, tmpl = batch_envs(cases)
    pols = batch_off_policies(cases, tmpl)
    keys = jax.vmap(jr.key)(jnp.asarray([c["key"] for c in cases]))
    out = _RUNNERS[k](envs, pols, keys)
    return jax.tree.map(np.asarray, out)
