"""Finite tabular MDP environments written against lerax's own AbstractEnv interface.

All tables are *array leaves*, so a single XLA compilation serves every MDP of a given shape
and whole families are explored under jax.vmap.

Action kinds (static):
  discrete      Discrete(A)               action index = the action
  box           Box(-1, 1, shape=())      index = 0 if a < 0 else 1 (A=2); reward += a/16
  boxvec        Box(-1, 1, shape=(2,))    index from a[0]; reward += a[0]/16 + a[1]/64
  multidiscrete MultiDiscrete((A, 2))     index = a[0]; reward += a[1]/16
  multibinary   MultiBinary(2)            index = a[0] (A=2); reward += a[1]/16
The additive action term makes the action the environment was *given* observable in the reward
(out-of-bounds values included), while |term| < 0.5 keeps the integer table entry decodable.

Observation kinds (static): 'discrete' (the state index, Discrete(S)), 'onehot' (Box(0,1,(S,))),
'dict' (Dict{pos: onehot, idx: Discrete(S)}) - always injective in the MDP state.
"""

from __future__ import annotations

import itertools
from typing import ClassVar

import equinox as eqx
import jax
import numpy as np
from jax import numpy as jnp
from jax import random as jr

from lerax.env import AbstractEnv, AbstractEnvState
from lerax.space import AbstractSpace, Box, Dict, Discrete, MultiBinary, MultiDiscrete


class TabState(AbstractEnvState):
    s: jax.Array  # MDP state index
    t: jax.Array  # episode clock (steps since the last initial())


def reward_table(S: int, A: int) -> np.ndarray:
    """Injective table of exactly representable rewards, alternating in sign."""
    R = np.zeros((S, A, S), dtype=np.float32)
    for s, a, n in itertools.product(range(S), range(A), range(S)):
        idx = (s * A + a) * S + n
        R[s, a, n] = (idx + 1) * (1 if idx % 2 == 0 else -1)
    return R


class TabEnv(AbstractEnv):
    name: ClassVar[str] = "TabEnv"

    action_space: AbstractSpace
    observation_space: AbstractSpace

    T: jax.Array  # [S, A] successor
    R: jax.Array  # [S, A, S] reward
    term: jax.Array  # [S] bool
    init: jax.Array  # [S] bool, non-empty
    M: jax.Array | None  # [S, A] bool action mask or None
    limit: jax.Array  # own time limit (0 = none): truncate when t >= limit

    S: int = eqx.field(static=True)
    A: int = eqx.field(static=True)
    act_kind: str = eqx.field(static=True)
    obs_kind: str = eqx.field(static=True)

    def __init__(self, T, term, init, *, M=None, limit=0, act_kind="discrete", obs_kind="discrete", R=None):
        T = np.asarray(T)
        S, A = T.shape
        self.S, self.A = int(S), int(A)
        self.T = jnp.asarray(T, dtype=int)
        self.R = jnp.asarray(reward_table(S, A) if R is None else R, dtype=float)
        self.term = jnp.asarray(term, dtype=bool)
        self.init = jnp.asarray(init, dtype=bool)
        self.M = None if M is None else jnp.asarray(M, dtype=bool)
        self.limit = jnp.asarray(limit, dtype=int)
        self.act_kind, self.obs_kind = act_kind, obs_kind
        if act_kind == "discrete":
            self.action_space = Discrete(A)
        elif act_kind == "box":
            assert A == 2
            self.action_space = Box(-1.0, 1.0, shape=())
        elif act_kind == "boxhalf":  # bounded on one side only: [-1, inf)
            assert A == 2
            self.action_space = Box(-1.0, jnp.inf, shape=())
        elif act_kind == "boxvec":
            assert A == 2
            self.action_space = Box(-1.0, 1.0, shape=(2,))
        elif act_kind == "multidiscrete":
            self.action_space = MultiDiscrete((A, 2))
        elif act_kind == "multibinary":
            assert A == 2
            self.action_space = MultiBinary(2)
        else:
            raise ValueError(act_kind)
        if obs_kind == "discrete":
            self.observation_space = Discrete(S)
        elif obs_kind == "onehot":
            self.observation_space = Box(0.0, 1.0, shape=(S,))
        elif obs_kind in ("dict", "plaindict"):
            self.observation_space = Dict({"pos": Box(0.0, 1.0, shape=(S,)), "idx": Discrete(S)})
        else:
            raise ValueError(obs_kind)

    # -- helpers -------------------------------------------------------------------
    def action_index(self, action):
        k = self.act_kind
        if k == "discrete":
            return jnp.asarray(action, dtype=int)
        if k in ("box", "boxhalf"):
            return (jnp.asarray(action) >= 0).astype(int)
        if k == "boxvec":
            return (jnp.asarray(action)[0] >= 0).astype(int)
        if k in ("multidiscrete", "multibinary"):
            return jnp.asarray(action)[0].astype(int)
        raise ValueError(k)

    def action_term(self, action):
        k = self.act_kind
        a = jnp.asarray(action, dtype=float)
        if k == "discrete":
            return jnp.asarray(0.0)
        if k in ("box", "boxhalf"):
            return a / 16.0
        if k == "boxvec":
            return a[0] / 16.0 + a[1] / 64.0
        return a[1] / 16.0

    # -- lerax functional API ------------------------------------------------------
    def initial(self, *, key):
        p = self.init.astype(float)
        s = jr.choice(key, self.S, p=p / jnp.sum(p))
        return TabState(jnp.asarray(s, dtype=int), jnp.asarray(0, dtype=int))

    def action_mask(self, state, *, key):
        if self.M is None:
            return None
        return self.M[state.s]

    def transition(self, state, action, *, key):
        a = self.action_index(action)
        nxt = self.T[state.s, a]
        if self.act_kind in ("box", "boxvec", "boxhalf"):
            # an out-of-bounds action must never reach the environment: if it does, the dynamics
            # visibly derail (successor shifted by one), so "driven with the clipped action" is observable
            oob = (jnp.asarray(action) < -1.0) if self.act_kind == "boxhalf" else jnp.any(jnp.abs(jnp.asarray(action)) > 1.0)
            nxt = jnp.where(oob, (nxt + 1) % self.S, nxt)
        return TabState(nxt, state.t + 1)

    def observation(self, state, *, key):
        if self.obs_kind == "discrete":
            return state.s
        onehot = (jnp.arange(self.S) == state.s).astype(float)
        if self.obs_kind == "onehot":
            return onehot
        if self.obs_kind == "plaindict":
            # a plain dict whose keys are declared in non-alphabetical order (as Gymnax environments return): JAX re-builds plain
            # dicts with SORTED keys whenever they cross a transformation, an OrderedDict keeps its order
            return {"pos": onehot, "idx": state.s}
        from collections import OrderedDict

        return OrderedDict({"pos": onehot, "idx": state.s})

    def reward(self, state, action, next_state, *, key):
        a = self.action_index(action)
        return self.R[state.s, a, next_state.s] + self.action_term(action)

    def terminal(self, state, *, key):
        return self.term[state.s]

    def truncate(self, state):
        return (self.limit > 0) & (state.t >= self.limit)

    def state_info(self, state):
        return {"s": state.s}

    def transition_info(self, state, action, next_state):
        return {"s": state.s, "a": self.action_index(action), "n": next_state.s, "given": self.action_term(action)}

    def default_renderer(self):
        raise NotImplementedError

    def render(self, state, renderer):
        raise NotImplementedError


# ---- enumeration of the program family ----------------------------------------------


def all_T(S: int, A: int):
    """Every deterministic transition table T: S x A -> S."""
    for flat in itertools.product(range(S), repeat=S * A):
        yield np.asarray(flat, dtype=np.int64).reshape(S, A)


def all_term_init(S: int, *, shaped_only: bool = False):
    """Every (terminal set, initial set): terminal set not full, initial set non-empty and
    disjoint from the terminal set."""
    out = []
    for term in itertools.product([False, True], repeat=S):
        if all(term):
            continue
        free = [i for i in range(S) if not term[i]]
        for r in range(1, len(free) + 1):
            for init_idx in itertools.combinations(free, r):
                init = tuple(i in init_idx for i in range(S))
                out.append((term, init))
    if shaped_only:
        keep = []
        for term, init in out:
            nt = sum(term)
            ni = sum(init)
            if (nt == 0 and ni in (1, S)) or (nt == 1 and ni >= 1 and term[S - 1]):
                keep.append((term, init))
        return keep
    return out


def all_masks(S: int, A: int):
    """Every action-mask table with at least one allowed action per state."""
    rows = [m for m in itertools.product([False, True], repeat=A) if any(m)]
    for combo in itertools.product(rows, repeat=S):
        yield np.asarray(combo, dtype=bool)


def stack_envs(envs):
    """Stack environments of identical static structure along a new leading axis."""
    return jax.tree.map(lambda *xs: jnp.stack(xs), *envs)


def obs_index(obs, obs_kind: str):
    """Recover the MDP state index from an observation (numpy)."""
    if obs_kind == "discrete":
        return np.asarray(obs).astype(int)
    if obs_kind == "onehot":
        return np.asarray(obs).argmax(-1).astype(int)
    return np.asarray(obs["idx"]).astype(int)
