#!/usr/bin/env python3
"""Regenerate /verif/MANIFEST.json from the table below and validate it against the schema.
Run with python3-vt (has jsonschema):  python3-vt tools/gen_manifest.py
"""
import json
import os
import sys

VERIF = os.path.dirname(os.path.dirname(os.path.abspath(__file__)))

TRUST = (
    "Trusted: the hand-written float64/pure-Python reference for this property (kept deliberately "
    "boring, validated by seeded mutants), JAX/XLA on CPU in float32, and the finite alphabets "
    "listed in the evidence; nothing is claimed beyond the stated bounds (larger MDPs, keys outside K)."
)

# property id -> (level, technique, text, note, design section)
CHECKS = {
    "C02": (
        "exploration",
        "exhaustive action-word trees over corner alphabets from reset keys for all 19 built-in environments x configurations x wrapper stacks; pure-Python membership/typing predicate; bitwise purity differential",
        "For every built-in environment (5 classic control, 11 MuJoCo, 3 Unitree G1), documented constructor configurations and wrapper stacks: the complete tree of action sequences over the corner alphabet "
        "to a depth, long scripted-policy runs for classic control, abstract shape/dtype evaluation of every configuration, and a three-way bitwise purity comparison (re-run after dropping caches, fresh process); "
        "observations, sampled actions, rewards and flags judged by a numpy predicate written from the statement (never space.contains).",
        TRUST,
        "5/C02",
    ),
    "C17": (
        "exploration",
        "grid enumeration of classic-control state spaces and depth-3 corner-action trees of the 11 MuJoCo environments; differential oracle = Gymnasium 1.3.0's own reference implementations (reset, semantic-injection and transition layers)",
        "Classic control: vector fields, state limits, rewards incl. goal-entering transitions, termination predicates and reset boxes on full grids against gymnasium's classes, CartPole+Euler trajectories for all action sequences. "
        "MuJoCo: for each environment and documented option, reset states of K and all corner-action sequences to depth 3 are compared with gymnasium v5 built from lerax's XML in three layers (reset observation, gymnasium's own "
        "step() with lerax's post-step physics injected, and full step-vs-step from reset/depth-1 states).",
        TRUST + " MJX-vs-MuJoCo-C steps that change the active constraint set are skipped and counted.",
        "5/C17",
    ),
    "C11": (
        "exploration",
        "exhaustive configuration grid (algorithm x environment x hyper-parameters x key x observer subset) with a bitwise differential oracle across repeated, cross-process and observer-free runs",
        "learn() of PPO/A2C/REINFORCE/DQN/SAC on tiny environments for every observer subset (quick: singletons and the full set; thorough: all subsets, bare and list forms) and every key of K: returned "
        "parameters are compared bit for bit with the observer-free run, a second identical run, and a run in a freshly spawned process; the input policy must be unchanged; every pair of keys must give different parameters.",
        TRUST + " Bounded to the key alphabet and one machine/backend.",
        "5/C11",
    ),
    "C12": (
        "model_checking",
        "grid enumeration of (state, action, key) triples per environment in eager/jit/vmap modes with sub-batch, repetition and re-trace checks; vmapped vs independent collection differential plus per-stream reference validation of the real iteration; per-environment randomness through the real reset/iteration of all five algorithms (environments starting in the same state must be separated by some explored key)",
        "Every classic-control environment bare and under each wrapper, and the MJX environments (quick: 4, thorough: all 11 plus the 3 G1 tasks): all functional components on a grid of triples in three modes, every "
        "contiguous sub-batch, bit-identical repetition, interleaving and re-tracing; vmapped collect_rollout vs N independent single-environment collections (PPO/A2C/DQN/SAC, scripted and MLP policies, N=2..4) and "
        "the real iteration with N parallel environments validated stream by stream against the reference collector.",
        TRUST,
        "5/C12",
    ),
    "C19": (
        "model_checking",
        "explicit-state BFS of the real episode-statistics accumulator over all (reward, done) histories; end-to-end trace validation of logged records against a reference accumulator driven by reconstructed environment rewards; exhaustive MDP x script enumeration for the evaluation helper",
        "The real LoggingCallbackStepState.next is explored over all event histories to depth 6 (8) for four smoothing factors; real collectors + LoggingCallback + recording backend on tabular MDPs x all scripts "
        "x 1-3 parallel environments (environment rewards reconstructed from recorded observations/actions) and whole learn() runs on single-initial-state MDPs; average_reward on all 2-state MDPs x scripts x "
        "episode counts x step caps with a key-agnostic reference (plus an independence clause over 64 keys).",
        TRUST,
        "5/C19",
    ),
    "C09": (
        "model_checking",
        "exhaustive enumeration of all (num_envs, num_steps, batch_size, key) through the real batching API, and visit counts recovered through the real PPO.train (state = per-sample value table)",
        "Every (num_envs,num_steps) in {1..4}^2, every batch size and every key of K (and key=None) through flatten_axes/batch_indices/gather/batches/sample on a buffer whose every field carries the sample tag; "
        "end to end the real PPO.train runs with one critic entry per sample and plain SGD so that the trained table equals 0.75^visits, giving the exact per-sample visit counts of every epoch for all "
        "(num_envs,num_steps,num_batches,num_epochs) configurations.",
        TRUST,
        "5/C09",
    ),
    "C10": (
        "model_checking",
        "iteration automaton driven by the real reset/iteration for all histories n<=7 over full configuration grids, learn() for every total_timesteps; reference schedule automaton",
        "DQN (num_envs x num_steps x target_update_interval), SAC (tau x policy_frequency x autotune x num_envs) and the on-policy algorithms are stepped with the real jitted iteration and observed after every "
        "call: iteration counter, environment-step budget, DQN target = online network at the last multiple of the interval (bitwise), float64 Polyak recursion once per iteration, actor/temperature change set = "
        "arithmetic progression of the policy frequency; learn() is run for every total_timesteps in 0..3*num_envs*num_steps+1 with a recording backend.",
        TRUST,
        "5/C10",
    ),
    "C18": (
        "exploration",
        "exhaustive configuration grids (policy class x space kinds x architectures x leaf overwrites x path spellings) and all ordered mismatch pairs through the real serialize/deserialize; bitwise comparison",
        "141 policy configurations x keys x special-value leaf overwrites x path spellings are saved and re-loaded with a different key; every leaf is compared bit for bit and every public output on an "
        "observation alphabet; for every ordered pair of configurations of a class with different parameter shapes the load must raise.",
        TRUST,
        "5/C18",
    ),
    "C01": (
        "model_checking",
        "explicit-state BFS of (wrapper stack x tabular MDP state x counters) with the real env.step; action trees for classic control; reference MDP with auto-reset; freshness of (auto-)reset states over 32 keys under every single wrapper and through 12 boundaries of the Gym adapter",
        "For every wrapper stack (depth<=1 and TimeLimit-containing depth-2; depth-3 thorough) over every 2-state tabular MDP (all transition tables, terminal/initial "
        "sets, time limits) all states reachable from reset are explored with the real env.step over every in-space action and every key of K; each transition is "
        "judged against a reference MDP with auto-reset (reward/flags of the transition taken, fresh initial state with clocks and counters restarted and its own "
        "observation when done, successor otherwise). The five classic-control environments (bare / TimeLimit(3)) are explored as complete action trees from reset "
        "and hand-placed near-terminal states against the functional decomposition, and the same MDPs are stepped through LeraxToGymEnv.",
        TRUST,
        "5/C01",
    ),
    "C03": (
        "exploration",
        "exhaustive enumeration of all done patterns x spanning input set x (gamma, lambda) grid on the real GAE routine; float64 recurrence + corollaries",
        "Every rollout length up to 6 (8 thorough), all 2^T done patterns, (gamma,lambda) in {0,.5,.9,1}^2 and a spanning set of reward/value/bootstrap vectors "
        "(GAE is linear in them) are evaluated by the real RolloutBuffer.compute_returns_and_advantages and compared with the recurrence of the statement, the "
        "lambda=1 Monte-Carlo and lambda=0 TD corollaries and bitwise non-interference across every episode end; the multi-environment clause runs through the real PPO iteration.",
        TRUST,
        "5/C03",
    ),
    "C07": (
        "exploration",
        "exhaustive enumeration of replay batches over a finite flag/action/reward alphabet x all action-value orderings on the real dqn_loss / sac_train; closed-form float64 targets and gradients; the same closed forms observed through the real reset + iteration of DQN and SAC on single-row environments (wiring of target networks and gamma)",
        "All batches of 1-2 (3 thorough) transitions over every (done,timeout) combination, action, next state and reward alphabet, with tabular online/target Q-functions ranging over all strict "
        "orderings (so Double DQN, vanilla DQN and online self-evaluation give different numbers), are pushed through the real DQN.dqn_loss_grad; SAC.sac_train is run on buffers holding exactly one batch "
        "with linear critics from a weight alphabet and SGD swapped in so the applied critic gradient is read back exactly. Loss values, gradients (targets constant), critic invariance under the actor branch "
        "and gate behaviour are compared with float64 closed forms.",
        TRUST,
        "5/C07",
    ),
    "C08": (
        "exploration",
        "exhaustive grid of rollout buffers straddling both clip edges and all value-clip regions on the real ppo/a2c/reinforce loss functions; float64 objectives, finite-difference gradients, clip->Adam reference; the real train() of each algorithm with every hyper-parameter away from its default (SGD swapped in) against the static loss; on-policy corollary on masked MDPs",
        "Every buffer of 1-3 (4 thorough) rows over a grid of advantages, probability ratios on both sides of both clip edges, value/return configurations inside and beyond the value clip, all flag and "
        "coefficient settings, evaluated by the real static loss functions with a tabular policy whose parameters are the per-row logits/values; loss, every reported statistic, gradients (against central "
        "differences of the float64 objective), the zero-gradient corollary for clipped samples, ratios=1/KL=0 on buffers collected by the real collector, and two consecutive optimiser updates against a "
        "float64 clip-by-global-norm then Adam reference.",
        TRUST,
        "5/C08",
    ),
    "C13": (
        "model_checking",
        "explicit-state BFS over all wrapper stacks (depth<=2, 3 thorough) x tabular MDPs with the real env.step and component functions; declared-change table reference",
        "Every stack of documented wrappers (all orders) over every 2-state tabular MDP is explored from reset over every outer action (including out-of-space values) and key; each transition and each "
        "functional component (transition, reward, terminal, truncate, observation, action_mask, infos, spaces, unwrapped) is compared with the declared-change table composed over the inner reference MDP; "
        "TimeLimit(N) for N=1..5 alone and doubled against the reference's own episode counter; constructibility of every documented wrapper.",
        TRUST,
        "5/C13",
    ),
    "C14": (
        "exploration",
        "exhaustive enumeration of space programs (all kinds, nesting depth<=2) x single-fault candidate values x all ordered pairs; pure-Python membership/equality reference",
        "All spaces over a leaf alphabet (Discrete, Box with finite/half-infinite/infinite/degenerate/huge bounds, MultiBinary, MultiDiscrete) combined by Tuple and Dict to depth 2; for each, members at every "
        "bound corner and every single way of leaving the set are fed to the real contains; sample/canonical/flatten_sample/eq/hash/gym round trip are checked against a reference written from the statement.",
        TRUST,
        "5/C14",
    ),
    "C15": (
        "exploration",
        "exhaustive parameter grids x full supports / quadrature grids for all seven distribution classes; float64 closed forms; deterministic key block for sampling clauses",
        "Every distribution class over parameter grids (logit alphabets incl. ties and near-deterministic laws, locations, scales, bounds, action_dims splits, flat vs sequence forms): prob=exp(log_prob), total mass, "
        "closed-form densities, mode/samples in support, sample_and_log_prob coherence, entropy, product-law additivity; sampling frequencies on a fixed 4096-key block with exact tail bounds.",
        TRUST + " The sampling clauses are decided on a fixed finite key block (exhaustive=false).",
        "5/C15",
    ),
    "C16": (
        "exploration",
        "exhaustive enumeration of every non-empty mask x logit alphabet x policy call modes; float64 conditional-law reference",
        "Every non-empty mask for 2-4 (5) categories, every per-dimension mask combination for multi-categorical and Bernoulli laws, over a logit alphabet with ties and masked argmax; end to end through the real "
        "MLPActorCriticPolicy / MLPQPolicy / SAC policy in keyed, key-less, action_and_value, evaluate_action and epsilon-greedy modes, eager and under jit.",
        TRUST + " Frequency clauses use a fixed key block with Bernstein bounds (exhaustive=false for keys).",
        "5/C16",
    ),
    "C20": (
        "model_checking",
        "exhaustive orbit exploration of the real float32 gait-phase map per (frequency, dt) until the orbit closes; grid enumeration of randomisation ranges and initial states",
        "The real advance_gait_phase is iterated until its orbit closes (all reachable phase states) for 42 frequencies x 2 control steps, plus 20000-step scans judged in float64; randomisers, initial(), "
        "sample_command and env.transition of the three G1 tasks over range configurations and key alphabets against model-diff, range, kinematics (MuJoCo-C) and phase invariants.",
        TRUST,
        "5/C20",
    ),
    "C04": (
        "model_checking",
        "exhaustive enumeration of all tiny tabular MDPs x all action scripts through the real on-policy collector; reference-collector trace validation",
        "Every deterministic MDP with |S|<=3,|A|=2 (all transition tables, terminal/initial sets, own and TimeLimit time limits, masks, "
        "Discrete/Box/vector-Box/MultiDiscrete/MultiBinary actions incl. out-of-bounds values) x every action script of the rollout length "
        "(plus deviation-bounded scripts for long horizons) is pushed through the real algo.reset+algo.iteration of PPO/A2C/REINFORCE; "
        "every buffer row, the carried state and the advantages are compared with a float64 reference collector.",
        TRUST,
        "5/C04",
    ),
    "C05": (
        "model_checking",
        "exhaustive enumeration of all tiny tabular MDPs x all behaviour scripts x buffer configurations through the real off-policy collector; slot-by-slot reference comparison",
        "Same program family through DQN (Discrete) and SAC (Box) reset/warm-up and iterations over a grid of "
        "(buffer_size, learning_starts, num_envs, num_steps); every slot of every per-environment replay buffer after every phase is "
        "compared with the reference transition list (pre-reset successor observation, timeout = truncated and not terminal, restart after done, budgets).",
        TRUST,
        "5/C05",
    ),
    "C06": (
        "model_checking",
        "explicit-state BFS over ring-buffer fill states driving the real add/sample; deque reference; the probability vector the real sample() hands to jax.random.choice is intercepted and judged in every explored state (exact zero on unwritten slots, no replacement), which decides the sampling clause for all keys",
        "All insertion histories up to 3 wraps for every capacity 1..5 (and every fill-level tuple of 2-3 "
        "per-environment buffers) are executed on the real ReplayBuffer; contents are compared with "
        "deque(maxlen=C) after every prefix and every state is sampled with every legal batch size and every key of K.",
        TRUST,
        "5/C06",
    ),
}

NOT_YET = "check not built yet in this session; see DESIGN.md section 5 for the planned bounded-exhaustive check"


def main():
    props = [json.loads(l) for l in open(os.path.join(VERIF, "properties.jsonl"))]
    ids = [p["id"] for p in props]
    checks = []
    for pid in ids:
        if pid not in CHECKS:
            continue
        level, technique, text, note, ref = CHECKS[pid]
        checks.append(
            {
                "property_id": pid,
                "quick_cmd": f"./check {pid} --tier quick",
                "thorough_cmd": f"./check {pid} --tier thorough",
                "evidence_file": f"/verif/evidence/{pid}.json",
                "replay_cmd_template": f"./check {pid} --replay {{path}}",
                "engine": "mc-explorer",
                "level_claimed": {"category": level, "text": text, "design_ref": f"DESIGN.md section {ref}"},
                "level_note": note,
                "technique": technique,
            }
        )
    manifest = {
        "version": 1,
        "setup_cmd": "/venv/bin/python -c \"import sys; sys.path.insert(0,'/verif'); import mc.core\" && chmod +x /verif/check",
        "hooks": {
            "guard": "LERAX_VERIF",
            "enable": "checks export LERAX_VERIF=1 and import lerax from /repo/src (editable install; LERAX_SRC overrides the path for scratch copies); no source hooks were needed",
            "baseline_off_cmd": "cd /repo && /venv/bin/python -m pytest -ra -q -p no:cacheprovider --timeout=900 --continue-on-collection-errors",
            "source_commits": [],
            "add_only": True,
        },
        "engines": [
            {
                "name": "mc-explorer",
                "path": "/verif/mc/core.py",
                "serves_properties": [c["property_id"] for c in checks],
                "kind_free_text": "hand-written bounded-exhaustive / explicit-state explorer in Python driving the real lerax code (JAX on CPU) against pure-Python reference models; every failure re-executed from scratch and written as a replay file",
            }
        ],
        "checks": checks,
        "not_applicable": [
            {"property_id": pid, "reason": NOT_YET} for pid in ids if pid not in CHECKS
        ],
        "notes": "All checks: ./check <ID> --tier quick|thorough [--seed N]; VERIF_SEED/VERIF_TIER honoured. Exit 0 held / 1 VIOLATION / 2 HARNESS-ERROR. Known findings: /verif/known_findings.json.",
    }
    out = os.path.join(VERIF, "MANIFEST.json")
    with open(out, "w") as f:
        json.dump(manifest, f, indent=1)
    try:
        import jsonschema

        schema = json.load(open("/root/.vp/MANIFEST.schema.json"))
        jsonschema.validate(manifest, schema)
        es = json.load(open("/root/.vp/EVIDENCE.schema.json"))
        for c in checks:
            p = c["evidence_file"]
            if os.path.exists(p):
                jsonschema.validate(json.load(open(p)), es)
                print("evidence ok", p)
            else:
                print("evidence MISSING", p)
        print("MANIFEST valid:", len(checks), "checks")
    except ImportError:
        print("jsonschema not available; written without validation")


if __name__ == "__main__":
    sys.exit(main())
