#!/usr/bin/env python3
"""Regenerate /verif/MANIFEST.json from the table below and validate it against the schema.
Run with python3-vt (has jsonschema):  python3-vt tools/gen_manifest.py
"""
import json
import os
import sys

VERIF = os.path.dirname(os.path.dirname(os.path.abspath(__file__)))

TRUST = (
    "Trusted: the hand-written float64/pure-Python reference for this property (kept deliberately "
    "boring, validated by seeded mutants), JAX/XLA on CPU in float32, and the finite alphabets "
    "listed in the evidence; nothing is claimed beyond the stated bounds (larger MDPs, keys outside K)."
)

# property id -> (level, technique, text, note, design section)
CHECKS = {
    "C04": (
        "model_checking",
        "exhaustive enumeration of all tiny tabular MDPs x all action scripts through the real on-policy collector; reference-collector trace validation",
        "Every deterministic MDP with |S|<=3,|A|=2 (all transition tables, terminal/initial sets, own and TimeLimit time limits, masks, "
        "Discrete/Box/vector-Box/MultiDiscrete/MultiBinary actions incl. out-of-bounds values) x every action script of the rollout length "
        "(plus deviation-bounded scripts for long horizons) is pushed through the real algo.reset+algo.iteration of PPO/A2C/REINFORCE; "
        "every buffer row, the carried state and the advantages are compared with a float64 reference collector.",
        TRUST,
        "5/C04",
    ),
    "C05": (
        "model_checking",
        "exhaustive enumeration of all tiny tabular MDPs x all behaviour scripts x buffer configurations through the real off-policy collector; slot-by-slot reference comparison",
        "Same program family through DQN (Discrete) and SAC (Box) reset/warm-up and iterations over a grid of "
        "(buffer_size, learning_starts, num_envs, num_steps); every slot of every per-environment replay buffer after every phase is "
        "compared with the reference transition list (pre-reset successor observation, timeout = truncated and not terminal, restart after done, budgets).",
        TRUST,
        "5/C05",
    ),
    "C06": (
        "model_checking",
        "explicit-state BFS over ring-buffer fill states driving the real add/sample; deque reference",
        "All insertion histories up to 3 wraps for every capacity 1..5 (and every fill-level tuple of 2-3 "
        "per-environment buffers) are executed on the real ReplayBuffer; contents are compared with "
        "deque(maxlen=C) after every prefix and every state is sampled with every legal batch size and every key of K.",
        TRUST,
        "5/C06",
    ),
}

NOT_YET = "check not built yet in this session; see DESIGN.md section 5 for the planned bounded-exhaustive check"


def main():
    props = [json.loads(l) for l in open(os.path.join(VERIF, "properties.jsonl"))]
    ids = [p["id"] for p in props]
    checks = []
    for pid in ids:
        if pid not in CHECKS:
            continue
        level, technique, text, note, ref = CHECKS[pid]
        checks.append(
            {
                "property_id": pid,
                "quick_cmd": f"./check {pid} --tier quick",
                "thorough_cmd": f"./check {pid} --tier thorough",
                "evidence_file": f"/verif/evidence/{pid}.json",
                "replay_cmd_template": f"./check {pid} --replay {{path}}",
                "engine": "mc-explorer",
                "level_claimed": {"category": level, "text": text, "design_ref": f"DESIGN.md section {ref}"},
                "level_note": note,
                "technique": technique,
            }
        )
    manifest = {
        "version": 1,
        "setup_cmd": "/venv/bin/python -c \"import sys; sys.path.insert(0,'/verif'); import mc.core\" && chmod +x /verif/check",
        "hooks": {
            "guard": "LERAX_VERIF",
            "enable": "checks export LERAX_VERIF=1 and import lerax from /repo/src (editable install; LERAX_SRC overrides the path for scratch copies); no source hooks were needed",
            "baseline_off_cmd": "cd /repo && /venv/bin/python -m pytest -ra -q -p no:cacheprovider --timeout=900 --continue-on-collection-errors",
            "source_commits": [],
            "add_only": True,
        },
        "engines": [
            {
                "name": "mc-explorer",
                "path": "/verif/mc/core.py",
                "serves_properties": [c["property_id"] for c in checks],
                "kind_free_text": "hand-written bounded-exhaustive / explicit-state explorer in Python driving the real lerax code (JAX on CPU) against pure-Python reference models; every failure re-executed from scratch and written as a replay file",
            }
        ],
        "checks": checks,
        "not_applicable": [
            {"property_id": pid, "reason": NOT_YET} for pid in ids if pid not in CHECKS
        ],
        "notes": "All checks: ./check <ID> --tier quick|thorough [--seed N]; VERIF_SEED/VERIF_TIER honoured. Exit 0 held / 1 VIOLATION / 2 HARNESS-ERROR. Known findings: /verif/known_findings.json.",
    }
    out = os.path.join(VERIF, "MANIFEST.json")
    with open(out, "w") as f:
        json.dump(manifest, f, indent=1)
    try:
        import jsonschema

        schema = json.load(open("/root/.vp/MANIFEST.schema.json"))
        jsonschema.validate(manifest, schema)
        es = json.load(open("/root/.vp/EVIDENCE.schema.json"))
        for c in checks:
            p = c["evidence_file"]
            if os.path.exists(p):
                jsonschema.validate(json.load(open(p)), es)
                print("evidence ok", p)
            else:
                print("evidence MISSING", p)
        print("MANIFEST valid:", len(checks), "checks")
    except ImportError:
        print("jsonschema not available; written without validation")


if __name__ == "__main__":
    sys.exit(main())
