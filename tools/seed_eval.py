#!/usr/bin/env python3
"""Confirm a seeded property-breaking change and run the property's check against it.

  python3 tools/seed_eval.py <seed-id> <src-dir-with patch.diff,demo.py,NOTES.md> <PROPERTY> [--tests "tests/a.py tests/b.py"] [--tier quick]

Steps (all in a scratch git worktree of /repo outside /repo and /verif, removed afterwards):
 1. demo.py on the clean tree must exit 0;   2. apply patch.diff; demo.py must exit non-zero;
 3. optional: run the named repository test files with the patch (must pass);
 4. run ./check <PROPERTY> against the patched tree (LERAX_SRC) and record whether it reports a VIOLATION.
Copies the three files to /verif/seeded/<seed-id>/ and writes meta.json there.
"""
import argparse
import json
import os
import shutil
import subprocess
import sys
import tempfile
import time

VERIF = os.path.dirname(os.path.dirname(os.path.abspath(__file__)))


def sh(cmd, cwd=None, env=None, timeout=3600):
    r = subprocess.run(cmd, shell=True, cwd=cwd, env=env, capture_output=True, text=True, timeout=timeout)
    return r.returncode, (r.stdout + r.stderr)


def main():
    ap = argparse.ArgumentParser()
    ap.add_argument("seed_id")
    ap.add_argument("src")
    ap.add_argument("prop")
    ap.add_argument("--tests", default="")
    ap.add_argument("--tier", default="quick")
    ap.add_argument("--also", default="", help="comma-separated other properties to run too")
    ap.add_argument("--what", default="")
    ap.add_argument("--needs", default="")
    a = ap.parse_args()
    dst = os.path.join(VERIF, "seeded", a.seed_id)
    os.makedirs(dst, exist_ok=True)
    for f in ("patch.diff", "demo.py", "NOTES.md"):
        if os.path.abspath(os.path.join(a.src, f)) != os.path.abspath(os.path.join(dst, f)):
            shutil.copy(os.path.join(a.src, f), os.path.join(dst, f))
    wt = tempfile.mkdtemp(prefix=f"seedeval_{a.seed_id}_", dir="/tmp")
    os.rmdir(wt)
    meta = {"seed_id": a.seed_id, "property": a.prop, "what": a.what, "needs": a.needs, "repo_head": sh("git -C /repo log --format=%h -1")[1].strip(), "ran": []}
    try:
        rc, out = sh(f"git -C /repo worktree add --detach {wt} HEAD")
        assert rc == 0, out
        env = dict(os.environ, PYTHONPATH=os.path.join(wt, "src"), JAX_PLATFORMS="cpu")
        rc0, out0 = sh(f"/venv/bin/python {os.path.join(dst, 'demo.py')}", cwd=wt, env=env)
        meta["demo_clean_exit"] = rc0
        meta["ran"].append("demo.py on clean worktree")
        rc, out = sh(f"git apply {os.path.join(dst, 'patch.diff')}", cwd=wt)
        meta["patch_applies"] = rc == 0
        if rc != 0:
            meta["error"] = out[-500:]
            return finish(meta, dst)
        rc1, out1 = sh(f"/venv/bin/python {os.path.join(dst, 'demo.py')}", cwd=wt, env=env)
        meta["demo_patched_exit"] = rc1
        meta["demo_patched_tail"] = out1.strip().splitlines()[-3:]
        meta["ran"].append("demo.py on patched worktree")
        if a.tests:
            t0 = time.time()
            rct, outt = sh(f"/venv/bin/python -m pytest -q -p no:cacheprovider --timeout=1800 {a.tests}", cwd=wt, env=env, timeout=7200)
            meta["tests"] = {"files": a.tests, "exit": rct, "summary": outt.strip().splitlines()[-1:], "wall_s": round(time.time() - t0)}
            meta["ran"].append(f"pytest {a.tests} on patched worktree")
        meta["checks"] = {}
        for pid in [a.prop] + [p for p in a.also.split(",") if p]:
            envc = dict(os.environ, LERAX_SRC=os.path.join(wt, "src"), VERIF_REPLAY_DIR=os.path.join(wt, "replays"))
            t0 = time.time()
            rcc, outc = sh(f"{os.path.join(VERIF, 'check')} {pid} --tier {a.tier} --no-evidence", env=envc, timeout=7200)
            lines = [l for l in outc.splitlines() if l.startswith(("VIOLATION", "  violation", "HARNESS", "KNOWN", "["))]
            meta["checks"][pid] = {"tier": a.tier, "exit": rcc, "detected": rcc == 1 and any(l.startswith("VIOLATION") for l in lines),
                                   "lines": [l[:300] for l in lines[:6]], "wall_s": round(time.time() - t0)}
            meta["ran"].append(f"./check {pid} --tier {a.tier} with LERAX_SRC=<patched worktree>/src")
    finally:
        sh(f"git -C /repo worktree remove --force {wt}")
        shutil.rmtree(wt, ignore_errors=True)
    return finish(meta, dst)


def finish(meta, dst):
    with open(os.path.join(dst, "meta.json"), "w") as f:
        json.dump(meta, f, indent=1)
    print(json.dumps({k: meta.get(k) for k in ("seed_id", "property", "demo_clean_exit", "demo_patched_exit", "patch_applies", "tests")}, indent=None))
    for pid, c in meta.get("checks", {}).items():
        print(pid, "DETECTED" if c["detected"] else f"MISSED(exit={c['exit']})", c["wall_s"], "s", "|", (c["lines"] or [""])[0][:200])
    return 0


if __name__ == "__main__":
    sys.exit(main())
