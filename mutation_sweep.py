#!/usr/bin/env python3
"""Detection sweep: apply each hand-written property-breaking mutant (mutants/*.json) to a scratch
copy of /repo/src (outside /repo and /verif), run the property's quick check against the copy
(LERAX_SRC), expect exit 1 + VIOLATION, delete the copy.

  python3 mutation_sweep.py [--only C04] [--ids m1,m2] [-j 8] [--tier quick] [--tests]

Mutants are string replacements {id, property, file, old, new, note, expect ('violation'|'silent')}.
'silent' mutants are negative controls: semantically irrelevant changes the check must NOT flag.
"""
import argparse
import concurrent.futures as cf
import glob
import json
import os
import shutil
import subprocess
import sys
import tempfile
import time

VERIF = os.path.dirname(os.path.abspath(__file__))


def load(only, ids):
    out = []
    for f in sorted(glob.glob(os.path.join(VERIF, "mutants", "*.json"))):
        for m in json.load(open(f)):
            if only and m["property"] not in only:
                continue
            if ids and m["id"] not in ids:
                continue
            out.append(m)
    return out


def run_one(m, tier, tests):
    t0 = time.time()
    d = tempfile.mkdtemp(prefix=f"lerax_mut_{m['id']}_", dir="/tmp")
    try:
        src = os.path.join(d, "src")
        shutil.copytree("/repo/src", src, ignore=shutil.ignore_patterns("__pycache__"))
        p = os.path.join(src, m["file"])
        s = open(p).read()
        if s.count(m["old"]) != 1:
            return m, "BAD-PATCH", f"'old' occurs {s.count(m['old'])} times", 0
        open(p, "w").write(s.replace(m["old"], m["new"]))
        env = dict(os.environ, LERAX_SRC=src, VERIF_REPLAY_DIR=os.path.join(d, "replays"))
        r = subprocess.run([os.path.join(VERIF, "check"), m["property"], "--tier", tier, "--no-evidence"],
                           capture_output=True, text=True, env=env, timeout=3600)
        lines = [l for l in r.stdout.splitlines() if l.startswith(("VIOLATION", "  violation", "HARNESS", "KNOWN"))]
        viol = any(l.startswith("VIOLATION") for l in r.stdout.splitlines())
        expect = m.get("expect", "violation")
        if expect == "violation":
            status = "DETECTED" if (r.returncode == 1 and viol) else f"MISSED(exit={r.returncode})"
        else:
            status = "SILENT-OK" if r.returncode == 0 and not viol else f"FALSE-ALARM(exit={r.returncode})"
        detail = "; ".join(l.strip()[:160] for l in lines[:3]) or r.stdout[-300:] + r.stderr[-300:]
        return m, status, detail, time.time() - t0
    finally:
        shutil.rmtree(d, ignore_errors=True)


def main():
    ap = argparse.ArgumentParser()
    ap.add_argument("--only", default="")
    ap.add_argument("--ids", default="")
    ap.add_argument("-j", type=int, default=4)
    ap.add_argument("--tier", default="quick")
    ap.add_argument("--tests", action="store_true")
    a = ap.parse_args()
    ms = load(set(filter(None, a.only.split(","))), set(filter(None, a.ids.split(","))))
    bad = 0
    with cf.ThreadPoolExecutor(a.j) as ex:
        for m, status, detail, dt in ex.map(lambda m: run_one(m, a.tier, a.tests), ms):
            print(f"{m['property']} {m['id']:<32} {status:<14} {dt:6.1f}s  {detail[:260]}", flush=True)
            if status.split("(")[0] not in ("DETECTED", "SILENT-OK"):
                bad += 1
    print(f"{len(ms)} mutants, {bad} not as expected")
    return 1 if bad else 0


if __name__ == "__main__":
    sys.exit(main())
