CONSTANTS
  C = 3
  E = 2
  MaxN = 5
INIT Init
NEXT Next
INVARIANTS MostRecent ValidIsWritten NoDuplicates
