------------------------------- MODULE Ring -------------------------------
(* Secondary model of C06: E per-environment ring buffers of capacity C.       *)
(* slots[e][i] = tag of the transition living in slot i of buffer e (0 = never  *)
(* written); the k-th insertion into buffer e carries tag k.  TLC checks the    *)
(* invariants on the model; /verif/mc/props/c06.py replays EVERY edge of the    *)
(* dumped state graph against the real ReplayBuffer.add and compares states.    *)
EXTENDS Naturals, Sequences, FiniteSets

CONSTANTS C, E, MaxN

VARIABLES pos, slots

vars == <<pos, slots>>

Envs == 1..E

Init == /\ pos = [e \in Envs |-> 0]
        /\ slots = [e \in Envs |-> [i \in 1..C |-> 0]]

Add(e) == /\ pos[e] < MaxN
          /\ slots' = [slots EXCEPT ![e][(pos[e] % C) + 1] = pos[e] + 1]
          /\ pos' = [pos EXCEPT ![e] = pos[e] + 1]

Next == \E e \in Envs : Add(e)

Spec == Init /\ [][Next]_vars

Min(a, b) == IF a < b THEN a ELSE b

Stored(e) == {slots[e][i] : i \in 1..C} \ {0}

\* exactly the most recent min(n, C) transitions are held
MostRecent == \A e \in Envs : Stored(e) = {t \in 1..pos[e] : t + C > pos[e]}

\* the slots the sampler treats as valid (index < min(position, C)) are exactly the written ones
ValidIsWritten == \A e \in Envs : \A i \in 1..C : (i <= Min(pos[e], C)) <=> (slots[e][i] # 0)

NoDuplicates == \A e \in Envs : Cardinality(Stored(e)) = Min(pos[e], C)
=============================================================================
